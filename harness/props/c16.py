"""C16 — connected components and topology counts agree with the graph.

Oracle: real library only.  After building the graph the WRITTEN TEXT str(g) is read by _graphgen.parse (tab
splitting; E lines classified by the independent geometric rule of C11: whole interval on a side = containment,
oriented suffix meeting oriented prefix = dovetail, otherwise internal) and compared with the library:
  * connected_components() as a set of frozensets of names = union-find over the dovetail records only; every
    segment in exactly one component; segment_connected_component(s), by name and by instance, = the class of s
    (graphs of more than 6 segments: every segment is asked once, by name or by instance alternately); every member
    of an answer IS the segment of that name in the Gfa (Gfa.segment(name) is member), not a left-over object
    that merely carries the name (`component-member-not-a-segment-of-the-gfa`);
  * n_dovetails / n_containments / n_internals = number of such records; n_dead_ends = number of segment ends
    carrying no dovetail; the queries do not change the text;
  * remove_small_components(minlen) (only when every segment length is known): exactly the components whose
    summed segment length is < minlen disappear, every line that does not depend on a removed segment is
    textually unchanged, nothing new, no line mentions a removed segment.
In 30% of the cases (both versions) the lines of the document ARRIVE IN ANOTHER ORDER: all lines shuffled, or a
random subset of the S lines behind everything else - so that dovetails, containments and paths arrive before the
S lines of the segments they join (either side, every orientation mix) and gfapy has to replace its placeholder
segments; the answers must not depend on the arrival order.
In another 12% of the cases the graph is questioned WHILE IT IS UNDER CONSTRUCTION (`ask_at`): the document (without
its P/O/U lines) arrives with a random subset of its S lines - one time in five all of them - behind every other
line, and after the last of the other lines (every edge in, none of the late S lines) and at 0-2 further random
moments ALL the queries above are asked.  The graph of such a moment is the one the lines added so far describe:
its segments are the S lines among them and every name an L/C/E/G/F line among them uses as a segment (gfapy keeps a
placeholder segment for it, listed by Gfa.segments and written with a co:Z tag), its records the edge lines among
them, each classified in the complete document (true segment lengths).  A placeholder is a segment like any other:
it is in exactly one class (also when EVERY segment of its class is still a placeholder, e.g. the far end of a
containment), its two ends count for n_dead_ends, segment_connected_component answers for it by name and by
instance; and no segment of Gfa.segments is outside all the classes of connected_components()
(`components-not-a-partition-of-the-segments-with-placeholders`; the other signatures carry the suffix
`-with-placeholders`).  The construction then goes on and the case continues as any other.
In 70% of the cases the graph goes through a history of 1-5 changes made through ANY PUBLIC ROUTE, and the answers
must be those of the graph as it is at the time of each query, whatever was asked before:
  * removal of a segment or of an edge by Gfa.rm(name / line) or by line.disconnect();
  * addition of a segment, dovetail, containment or internal alignment by Gfa.add_line(text) or by
    gfapy.Line(text).connect(gfa); also a dovetail to a segment that is defined only by the NEXT step (the S line
    arrives after the edge, on the from or the to side, same or opposite orientations);
  * `clash` steps (8% of the steps): 1-2 edge lines (dovetail / containment / GFA2 internal alignment, by add_line or
    Line.connect) which HAVE TO BE REFUSED because one of their two segment references is the name of a line of
    another type (an edge ID, a path, a group, a gap; if the document has none, a dovetail with an ID is added
    first), the other reference being a segment of the graph - in 85% the FIRST reference is the good one, so that
    the refusal comes after the line has begun to attach itself; two refusals of the same kind on the same segment
    are frequent (the counts of the library halve a sum).  A refused line is not a record of the document: the
    query step which always follows, and every later one, must give the classes and the four counts of the text
    (a half-attached line shows as components-raises / segment-component-raises, n_dead_ends-wrong,
    n_containments-wrong, n_internals-wrong, n_dovetails-wrong, or as a dangling back-reference at the end);
  * renaming of a segment to a new name, and ASSIGNING A SEGMENT THE NAME IT ALREADY HAS (an identity entry of a
    renaming table), by any of the routes s.name = v / s.set("name", v) / s.sid = v / s.set("sid", v); a
    `normalise` step is a clean-up pass which assigns f(name) to EVERY segment of the graph (f = identity, lower
    case, upper case, or a prefix for names not starting with a letter), so that most or all segments are given
    their own name and a few a new one.  Assigning names adds and removes no record and no segment end:
    immediately after such a step the library must give the classes and the four counts of the text BEFORE the
    step with the names mapped (`components-wrong-after-rename`, `segment-component-raises/wrong-after-rename`
    for the renamed segments by name and by instance, `n_*-wrong-after-rename`), the segment names of the Gfa are
    the mapped names and Gfa.segment(new name) is the very segment that was named (`rename-loses-segment`) - a
    segment which silently dropped out of the Gfa would otherwise also vanish from the text the later queries are
    compared with;
  * graph operations which edit the graph themselves: multiply(segment, 2..3), remove_self_links(),
    remove_dead_ends(minlen), merge_linear_paths();
  * `query` steps between the changes (always one before the first change, then before each later change with
    probability 1/2): all the queries above are asked (segment_connected_component for one segment only) and compared
    with the text of that moment - so an answer computed before a change is never allowed to survive it.
The full comparison follows the last change.

NOT CHECKED:
  * the order of components and of segments inside a component;
  * is_cut_link / is_cut_segment / split_connected_components (not in the property); WHAT the graph operations
    of a history do to the graph (C14/C15 and others): only that the queries describe the graph they leave;
  * placeholder LINKS (made by a path whose link has not arrived) and placeholders of unknown type (group items):
    the graphs questioned under construction have no P/O/U line;
  * remove_small_components when some segment has no known length (`*` without LN: the code adds None);
  * a history step refused with a gfapy.Error is simply skipped (atomicity of refused steps belongs to C08: here
    only the answers of the queries after it are compared with the text); THAT a clash line is refused is not
    demanded either (an accepted one leaves a text that is not closed: history-leaves-dangling-reference); an
    addition naming a segment which is no longer in the graph (removed by an operation) is skipped as well;
  * if the text after the history is not closed (a line mentions a missing segment, DESIGN 7 #1/#2) the case is
    reported once as `history-leaves-dangling-reference` and nothing else is compared.
"""
from harness import lib
from harness.props import _graphgen as G

ID = "C16"
RULE = ("random assembly-like graphs (_graphgen.gen_graph, GFA1/GFA2, isolated segments, trees, cycles, self-links, "
        "hairpins, parallel edges, containment-only and internal-only relations; <= 12 segments quick, <= 30 thorough), "
        "30% with the lines in another arrival order (S lines after the edges/paths that mention them), "
        "12% questioned under construction (P/O/U lines dropped, a subset of the S lines behind everything else, all "
        "queries asked while segments - whole classes of them too - are placeholders, against the lines added so "
        "far; every segment of Gfa.segments is in a class), "
        "70% followed by 1-5 mutation steps (rm segment / rm edge by Gfa.rm or line.disconnect, add "
        "segment/dovetail/containment/internal by add_line or Line.connect, a dovetail followed by the S line of its "
        "new segment, rename to a new name or to the own name by name=/set/sid=, normalise = f(name) assigned to every "
        "segment with f mostly the identity - classes, counts and segments right after it are those of the text "
        "before it with the names mapped -, clash = 1-2 edge lines refused because their second (15%: first) segment "
        "reference is the name of an edge/path/group/gap, followed by a query, multiply, remove_self_links, "
        "remove_dead_ends, merge_linear_paths) interleaved with query steps whose answers "
        "are compared with the text of that moment (names and identity of the members), then one "
        "remove_small_components threshold. Non-trivial: at least "
        "2 segments and one edge record.")
CASE_TIMEOUT = 60


def budget(tier):
    return 2000 if tier == "quick" else 40000


def _pos(x, n):
    return "%d$" % x if x == n else str(x)


def dovetail_line(v, a, ea, la, b, eb, lb, k):
    oa = "+" if ea == "R" else "-"
    ob = "+" if eb == "L" else "-"
    if v == "gfa1":
        return "L\t%s\t%s\t%s\t%s\t%s" % (a, oa, b, ob, "%dM" % k if k else "*")
    iva = (la - k, la) if ea == "R" else (0, k)
    ivb = (0, k) if eb == "L" else (lb - k, lb)
    return "E\t*\t%s%s\t%s%s\t%s\t%s\t%s\t%s\t%s" % (a, oa, b, ob, _pos(iva[0], la), _pos(iva[1], la), _pos(ivb[0], lb),
                                                     _pos(ivb[1], lb), "%dM" % k if k else "*")


# routes by which a name is assigned to a segment (all end in the same setter of the library)
RENAME_ROUTES = ["attr", "attr", "set", "sid", "set_sid"]
# name normalisations of a clean-up pass: each leaves most names of the generated graphs (capital letters, s1, s2,
# 10, 11, x7, ctg3, Z1..Z6, copies made by multiply) as they are, i.e. most segments are assigned their own name
NORMALISE = {
    "same": lambda n: n,
    "lower": lambda n: n.lower(),
    "upper": lambda n: n.upper(),
    "prefix": lambda n: n if n[:1].isalpha() else "n" + n,
}


def _set_name(s, value, route):
    if route == "set":
        s.set("name", value)
    elif route == "sid":
        s.sid = value
    elif route == "set_sid":
        s.set("sid", value)
    else:
        s.name = value


def late_segments(rng, lines):
    """the same document with some S lines arriving AFTER lines that mention them (legal in both versions: gfapy
    keeps a placeholder segment until the S line arrives): either every line at a random place, or a random
    subset of the S lines moved behind everything else"""
    lines = list(lines)
    if rng.random() < 0.5:
        rng.shuffle(lines)
        return lines
    late = [l for l in lines if l.startswith("S\t") and rng.random() < 0.5]
    rng.shuffle(late)
    return [l for l in lines if l not in late] + late


def under_construction(rng, lines):
    """-> (lines in arrival order, moments): the document without its P/O/U lines (a path makes placeholder LINKS, a
    group placeholders of unknown type: not the subject here), a random subset of the S lines (one time in five:
    all of them) behind everything else, and the numbers of added lines after which the queries are asked: always
    the moment at which every other line is in and none of the late S lines, plus 0-2 random earlier/later ones"""
    keep = [l for l in lines if l.split("\t")[0] not in ("P", "O", "U")]
    every = rng.random() < 0.2
    late = [l for l in keep if l.startswith("S\t") and (every or rng.random() < 0.5)]
    rng.shuffle(late)
    early = [l for l in keep if l not in late]
    if rng.random() < 0.5:
        rng.shuffle(early)
    out = early + late
    asks = set([len(early)])
    for _ in range(rng.randint(0, 2)):
        if len(out) > 1:
            asks.add(rng.randint(1, len(out) - 1))
    return out, sorted(k for k in asks if 0 < k < len(out))


def _named(line, name, v):
    """the edge line `line` (written without identifier) with the identifier `name`"""
    return line + "\tID:Z:" + name if v == "gfa1" else "E\t" + name + line[3:]


def clash_line(rng, v, a, la, ident, kind, first):
    """an edge line one of whose segment references is `ident` (the name of a line which is not a segment: the line
    has to be refused), the other the segment a; first: ident is the FIRST reference of the line"""
    oa, ob = rng.choice("+-"), rng.choice("+-")
    li = rng.randint(4, 12)                  # the length the writer of the line believes `ident` to have
    if kind == "dovetail":
        x, y = (a, rng.choice("LR"), la), (ident, rng.choice("LR"), li)
        if first:
            x, y = y, x
        return dovetail_line(v, x[0], x[1], x[2], y[0], y[1], y[2], rng.choice([0, rng.randint(1, min(la, li) - 1)]))
    if kind == "containment":
        if v == "gfa1":
            x, y = (a, oa), (ident, ob)
            if first:
                x, y = y, x
            return "C\t%s\t%s\t%s\t%s\t%d\t*" % (x[0], x[1], y[0], y[1], rng.randint(0, 3))
        lb = rng.randint(1, la - 1)
        p = rng.randint(0, la - lb)
        x, y = (a + oa, _pos(p, la), _pos(p + lb, la)), (ident + ob, "0", "%d$" % lb)
    else:
        b1 = rng.randint(1, la - 2); e1 = rng.randint(b1, la - 1)
        b2 = rng.randint(1, li - 2); e2 = rng.randint(b2, li - 1)
        x, y = (a + oa, str(b1), str(e1)), (ident + ob, str(b2), str(e2))
    if first:
        x, y = y, x
    return "E\t*\t%s\t%s\t%s\t%s\t%s\t%s\t*" % (x[0], y[0], x[1], x[2], y[1], y[2])


def gen_case(rng, tier, i):
    c = G.gen_graph(rng, tier, max_segs=12 if tier == "quick" else 30)
    c["vlevel"] = rng.choice([0, 1, 1, 1, 2, 3])
    arrival = rng.random()
    if arrival < 0.3:
        c["lines"] = late_segments(rng, c["lines"])
    elif arrival < 0.42:
        c["lines"], c["ask_at"] = under_construction(rng, c["lines"])
    d = G.parse(c["lines"], c["version"])
    idents = sorted(set(r_["name"] for r_ in d.recs if r_["rt"] != "S" and r_["name"]))
    v = c["version"]
    alive = {n: (s["len"] if s["len"] is not None else 5) for n, s in d.segs.items()}
    edges = [e["line"] for e in d.edges]
    hist = []
    fresh = ["Z1", "Z2", "Z3", "Z4", "Z5", "Z6"]

    def off():
        return rng.choice(["rm", "disconnect"])

    def on():
        return rng.choice(["add_line", "connect"])

    def rename_route():
        return rng.choice(RENAME_ROUTES)
    if rng.random() < 0.7:
        for j in range(rng.randint(1, 5)):
            if j == 0 or rng.random() < 0.5:
                hist.append(["query", rng.randrange(1000)])
            if alive and rng.random() < 0.08:
                # 1-2 lines which have to be refused: a segment reference of theirs is the name of an edge, a path,
                # a group or a gap (if the document has no such name, a named dovetail is added first)
                a = rng.choice(sorted(alive))
                la = alive[a]
                if not idents:
                    b = rng.choice(sorted(alive))
                    lb = alive[b]
                    idents.append("zl1")
                    hist.append(["add", _named(dovetail_line(v, a, rng.choice("LR"), la, b, rng.choice("LR"), lb,
                                                             rng.choice([0, rng.randint(1, min(la, lb) - 1)])), "zl1", v),
                                 on(), [a, b]])
                    a = rng.choice(sorted(alive))
                    la = alive[a]
                ident = rng.choice(idents)
                kind = rng.choice(["dovetail", "dovetail", "containment"] + (["internal"] if v == "gfa2" else []))
                first = rng.random() < 0.15
                for _ in range(rng.choice([1, 2, 2] if kind != "dovetail" else [1, 1, 2])):
                    hist.append(["clash", clash_line(rng, v, a, la, ident, kind, first), on(), a, ident])
                hist.append(["query", rng.randrange(1000)])
                continue
            r = rng.random()
            if r < 0.2 and alive:
                n = rng.choice(sorted(alive))
                hist.append(["rm_seg", n, off()])
                del alive[n]
            elif r < 0.35 and edges:
                hist.append(["rm_line", edges.pop(rng.randrange(len(edges))), off()])
            elif r < 0.43 and fresh:
                n = fresh.pop(0)
                ln = rng.randint(4, 12)
                alive[n] = ln
                hist.append(["add", "S\t%s\t*\tLN:i:%d" % (n, ln) if v == "gfa1" else "S\t%s\t%d\t*" % (n, ln), on(), []])
            elif r < 0.51 and alive and fresh:
                # a dovetail to a segment which is defined only afterwards (placeholder replaced by its S line)
                a = rng.choice(sorted(alive))
                n = fresh.pop(0)
                la, ln = alive[a], rng.randint(4, 12)
                k = rng.choice([0, rng.randint(1, min(la, ln) - 1)])
                x, y = (a, rng.choice("LR"), la), (n, rng.choice("LR"), ln)
                if rng.random() < 0.6:
                    x, y = y, x
                hist.append(["add", dovetail_line(v, x[0], x[1], x[2], y[0], y[1], y[2], k), on(), [a]])
                hist.append(["add", "S\t%s\t*\tLN:i:%d" % (n, ln) if v == "gfa1" else "S\t%s\t%d\t*" % (n, ln), on(), []])
                alive[n] = ln
            elif r < 0.70 and alive:
                a, b = rng.choice(sorted(alive)), rng.choice(sorted(alive))
                la, lb = alive[a], alive[b]
                kind = rng.random()
                if kind < 0.7:
                    k = rng.choice([0, rng.randint(1, min(la, lb) - 1)])
                    hist.append(["add", dovetail_line(v, a, rng.choice("LR"), la, b, rng.choice("LR"), lb, k), on(), [a, b]])
                elif kind < 0.85 and la > lb:
                    p = rng.randint(0, la - lb)
                    if v == "gfa1":
                        hist.append(["add", "C\t%s\t%s\t%s\t%s\t%d\t*" % (a, rng.choice("+-"), b, rng.choice("+-"), p), on(), [a, b]])
                    else:
                        hist.append(["add", "E\t*\t%s%s\t%s%s\t%s\t%s\t0\t%d$\t*" % (a, rng.choice("+-"), b, rng.choice("+-"),
                                                                                 _pos(p, la), _pos(p + lb, la), lb), on(), [a, b]])
                elif v == "gfa2":
                    b1 = rng.randint(1, la - 2); e1 = rng.randint(b1, la - 1)
                    b2 = rng.randint(1, lb - 2); e2 = rng.randint(b2, lb - 1)
                    hist.append(["add", "E\t*\t%s%s\t%s%s\t%d\t%d\t%d\t%d\t*" % (a, rng.choice("+-"), b, rng.choice("+-"), b1, e1, b2, e2),
                                 on(), [a, b]])
            elif r < 0.85 and alive:
                k = rng.random()
                if k < 0.45:
                    hist.append(["op", "multiply", rng.choice(sorted(alive)), rng.choice([2, 2, 3])])
                elif k < 0.6:
                    hist.append(["op", "remove_self_links"])
                elif k < 0.8:
                    hist.append(["op", "remove_dead_ends", rng.choice([5, 8, 12, 1000])])
                else:
                    hist.append(["op", "merge_linear_paths"])
            elif alive:
                k = rng.random()
                if k < 0.25:
                    # a segment is assigned the name which it already has (an identity entry of a renaming table)
                    old = rng.choice(sorted(alive))
                    hist.append(["rename", old, old, rename_route()])
                elif k < 0.4:
                    # a normalisation pass over all segment names: most (or all) names are normal already
                    how = rng.choice(sorted(NORMALISE))
                    f = NORMALISE[how]
                    if len(set(f(n) for n in alive)) == len(alive):
                        alive = {f(n): ln for n, ln in alive.items()}
                        hist.append(["normalise", how, rename_route()])
                elif fresh:
                    old = rng.choice(sorted(alive))
                    new = fresh.pop(0)
                    alive[new] = alive.pop(old)
                    hist.append(["rename", old, new, rename_route()])
    c["history"] = hist
    c["minlen"] = rng.choice([0, 5, 8, 10, 12, 15, 20, 30, 50, 1000])
    return c


def _doc(case):
    return G.parse(case["lines"], case["version"])


def nontrivial(case):
    d = _doc(case)
    return len(d.segs) >= 2 and bool(d.edges)


def tags(case):
    t = G.features(_doc(case))
    t.append("history%d" % len([h for h in case["history"] if h[0] != "query"]))
    if case.get("ask_at"):
        t.append("under-construction")
    for h in case["history"]:
        t.append("op-" + h[0])
        if h[0] == "op":
            t.append("op-" + h[1])
        if h[0] in ("rm_seg", "rm_line") and len(h) > 2:
            t.append("route-" + h[2])
        if h[0] in ("add", "clash") and len(h) > 2:
            t.append("route-" + h[2])
        if h[0] == "rename":
            t.append("rename-to-own-name" if h[1] == h[2] else "rename-to-new-name")
            t.append("route-name-" + (h[3] if len(h) > 3 else "attr"))
        if h[0] == "normalise":
            t.append("normalise-" + h[1])
            t.append("route-name-" + h[2])
    return sorted(set(t))


def signature(case, failure):
    return failure.split(":")[0]


def shrink(case, failure):
    sig = signature(case, failure)
    cur = dict(case)
    changed = True
    while changed:
        changed = False
        for j in range(len(cur["history"])):
            c2 = dict(cur); c2["history"] = cur["history"][:j] + cur["history"][j + 1:]
            if any(signature(c2, f) == sig for f in oracle(c2)):
                cur = c2; changed = True
                break
    return G.shrink_lines(cur, failure, oracle, signature)


def names_of(segs):
    return [str(s.name) for s in segs]


def foreign_members(g, segs):
    """members of an answer that are not THE segment of that name in the Gfa (public API: Gfa.segment(name))"""
    out = []
    for m in segs:
        try:
            ok = g.segment(str(m.name)) is m
        except Exception:  # noqa
            ok = False
        if not ok:
            out.append(str(m.name))
    return out


def _apply(gfapy, g, case, h):
    """one history step through the public route it names -> lib.outcome(...) or None if the step does not apply"""
    kind = h[0]
    if kind in ("rm_seg", "rm_line"):
        if kind == "rm_seg":
            target = g.segment(h[1])
        else:
            target = ([l for l in g.lines if str(l) == h[1]] or [None])[0]
        if target is None:
            return None
        if len(h) > 2 and h[2] == "disconnect":
            return lib.outcome(target.disconnect)
        return lib.outcome(g.rm, h[1] if kind == "rm_seg" else target)
    if kind == "add":
        if len(h) > 3 and any(g.segment(n) is None for n in h[3]):
            return None       # a segment named by the new edge was removed by a graph operation
        if len(h) > 2 and h[2] == "connect":
            return lib.outcome(lambda: gfapy.Line(h[1], version=case["version"], vlevel=case.get("vlevel", 1)).connect(g))
        return lib.outcome(g.add_line, h[1])
    if kind == "clash":
        other = g.line(h[4])
        if g.segment(h[3]) is None or other is None or other.virtual or other.record_type in ("S", "\n"):
            return None       # the segment, or the line whose name is misused, is no longer there
        if h[2] == "connect":
            return lib.outcome(lambda: gfapy.Line(h[1], version=case["version"], vlevel=case.get("vlevel", 1)).connect(g))
        return lib.outcome(g.add_line, h[1])
    if kind in ("rename", "normalise"):
        r = _rename(g, h)
        return None if r is None else r[0]
    if kind == "op":
        if h[1] == "multiply":
            if g.segment(h[2]) is None:
                return None
            return lib.outcome(g.multiply, h[2], h[3])
        if h[1] == "remove_dead_ends":
            if any(s.length is None for s in g.segments):
                return None
            return lib.outcome(g.remove_dead_ends, h[2])
        return lib.outcome(getattr(g, h[1]))
    return None


def _rename(g, h):
    """a rename / normalise step -> None if it does not apply, else (lib.outcome(...), [(segment, old, new)] of the
    assignments which were made, in order)"""
    if h[0] == "rename":
        route = h[3] if len(h) > 3 else "attr"
        s = g.segment(h[1])
        if s is None or (h[2] != h[1] and g.line(h[2]) is not None):
            return None
        todo = [(s, h[1], h[2])]
    else:
        route = h[2]
        f = NORMALISE[h[1]]
        segs = list(g.segments)
        old = [str(s.name) for s in segs]
        new = [f(n) for n in old]
        if not segs or len(set(new)) != len(new) or any(b != a and g.line(b) is not None for a, b in zip(old, new)):
            return None
        todo = list(zip(segs, old, new))
    made = []

    def run():
        for s, a, b in todo:
            _set_name(s, b, route)
            made.append((s, a, b))
    return lib.outcome(run), made


def _snapshot(g, case):
    """the parsed text of this moment, or None if it cannot serve as the reference of a comparison"""
    d = G.parse(str(g), case["version"])
    if not G.closed(d) or any(e["kind"] is None for e in d.edges) or d.dup_names or not all(e["valid"] for e in d.edges):
        return None
    return d


def _rename_failures(g, d0, made, h):
    """assigning names does not add or remove a record or a segment end: the segments, the classes and the
    counts after the step are those of the text BEFORE it (d0), with the new names"""
    F = []
    m = dict((a, b) for _, a, b in made)
    what = "after %r = %s" % (h, ", ".join("%s->%s" % (a, b) for _, a, b in made[:12]))
    want = set(frozenset(m.get(n, n) for n in c) for c in G.components(d0))
    r = lib.outcome(lambda: [names_of(c) for c in g.connected_components()])
    if r[0] != "ok":
        F.append("components-raises-after-rename: %s %s %s" % (what, r[0], r[1]))
    elif set(frozenset(c) for c in r[1]) != want or sum(len(c) for c in r[1]) != len(d0.segs):
        F.append("components-wrong-after-rename: %s expected %r got %r" % (what, sorted(map(sorted, want)), sorted(map(sorted, r[1]))))
    cls = {}
    for c in want:
        for n in c:
            cls[n] = c
    for s, a, b in made[:6]:
        for arg, how in ((b, "name"), (s, "instance")):
            r = lib.outcome(lambda: names_of(g.segment_connected_component(arg)))
            if r[0] != "ok":
                F.append("segment-component-raises-after-rename: %s %s by %s: %s %s" % (what, b, how, r[0], r[1]))
            elif b in cls and (set(r[1]) != set(cls[b]) or len(r[1]) != len(set(r[1]))):
                F.append("segment-component-wrong-after-rename: %s %s by %s: expected %r got %r" % (what, b, how, sorted(cls[b]), sorted(r[1])))
    deg = G.degrees(d0)
    for attr, val in (("n_dovetails", len(d0.dovetails)), ("n_containments", len(d0.containments)),
                      ("n_internals", len(d0.internals)), ("n_dead_ends", sum(1 for v in deg.values() if v == 0))):
        r = lib.outcome(lambda: getattr(g, attr))
        if r[0] != "ok":
            F.append("%s-raises-after-rename: %s %s %s" % (attr, what, r[0], r[1]))
        elif r[1] != val:
            F.append("%s-wrong-after-rename: %s library %r, records and segment ends of the text before the step %d" % (attr, what, r[1], val))
    want_names = sorted(m.get(n, n) for n in d0.segs)
    r = lib.outcome(lambda: sorted(str(n) for n in g.segment_names))
    if r != ("ok", want_names):
        F.append("rename-loses-segment: %s the segments of the Gfa are %r, expected %r" % (what, r[1], want_names))
    lost = []
    for s, a, b in made:
        r = lib.outcome(g.segment, b)
        if r[0] != "ok" or r[1] is not s:
            lost.append(b)
    if lost:
        F.append("rename-loses-segment: %s Gfa.segment(name) is not the segment which was given the name, for %r" % (what, lost))
    return F


def _queries(g, case, full, pick=0):
    """every query of the property against the text of this moment.
    -> (failures, parsed text or None if nothing further can be compared, classes, text)"""
    F = []
    text = str(g)
    d = G.parse(text, case["version"])
    if not G.closed(d) or any(e["kind"] is None for e in d.edges):
        return ["history-leaves-dangling-reference: after %r the text mentions a missing segment: %r" % (
            case["history"], [r_["line"] for r_ in d.recs if r_["rt"] in "LCEGFP" and any(x not in d.segs for x in r_["refs"])])], None, None, text
    if d.dup_names or not all(e["valid"] for e in d.edges):
        return F, None, None, text
    want = G.components(d)
    F = _ask(g, d, want, text, len(case["lines"]), full, pick)
    return F, d, want, text


def _ask(g, d, want, text, salt, full, pick=0, sfx=""):
    """the queries of the property against a reference d (segs, seg_order, dovetails, containments, internals) whose
    classes are `want`; sfx is appended to the signature of every failure"""
    F = []
    # ------------------------------------------------------------------ components
    r = lib.outcome(lambda: [list(c) for c in g.connected_components()])
    if r[0] != "ok":
        F.append("components-raises%s: %s %s" % (sfx, r[0], r[1]))
    else:
        alien = [n for c in r[1] for n in foreign_members(g, c)]
        r = ("ok", [names_of(c) for c in r[1]])
        flat = [n for c in r[1] for n in c]
        if len(flat) != len(set(flat)):
            F.append("components-overlap%s: a segment is listed twice: %r" % (sfx, r[1]))
        got = set(frozenset(c) for c in r[1])
        if got != want:
            F.append("components-wrong%s: expected %r got %r" % (sfx, sorted(map(sorted, want)), sorted(map(sorted, got))))
        if alien:
            F.append("component-member-not-a-segment-of-the-gfa%s: connected_components() lists object(s) named %r which are "
                     "not the segments of that name in the Gfa" % (sfx, alien))
    cls = {}
    for c in want:
        for n in c:
            cls[n] = c
    order = list(d.seg_order)
    both = len(order) <= 6
    if not full and order:
        order = [order[pick % len(order)]]
        both = False
        salt = pick // 7
    for idx, n in enumerate(order):
        routes = ((n, "name"), (g.segment(n), "instance"))
        if not both:
            routes = (routes[(idx + salt) % 2],)
        for arg, how in routes:
            r = lib.outcome(lambda: list(g.segment_connected_component(arg)))
            alien = []
            if r[0] == "ok":
                alien = foreign_members(g, r[1])
                r = ("ok", names_of(r[1]))
            if r[0] != "ok":
                F.append("segment-component-raises%s: %s by %s: %s %s" % (sfx, n, how, r[0], r[1]))
            elif set(r[1]) != set(cls[n]) or len(r[1]) != len(set(r[1])):
                F.append("segment-component-wrong%s: %s by %s: expected %r got %r" % (sfx, n, how, sorted(cls[n]), sorted(r[1])))
            if alien:
                F.append("component-member-not-a-segment-of-the-gfa%s: segment_connected_component(%s by %s) lists "
                         "object(s) named %r which are not the segments of that name in the Gfa" % (sfx, n, how, alien))
    # ------------------------------------------------------------------ counters
    deg = G.degrees(d)
    for attr, val in (("n_dovetails", len(d.dovetails)), ("n_containments", len(d.containments)),
                      ("n_internals", len(d.internals)), ("n_dead_ends", sum(1 for v in deg.values() if v == 0))):
        r = lib.outcome(lambda: getattr(g, attr))
        if r[0] != "ok":
            F.append("%s-raises%s: %s %s" % (attr, sfx, r[0], r[1]))
        elif r[1] != val:
            F.append("%s-wrong%s: library %r, records of the text %d" % (attr, sfx, r[1], val))
    if str(g) != text:
        F.append("query-mutates%s: the text changed during the queries" % sfx)
    return F


def _moment(full, k):
    """the graph which the first k lines of the document `full` (parsed with ALL its lines, so that every E line is
    classified with the true segment lengths) describe: its segments are the S lines among them and every name
    which an L, C, E, G or F line among them uses as a segment (gfapy keeps a placeholder segment for it), its
    records the edge lines among them"""
    m = G.Doc()
    m.segs, m.seg_order = {}, []
    edges = []
    for r_ in full.recs[:k]:
        for n in ([r_["name"]] if r_["rt"] == "S" else r_["refs"] if r_["rt"] in "LCEGF" else []):
            if n not in m.segs:
                m.segs[n] = full.segs[n]
                m.seg_order.append(n)
        if "edge" in r_:
            edges.append(r_["edge"])
    m.dovetails = [e for e in edges if e["kind"] == "L"]
    m.containments = [e for e in edges if e["kind"] == "C"]
    m.internals = [e for e in edges if e["kind"] == "I"]
    return m


def _construct(gfapy, case):
    """the Gfa of the case, its lines added one by one -> (Gfa, failures).  At the moments case["ask_at"] (numbers of
    lines added so far) the graph is UNDER CONSTRUCTION: some segments are placeholders, and every query of the
    property is asked and compared with the lines added so far"""
    asks = set(case.get("ask_at") or [])
    if not asks:
        return G.build(case, case.get("vlevel", 1)), []
    full = G.parse(case["lines"], case["version"])
    if not G.closed(full) or full.dup_names or any(e["kind"] is None or not e["valid"] for e in full.edges) \
            or any(r_["rt"] in "POU" for r_ in full.recs):
        asks = set()
    g = gfapy.Gfa(version=case["version"], vlevel=case.get("vlevel", 1))
    for k, l in enumerate(case["lines"], 1):
        g.add_line(l)
        if k in asks and k < len(case["lines"]):
            m = _moment(full, k)
            F = []
            # the classes are classes of THE SEGMENTS OF THE GFA: no segment of Gfa.segments outside all of them
            r = lib.outcome(lambda: (list(g.segments), [x for c in g.connected_components() for x in c]))
            if r[0] == "ok":
                out = sorted(str(x.name) for x in r[1][0] if not any(x is y for y in r[1][1]))
                if out:
                    F.append("components-not-a-partition-of-the-segments-with-placeholders: segment(s) %r of Gfa.segments "
                             "are in no class of connected_components()" % (out,))
            F.extend(_ask(g, m, G.components(m), str(g), len(case["lines"]), True, 0, "-with-placeholders"))
            if F:
                virt = sorted(str(x.name) for x in g.segments if x.virtual)
                return g, ["%s (under construction, after the first %d lines %r; placeholder segments: %r)" % (
                    f, k, case["lines"][:k], virt) for f in F]
    return g, []


def oracle(case):
    gfapy = lib.import_gfapy()
    F = []
    try:
        g, F = _construct(gfapy, case)
    except gfapy.Error:
        return F
    if F:
        return F
    if lib.outcome(g.validate)[0] != "ok":
        return F
    done = []
    for h in case["history"]:
        if h[0] == "query":
            F, d, want, text = _queries(g, case, False, h[1])
            if F:
                return [f if f.startswith("history-leaves") else "%s (query after the steps %r)" % (f, done) for f in F]
            if d is None:
                return F
            continue
        if h[0] in ("rename", "normalise"):
            d0 = _snapshot(g, case)
            r = _rename(g, h)
            if r is None:
                continue
            r, made = r
            if r[0] == "ok" and d0 is not None:
                F = _rename_failures(g, d0, made, h)
                if F:
                    return ["%s (steps before: %r)" % (f, done) for f in F]
        else:
            r = _apply(gfapy, g, case, h)
        if r is None:
            continue
        done.append(h)
        if r[0] == "foreign":
            if h[0] == "op":
                return F          # what the graph operations do, and when they fail, is C14/C15's business
            return ["foreign-exception: %s during history step %r" % (r[1], h)]
    F, d, want, text = _queries(g, case, True)
    if F and case["history"] and not F[0].startswith("history-leaves"):
        F = ["%s (after the steps %r)" % (f, done) for f in F]
    if F or d is None:
        return F
    # ------------------------------------------------------------------ remove_small_components
    if any(s["len"] is None for s in d.segs.values()):
        return F
    minlen = case["minlen"]
    small = [c for c in want if sum(d.segs[n]["len"] for n in c) < minlen]
    doomed = set(n for c in small for n in c)
    r = lib.outcome(g.remove_small_components, minlen)
    if r[0] != "ok":
        return ["remove-small-components-raises-%s: %s (minlen %d)" % (r[1], r[0], minlen)]
    d1 = G.parse(str(g), case["version"])
    if set(d1.segs) != set(d.segs) - doomed:
        F.append("remove-small-components-wrong: minlen %d: expected survivors %r got %r" % (
            minlen, sorted(set(d.segs) - doomed), sorted(d1.segs)))
    T = G.touching(d, doomed) if doomed else set()
    keep = G.multiset(r_["line"] for r_ in d.recs if r_["idx"] not in T)
    have = G.multiset(d1.lines)
    allb = G.multiset(d.lines)
    for l, n in keep.items():
        if have.get(l, 0) < n:
            F.append("bystander-line-changed: %r is not in the result (minlen %d)" % (l, minlen))
    for l, n in have.items():
        if allb.get(l, 0) < n:
            F.append("unexpected-line: %r (minlen %d)" % (l, minlen))
    if any(x in doomed for r_ in d1.recs for x in r_["refs"]):
        F.append("removed-segment-still-mentioned: %r (minlen %d)" % (
            [r_["line"] for r_ in d1.recs if any(x in doomed for x in r_["refs"])], minlen))
    if not F:
        r = lib.outcome(lambda: set(frozenset(names_of(c)) for c in g.connected_components()))
        wantc = set(c for c in want if c not in small)
        if r[0] != "ok" or r[1] != wantc:
            F.append("components-wrong-after-removal: expected %r got %r" % (sorted(map(sorted, wantc)), r[1]))
    F.extend(G.closure_failures(g))
    return F
