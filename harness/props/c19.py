"""C19 — a clone is an equal, detached and fully independent line.

For every record type (virtual lines included; user-defined record types registered with Line.register_extension
whose fields refer to segments and to lines of another extension type, kinds ZA / ZB / ZBv, see register_extensions:
one of them files its lines in a back-reference collection of the segment which another extension has already
declared; custom records - lines of a record type the library does not know, whose positional fields are named
field1, field2, ... per instance - with 2, with 10 and with 25 positional fields, kinds X / X10 / X25: from the tenth
field on the numeric order of the names is not their alphabetical order, and the written form lists the fields in the
order of positional_fieldnames), stand-alone and connected, with tags of all seven datatypes,
levels 0-3, and the three representation states a field can be in when the line is cloned - never read (at level 0 the
delayed-parsing datatypes are then still stored as strings), all fields read (parsed), or (random cases) a random
subset of the non-reference fields re-assigned their own written form as a string (accepted at every level, parsed on
the next read):
  * clone.gfa is None, clone.is_connected() is False, no gfapy.Line is reachable from the clone's fields (references
    are rendered as identifiers: signature clone-references-line; for the extension kinds every declared reference
    field - to a segment, to a line of another extension - is covered, with the lines referred to present or not);
  * str(clone) == str(original) and clone == original and original == clone; a clone whose positional fields come
    out in another order (custom records: every instance, hence also the clone, has its own list of field names) is
    clone-written-form-differs, and the failure text then shows the two lists positional_fieldnames;
  * reading is not an edit: both stay true (both directions of ==) after the fields (all of them in the exhaustive
    cases, a random subset in the random ones) have been read in ONE copy only (the copy is a case parameter), for a
    second clone taken at that moment, after all fields of both copies have been read, and for the second clone which
    was never read (signature clone-not-equal-after-read / clone-written-form-differs-after-read);
  * declared datatypes: a line read at level 0 keeps, for EVERY tag, the datatype letter written in the file, also when
    the tag is a predefined one of its record type and the specification prescribes another datatype (float read / k-mer
    counts KC:f:, RC:f:, LN:f:, NM:f:, TS:f:, ID:A:, UR:J:, VN:A: ...); the library writes such a line back as it was
    read, so the clone must be written in the same way.  The kinds S1d, S2d, Ld, Cd, Ed, Etd, Fd (stand-alone and
    connected) and Hd (stand-alone) carry every predefined tag of their record type with a datatype which is not the
    prescribed one, next to custom tags; they exist at level 0 only (higher levels refuse the text).  All the checks
    above and below apply to them; in addition, for every line, get_datatype(tag) of the clone equals that of the
    original for every tag (signature clone-datatype-differs) - the datatype letter is part of the written form;
  * identity graph: no mutable object (list, dict, CIGAR, Operation, Trace, NumericArray, OrientedLine, LastPos,
    FieldArray) reachable through get() from the clone `is` one reachable from the original;
  * an edit script (append / item assignment / pop on every reachable list, key assignment on every dict, attribute
    assignment on Operation / OrientedLine / LastPos, invert(), FieldArray.append, set / delete / set_datatype on the
    line) applied to one copy never changes str() of the other copy, nor str(gfa) when the clone is the one edited.

NOT CHECKED
  * what an edit does to the copy it is applied to (an edit that raises is simply skipped);
  * the Gfa after editing the ORIGINAL (that is C05's business), reference collections of the original;
  * identity of immutable values (str, int, float, bytes/ByteArray, None) and of the stateless Placeholder objects;
  * clone() of a Gfa (not implemented by the library);
  * values which are not in the library's canonical spelling (e.g. JSON without the spaces json.dumps writes): reading
    such a field re-spells it in the copy which is read (a documented normalisation, C01), so that written form and ==
    of the two copies differ until the other copy is read too; the documents here use the canonical spelling;
  * equality of two clones with each other; what assigning a string does to the line itself (a case in which it
    changes str(line) is dropped);
  * predefined tags with a non-prescribed datatype in situations the library does not accept in the first place: at
    levels >= 1, as the name tag (ID) of a connected link with a non-string value, in the header of a Gfa (a TS:f: header
    line is refused by Gfa.add_line even at level 0, hence Hd is stand-alone only).
"""
from harness import lib
from harness.props import _misc as M

ID = "C19"
RULE = ("exhaustive: 26 kinds of line (H with single and repeated tags, GFA1 S/L/C/P, comment, GFA2 S/E with CIGAR, trace and "
        "placeholder/F/G/O/U/custom record with 2, with 10 and with 25 positional fields (field10 sorts before field2), "
        "virtual segment, virtual link, virtual unknown line, lines of two registered "
        "extension record types with reference fields to segments and to each other - sharing one back-reference "
        "collection of the segment - with resolved and with unresolved references), each with tags of the 7 "
        "datatypes (two B subtypes), stand-alone and connected, levels 0-3, plus 8 kinds (GFA1 S/L/C, GFA2 S/E/E-trace/F, "
        "H stand-alone only) read at level 0 whose predefined tags are declared with a datatype other than the prescribed one "
        "(KC:f, RC:f, LN:f, NM:f, TS:f/J/Z, ID:A, UR:J, SH:Z, VN:A ...), fields read before cloning or not, the whole edit "
        "script applied to the clone / to the original; random: the same matrix with a random sub-sequence of edits in "
        "random order, 60% of the not-read ones with a random subset of fields re-assigned as strings before cloning, a "
        "random subset of fields read in one random copy after cloning. Every case: equality and written form again "
        "after reading one copy only, for a second clone taken then, and after reading both; get_datatype of every tag "
        "is the same in the clone. Non-trivial: the line holds "
        "at least one mutable value (all but comments).")

TAGS = "ti:i:-5\ttf:f:1.5\ttz:Z:a b\tta:A:x\ttj:J:{\"k\": [1, {\"m\": 2}], \"l\": []}\ttb:B:c,-1,2\tth:H:0AF1\ttF:B:f,1.5,2.5"

DOC1 = ["H\tVN:Z:1.0\tzz:i:1\t" + TAGS, "H\tzz:i:2", "H\tzz:i:3",
        "S\tA\tACGT\t" + TAGS, "S\tB\t*\tLN:i:5",
        "L\tA\t+\tB\t-\t2M1I\tID:Z:l1\t" + TAGS,
        "C\tA\t+\tB\t+\t1\t2M\tID:Z:c1\t" + TAGS,
        "P\tp\tA+,B-\t2M1I\t" + TAGS,
        "P\tq\tA+,B-,C+\t*",
        "# a comment"]
DOC2 = ["H\tVN:Z:2.0\tTS:i:10\t" + TAGS,
        "S\tA\t4\tACGT\t" + TAGS, "S\tB\t5\t*",
        "E\te1\tA+\tB-\t2\t4$\t3\t5$\t2M1I\t" + TAGS,
        "E\te2\tA+\tB+\t0\t4$\t0\t5$\t4,2",
        "E\te3\tA-\tB+\t0\t1\t0\t1\t*",
        "F\tA\tr+\t0\t4$\t0\t2$\t1M1D\t" + TAGS,
        "G\tg\tA+\tB+\t10\t3\t" + TAGS,
        "O\to\tA+ e1+ B-\t" + TAGS,
        "U\tu\tA g o zz\t" + TAGS,
        "X\tcust\tf2\t" + TAGS]

# Documents whose predefined tags are declared with a datatype which is NOT the one of the specification (readable at
# level 0 only, where the datatype written in the file is kept for every tag).  Canonical spellings throughout.
CTAGS = "ti:i:-5\ttj:J:{\"k\": [1, {\"m\": 2}]}\tta:A:x"
DOC1D = ["H\tVN:Z:1.0\tzz:i:1", "H\tzz:i:2",
         "S\tA\tACGT\tLN:f:4.0\tRC:f:12.25\tFC:Z:many\tKC:f:2512.5\tSH:Z:0AF1\tUR:J:[\"a.fa\", {\"k\": 1}]\t" + CTAGS,
         "S\tB\t*\tLN:i:5",
         "L\tA\t+\tB\t-\t2M1I\tID:A:x\tMQ:f:1.5\tNM:Z:none\tRC:B:c,-1,2\tFC:J:{\"n\": [1, 2]}\tKC:f:0.5\t" + CTAGS,
         "C\tA\t+\tB\t+\t1\t2M\tID:A:c\tMQ:Z:high\tNM:f:0.0\t" + CTAGS,
         "P\tp\tA+,B-\t2M1I"]
DOC2D = ["H\tVN:Z:2.0\tzz:i:1",
         "S\tA\t4\tACGT\tRC:f:12.25\tFC:A:m\tKC:f:2512.5\tSH:Z:0AF1\tUR:J:{\"file\": \"x.fa\"}\t" + CTAGS, "S\tB\t5\t*",
         "E\te1\tA+\tB-\t2\t4$\t3\t5$\t2M1I\tTS:f:1.5\t" + CTAGS,
         "E\te2\tA+\tB+\t0\t4$\t0\t5$\t4,2\tTS:J:[1, 2]",
         "F\tA\tr+\t0\t4$\t0\t2$\t1M1D\tTS:Z:ten\t" + CTAGS]
HD_TEXT = "H\tVN:A:2\tTS:f:10.5\tzz:i:1\t" + CTAGS

# User-defined record types (Line.register_extension) whose positional fields are references to other lines.  The
# types are registered by register_extensions() when the first case which needs them is built (record types ZA and ZB,
# which no document of another kind contains).
DOC3 = ["H\tVN:Z:2.0",
        "S\tA\t4\tACGT", "S\tB\t5\t*",
        "ZA\tan1\tA\tGN:Z:a gene\t" + TAGS,
        "ZB\trp1\tB\tan1\tSC:i:3\t" + TAGS,
        "ZB\trp2\tQ\tan9\t" + TAGS]

# Custom records (a record type which the library does not know) with many positional fields.  Their names field1,
# field2, ... are kept per instance; from ten fields on, the numeric order of the names (the order of the columns) is
# not the alphabetical one (field1, field10, field11, field2, ...).  Distinct values in every column; record types Y and
# W, which no other document contains.
def custom_text(rt, n):
    return "\t".join([rt] + ["v%d" % i for i in range(1, n + 1)]) + "\t" + TAGS


DOC4 = ["H\tVN:Z:2.0",
        "S\tA\t4\tACGT",
        custom_text("Y", 10),
        custom_text("W", 25)]


def custom_of_type(g, rt):
    return [l for l in g.custom_records if l.record_type == rt][0]


# kind -> (version, text for the stand-alone form or None, finder in the connected form or None)
KINDS = {
    "H": ("gfa1", DOC1[0], lambda g: g.header),
    "S1": ("gfa1", DOC1[3], lambda g: g.segment("A")),
    "L": ("gfa1", DOC1[5], lambda g: [l for l in g.dovetails if not l.virtual][0]),
    "C": ("gfa1", DOC1[6], lambda g: g.containments[0]),
    "P": ("gfa1", DOC1[7], lambda g: g.line("p")),
    "Pstar": ("gfa1", DOC1[8], lambda g: g.line("q")),
    "#": ("gfa1", DOC1[9], lambda g: g.comments[0]),
    "vS1": ("gfa1", None, lambda g: g.segment("C")),
    "vL": ("gfa1", None, lambda g: [l for l in g.dovetails if l.virtual][0]),
    "H2": ("gfa2", DOC2[0], lambda g: g.header),
    "S2": ("gfa2", DOC2[1], lambda g: g.segment("A")),
    "E": ("gfa2", DOC2[3], lambda g: g.line("e1")),
    "Et": ("gfa2", DOC2[4], lambda g: g.line("e2")),
    "Ep": ("gfa2", DOC2[5], lambda g: g.line("e3")),
    "F": ("gfa2", DOC2[6], lambda g: g.fragments[0]),
    "G": ("gfa2", DOC2[7], lambda g: g.line("g")),
    "O": ("gfa2", DOC2[8], lambda g: g.line("o")),
    "U": ("gfa2", DOC2[9], lambda g: g.line("u")),
    "X": ("gfa2", DOC2[10], lambda g: g.custom_records[0]),
    "X10": ("gfa2", DOC4[2], lambda g: custom_of_type(g, "Y")),
    "X25": ("gfa2", DOC4[3], lambda g: custom_of_type(g, "W")),
    "vU": ("gfa2", None, lambda g: g.line("zz")),
    # declared datatypes (level 0 only)
    "S1d": ("gfa1", DOC1D[2], lambda g: g.segment("A")),
    "Ld": ("gfa1", DOC1D[4], lambda g: [l for l in g.dovetails if not l.virtual][0]),
    "Cd": ("gfa1", DOC1D[5], lambda g: g.containments[0]),
    "Hd": ("gfa2", HD_TEXT, None),
    "S2d": ("gfa2", DOC2D[1], lambda g: g.segment("A")),
    "Ed": ("gfa2", DOC2D[3], lambda g: g.line("e1")),
    "Etd": ("gfa2", DOC2D[4], lambda g: g.line("e2")),
    "Fd": ("gfa2", DOC2D[5], lambda g: g.fragments[0]),
    # extension record types with reference fields (ZBv: the lines referred to are not in the Gfa)
    "ZA": ("gfa2", DOC3[3], lambda g: g.line("an1")),
    "ZB": ("gfa2", DOC3[4], lambda g: g.line("rp1")),
    "ZBv": ("gfa2", DOC3[5], lambda g: g.line("rp2")),
}
KIND_LIST = list(KINDS)
DECLARED = {"S1d", "Ld", "Cd", "Hd", "S2d", "Ed", "Etd", "Fd"}
EXTENSION = {"ZA", "ZB", "ZBv"}
MANY_FIELDS = {"X10", "X25"}
EXT_REFERENCES = {"ZA": ("sid",), "ZB": ("sid", "aid"), "ZBv": ("sid", "aid")}      # the declared reference fields


def register_extensions(gfapy):
    """Two user-defined record types, declared the way the library documents (class constants + register_extension):
      ZA  <aid> <sid>         an annotation of a GFA2 segment; the segment collects its annotations in `annotations`
      ZB  <rid> <sid> <aid>   refers to a GFA2 segment, which collects these lines in `annotations` TOO (a collection
                              name which the segment class already knows when ZB is registered), and to a ZA line,
                              which collects them in `repeats`
    Both have a name field, a predefined tag and take any custom tag."""
    if "ZA" in gfapy.Line.EXTENSIONS:
        return
    from collections import OrderedDict

    class C19Annotation(gfapy.Line):
        RECORD_TYPE = "ZA"
        POSFIELDS = OrderedDict([("aid", "identifier_gfa2"), ("sid", "identifier_gfa2")])
        TAGS_DATATYPE = {"GN": "Z"}
        NAME_FIELD = "aid"

    C19Annotation.register_extension(references=[("sid", gfapy.line.segment.GFA2, "annotations")])

    class C19Repeat(gfapy.Line):
        RECORD_TYPE = "ZB"
        POSFIELDS = OrderedDict([("rid", "identifier_gfa2"), ("sid", "identifier_gfa2"), ("aid", "identifier_gfa2")])
        TAGS_DATATYPE = {"SC": "i"}
        NAME_FIELD = "rid"

    C19Repeat.register_extension(references=[("sid", gfapy.line.segment.GFA2, "annotations"),
                                             ("aid", C19Annotation, "repeats")])


def levels_of(kind):
    return (0,) if kind in DECLARED else (0, 1, 2, 3)


def doc_of(kind):
    ver = KINDS[kind][0]
    if kind in EXTENSION:
        return DOC3
    if kind in MANY_FIELDS:
        return DOC4
    if kind in DECLARED:
        return DOC1D if ver == "gfa1" else DOC2D
    return DOC1 if ver == "gfa1" else DOC2


def _plan():
    P = []
    for k in KIND_LIST:
        for connected in (False, True):
            if not connected and KINDS[k][1] is None:
                continue
            if connected and KINDS[k][2] is None:
                continue
            for v in levels_of(k):
                for touch in (False, True):
                    for target in ("clone", "orig"):
                        P.append({"kind": k, "connected": connected, "vlevel": v, "touch": touch, "target": target, "order": None})
    return P


PLAN = _plan()


def n_exhaustive(tier):
    return len(PLAN)


def exhaustive_case(i, tier):
    return dict(PLAN[i])


def budget(tier):
    return 1500 if tier == "quick" else 60000


def gen_case(rng, tier, i):
    c = dict(rng.pick(PLAN))
    c["order"] = rng.randrange(10 ** 9)
    c["keep"] = rng.pick([0.2, 0.5, 1.0])
    # representation state of the fields when the line is cloned, and which copy is read afterwards
    if not c["touch"] and rng.random() < 0.6:
        c["assign"] = rng.randrange(10 ** 9)           # fields re-assigned in their string form before cloning
        c["assign_p"] = rng.pick([0.3, 0.7, 1.0])
    c["read"] = rng.pick(["clone", "orig"])
    c["read_p"] = rng.pick([0.3, 0.7, 1.0, 1.0])
    c["read_seed"] = rng.randrange(10 ** 9)
    return c


def nontrivial(case):
    return case["kind"] != "#"


def read_side(case):
    return case.get("read") or case["target"]


def tags(case):
    return [case["kind"], "connected" if case["connected"] else "standalone", "v%d" % case["vlevel"],
            "touch" if case["touch"] else ("assigned-as-strings" if case.get("assign") is not None else "untouched"),
            "edit-" + case["target"], "read-" + read_side(case)]


def signature(case, failure):
    return failure.split(": ")[0]


# ---------------------------------------------------------------------------------------------------- walking
def is_immutable(gfapy, x):
    return x is None or isinstance(x, (str, int, float, bool, bytes, tuple, gfapy.Placeholder))


def walk(gfapy, line):
    """-> (mutables: list of (path, obj), lines: list of (path, Line)) reachable through the public getters"""
    out, lines = [], []
    seen = set()

    def rec(path, x, depth):
        if depth > 12 or is_immutable(gfapy, x):
            return
        if isinstance(x, gfapy.Line):
            lines.append((path, x))
            return
        if id(x) in seen:
            return
        seen.add(id(x))
        out.append((path, x))
        if isinstance(x, dict):
            for k in list(x.keys()):
                rec("%s[%r]" % (path, k), x[k], depth + 1)
        elif isinstance(x, list):
            for i in range(len(x)):
                rec("%s[%d]" % (path, i), x[i], depth + 1)
        elif isinstance(x, gfapy.OrientedLine):
            rec(path + ".line", x.line, depth + 1)
        elif isinstance(x, gfapy.FieldArray):
            for i, e in enumerate(list(x)):
                rec("%s<%d>" % (path, i), e, depth + 1)
    try:
        names = list(line.positional_fieldnames) + list(line.tagnames)
    except Exception:
        names = []
    for n in names:
        try:
            v = line.get(n)
        except Exception:
            continue
        rec(n, v, 0)
    return out, lines


def fieldnames(line):
    try:
        return list(line.positional_fieldnames) + list(line.tagnames)
    except Exception:
        return []


def tagnames(line):
    try:
        return list(line.tagnames)
    except Exception:
        return []


def read_fields(line, seed=None, p=1.0):
    """read (get) the fields of the line, all of them or a random subset: a read parses, in place, a value which is
    still stored in its string form; it is not an edit"""
    r = lib.Rng(seed) if seed is not None else None
    for n in fieldnames(line):
        if r is not None and r.random() >= p:
            continue
        try:
            line.get(n)
        except Exception:
            pass


def assign_strings(line, seed, p):
    """re-assign fields their own written form, as a string (the library accepts the string form of any field value and
    parses it on the next read); reference fields of a connected line cannot be assigned and are skipped"""
    gfapy = lib.import_gfapy()
    r = lib.Rng(seed)
    refs = set(getattr(line.__class__, "REFERENCE_FIELDS", []) or [])
    for n in fieldnames(line):
        if n in refs or r.random() >= p:
            continue
        try:
            if isinstance(line.get(n), gfapy.FieldArray):
                continue        # a tag repeated over several H lines: its written form is not the string of one field
            line.set(n, line.field_to_s(n))
        except Exception:
            pass


# ---------------------------------------------------------------------------------------------------- edits
def edit_sites(gfapy, line):
    """list of (description, thunk) — every edit we know how to make through public objects of `line`"""
    E = []
    muts, _ = walk(gfapy, line)
    for path, x in muts:
        if isinstance(x, gfapy.CIGAR.Operation):
            E.append(("%s.length+=1" % path, lambda x=x: setattr(x, "length", x.length + 1)))
            E.append(("%s.code flip" % path, lambda x=x: setattr(x, "code", "D" if x.code != "D" else "I")))
        elif isinstance(x, gfapy.OrientedLine):
            E.append(("%s.invert()" % path, lambda x=x: x.invert()))
            E.append(("%s.orient='-'" % path, lambda x=x: setattr(x, "orient", "-" if x.orient == "+" else "+")))
            E.append(("%s.line='Q9'" % path, lambda x=x: setattr(x, "line", "Q9")))
        elif isinstance(x, gfapy.LastPos):
            E.append(("%s.value+=1" % path, lambda x=x: setattr(x, "value", x.value + 1)))
        elif isinstance(x, gfapy.FieldArray):
            E.append(("%s.append" % path, lambda x=x: x.append(77)))
        elif isinstance(x, dict):
            E.append(("%s['zz']=1" % path, lambda x=x: x.__setitem__("zz", 1)))
            if x:
                k = sorted(x.keys(), key=str)[0]
                E.append(("del %s[%r]" % (path, k), lambda x=x, k=k: x.__delitem__(k)))
        elif isinstance(x, list):
            def new_elem(x=x):
                if isinstance(x, gfapy.CIGAR):
                    return gfapy.CIGAR.Operation(1, "M")
                if len(x) == 0:
                    return 7
                e = x[0]
                if isinstance(e, gfapy.OrientedLine):
                    return gfapy.OrientedLine("Q8", "+")
                if isinstance(e, gfapy.CIGAR.Operation):
                    return gfapy.CIGAR.Operation(1, "M")
                if isinstance(e, (gfapy.CIGAR, gfapy.Placeholder)) or (isinstance(e, str) and (e == "*" or e[-1:] in "MIDP")):
                    return gfapy.Alignment("3M", version="gfa1")
                if isinstance(e, bool):
                    return True
                if isinstance(e, int):
                    return 1
                if isinstance(e, float):
                    return 0.5
                if isinstance(e, str):
                    return "Q7"
                if isinstance(e, gfapy.Line):
                    return "Q6"
                return 7
            E.append(("%s.append" % path, lambda x=x, f=new_elem: x.append(f())))
            if len(x) > 0:
                E.append(("%s[0]=new" % path, lambda x=x, f=new_elem: x.__setitem__(0, f())))
                E.append(("%s.pop()" % path, lambda x=x: x.pop()))
    newval = {"i": 99, "f": 9.5, "Z": "zz", "A": "q", "J": {"n": [1]}, "B": [9, 9], "H": gfapy.ByteArray([1, 2])}
    try:
        tn = list(line.tagnames)
    except Exception:
        tn = []
    for t in tn:
        try:
            dt = line.get_datatype(t)
        except Exception:
            continue
        if dt in newval:
            E.append(("set(%r)" % t, lambda t=t, dt=dt: line.set(t, newval[dt])))
    E.append(("set('nw', 5)", lambda: line.set("nw", 5)))
    if tn:
        E.append(("delete(%r)" % tn[0], lambda: line.delete(tn[0])))
        E.append(("set_datatype(%r,'Z')" % tn[-1], lambda: line.set_datatype(tn[-1], "Z")))
    try:
        pf = list(line.positional_fieldnames)
    except Exception:
        pf = []
    posval = {"name": "N1", "sid": "N1", "sequence": "GG", "slen": 17, "from_orient": "-", "to_orient": "+", "pos": 3, "overlap": "7M",
              "path_name": "N2", "eid": "N3", "gid": "N4", "pid": "N5", "beg1": 1, "end1": 2, "beg2": 1, "end2": 2, "alignment": "9M",
              "s_beg": 1, "s_end": 2, "f_beg": 1, "f_end": 2, "disp": 5, "var": 6, "content": "changed", "from_segment": "N6",
              "to_segment": "N7", "sid1": "N6+", "sid2": "N7-", "external": "N8-", "segment_names": "N6+,N7-", "overlaps": "5M",
              "items": "N6+ N7-", "field1": "changed", "aid": "N9", "rid": "N10",
              "field2": "changed2", "field9": "changed9", "field10": "changed10", "field11": "changed11", "field25": "changed25"}
    for f in pf:
        if f in posval:
            E.append(("set(%r)" % f, lambda f=f: line.set(f, posval[f])))
    return E


def safe_str(x):
    try:
        return str(x)
    except Exception as e:  # the written form itself raising is reported by the caller
        return "<<str raised %s>>" % e.__class__.__name__


def build(case):
    gfapy = lib.import_gfapy()
    ver, text, finder = KINDS[case["kind"]]
    if case["kind"] in EXTENSION:
        register_extensions(gfapy)
    if case["connected"]:
        g = gfapy.Gfa(doc_of(case["kind"]), vlevel=case["vlevel"], version=ver)
        return g, finder(g)
    return None, gfapy.Line(text, vlevel=case["vlevel"], version=ver)


def oracle(case):
    gfapy = lib.import_gfapy()
    F = []
    try:
        g, line = build(case)
    except gfapy.Error as e:
        # the documents are valid except for the deliberately undefined references (virtual lines): at level >= 1 the
        # Gfa constructor's final validate() refuses them -> build line by line instead
        try:
            ver = KINDS[case["kind"]][0]
            g = gfapy.Gfa(vlevel=case["vlevel"], version=ver)
            for l in doc_of(case["kind"]):
                g.add_line(l)
            line = KINDS[case["kind"]][2](g)
        except Exception as e2:
            return ["build-failed: %s %s" % (e2.__class__.__name__, case)]
    except Exception as e:
        return ["build-failed: %s@%s %s" % (e.__class__.__name__, M.innermost_gfapy_frame(e), case)]
    if line is None:
        return ["build-failed: line not found %s" % case]
    if case["kind"] in EXTENSION and case["connected"] and case["kind"] != "ZBv":
        # the harness's own premise: the reference fields of the connected original hold the lines referred to
        for fn in EXT_REFERENCES[case["kind"]]:
            if not isinstance(line.get(fn), gfapy.Line):
                return ["build-failed: field %s of the connected %s line is not a reference %s" % (fn, case["kind"], case)]
    what = "%s %s vlevel=%d%s" % (case["kind"], "connected" if case["connected"] else "stand-alone", case["vlevel"],
                                  " fields-read" if case["touch"] else "")
    if case["touch"]:
        walk(gfapy, line)
    elif case.get("assign") is not None:
        s0 = safe_str(line)
        assign_strings(line, case["assign"], case.get("assign_p", 1.0))
        what += " fields-assigned-as-strings"
        if safe_str(line) != s0:
            # assigning a field its own written form changed the line: not this property's business, and the line
            # may no longer be a valid one -> nothing is claimed about this case
            return []
    s_before = safe_str(line)
    try:
        c = line.clone()
    except gfapy.Error as e:
        return ["clone-raises: %s: %s" % (what, e.__class__.__name__)]
    except Exception as e:
        return ["foreign-exception: %s: clone() raised %s@%s" % (what, e.__class__.__name__, M.innermost_gfapy_frame(e))]
    # ---- detached, equal
    try:
        if c.gfa is not None:
            F.append("clone-attached: %s: clone.gfa is %r" % (what, type(c.gfa).__name__))
        if c.is_connected():
            F.append("clone-attached: %s: clone.is_connected()" % what)
    except Exception as e:
        F.append("foreign-exception: %s: gfa/is_connected raised %s" % (what, e.__class__.__name__))
    s_line, s_clone = safe_str(line), safe_str(c)
    if s_line != s_before:
        F.append("clone-changes-original: %s: %r became %r" % (what, s_before, s_line))
    if s_clone.startswith("<<str raised") and not s_line.startswith("<<str raised"):
        F.append("clone-unwritable: %s: str(clone) raises (%s), original is %r" % (what, s_clone, s_line))
    elif s_clone != s_line:
        names = ""
        try:
            if list(c.positional_fieldnames) != list(line.positional_fieldnames):
                names = " (positional_fieldnames: original %r clone %r)" % (list(line.positional_fieldnames), list(c.positional_fieldnames))
        except Exception:
            pass
        F.append("clone-written-form-differs: %s: original %r clone %r%s" % (what, s_line, s_clone, names))
    # ---- the datatype letter of every tag is part of the written form
    for t in tagnames(line):
        try:
            dl, dc = line.get_datatype(t), c.get_datatype(t)
        except Exception as e:
            F.append("foreign-exception: %s: get_datatype(%r) raised %s@%s" % (what, t, e.__class__.__name__, M.innermost_gfapy_frame(e)))
            continue
        if dl != dc:
            F.append("clone-datatype-differs: %s: tag %s has datatype %r in the original, %r in the clone (original %r clone %r)" % (
                what, t, dl, dc, s_line, s_clone))

    def check_equal(sig, stage, x, xname):
        try:
            if not (x == line):
                F.append("%s: %s: %s == original is False %s(%r)" % (sig, what, xname, stage, s_line))
            elif not (line == x):
                F.append("%s: %s: original == %s is False %s(%r)" % (sig, what, xname, stage, s_line))
        except Exception as e:
            F.append("foreign-exception: %s: == raised %s@%s %s" % (what, e.__class__.__name__, M.innermost_gfapy_frame(e), stage))

    def check_written(stage, x, xname):
        a, b = safe_str(line), safe_str(x)
        if a != b:
            F.append("clone-written-form-differs-after-read: %s: %soriginal %r %s %r" % (what, stage, a, xname, b))

    check_equal("clone-not-equal", "", c, "clone")
    # ---- reading is not an edit: the clone stays equal when fields (which may still be stored in their string form
    # in both copies) are read in one copy only, then in both; a clone taken after the read is equal as well
    side = read_side(case)
    stage = "after reading fields of the %s only " % ("clone" if side == "clone" else "original")
    read_fields(c if side == "clone" else line, case.get("read_seed"), case.get("read_p", 1.0))
    check_equal("clone-not-equal-after-read", stage, c, "clone")
    check_written(stage, c, "clone")
    try:
        c2 = line.clone()
    except Exception as e:
        c2 = None
        F.append("clone-raises-after-read: %s: %s%s" % (what, stage, e.__class__.__name__))
    if c2 is not None:
        check_equal("clone-not-equal-after-read", stage + "[second clone, taken now] ", c2, "second clone")
        check_written(stage + "[second clone, taken now] ", c2, "second clone")
    # ---- identity graph
    mo, _lo = walk(gfapy, line)
    mc, lc = walk(gfapy, c)
    check_equal("clone-not-equal-after-read", "after reading all fields of both ", c, "clone")
    if c2 is not None:
        check_equal("clone-not-equal-after-read", "after reading all fields of the original [second clone, not read] ", c2, "second clone")
    for path, l in lc:
        F.append("clone-references-line: %s: clone.%s is a %s line object" % (what, path, l.record_type))
        break
    ids = {id(x): p for p, x in mo}
    for p, x in mc:
        if id(x) in ids:
            F.append("shared-%s: %s: clone.%s is original.%s" % (type(x).__name__, what, p, ids[id(x)]))
    # ---- edit scripts
    s_line, s_clone = safe_str(line), safe_str(c)
    s_g = safe_str(g) if g is not None else None
    target, other = (c, line) if case["target"] == "clone" else (line, c)
    s_other = s_line if case["target"] == "clone" else s_clone
    edits = edit_sites(gfapy, target)
    if case.get("order") is not None:
        r = lib.Rng(case["order"])
        edits = [e for e in edits if r.random() < case.get("keep", 1.0)]
        r.shuffle(edits)
    for desc, thunk in edits:
        try:
            thunk()
        except Exception:
            continue
        now = safe_str(other)
        if now != s_other:
            F.append("edit-leaks: %s: %s on the %s changed the %s from %r to %r" % (
                what, desc, "clone" if target is c else "original", "original" if target is c else "clone", s_other, now))
            s_other = now
        if target is c and g is not None:
            gn = safe_str(g)
            if gn != s_g:
                F.append("edit-leaks-to-gfa: %s: %s on the clone changed the Gfa" % (what, desc))
                s_g = gn
    seen = set(); out = []
    for f in F:
        k = f.split(": ")[0] + "|" + case["kind"]
        if k not in seen:
            seen.add(k); out.append(f)
    return out
