"""Shared helpers of the C04/C06/C07/C10/C19/C20 oracles.

* an INDEPENDENT recogniser of the GFA1/GFA2 grammar (written from the GFA1/GFA2 specifications, the
  tables of /repo/doc/tutorial and the wording of property C04) -- three-valued: True (conforms),
  False (does not conform; with the broken rule's name), None (the specifications are debatable here:
  callers must not use the verdict);
* traceback classification for "foreign" exceptions (C07);
* a per-call alarm;
* canonicalisation of delayed-parsing tags for the `lazy-spelling` rule (C10).

Nothing here imports gfapy at module level and nothing here looks at gfapy's private state.
"""
import re, json, signal, traceback, os
from harness import lib as _lib

# ----------------------------------------------------------------------------------------------------
# 1. grammar
# ----------------------------------------------------------------------------------------------------
RE_INT = re.compile(r"[-+]?[0-9]+\Z")
RE_FLOAT = re.compile(r"[-+]?[0-9]*\.?[0-9]+([eE][-+]?[0-9]+)?\Z")
RE_Z = re.compile(r"[ !-~]+\Z")
RE_A = re.compile(r"[!-~]\Z")
RE_H = re.compile(r"([0-9A-F][0-9A-F])+\Z")
RE_TAGNAME = re.compile(r"[A-Za-z][A-Za-z0-9]\Z")
RE_NAME1 = re.compile(r"[!-)+-<>-~][!-~]*\Z")
RE_SEQ1 = re.compile(r"(\*|[A-Za-z=.]+)\Z")
RE_CIGAR1 = re.compile(r"([0-9]+[MIDNSHPX=])+\Z")
RE_CIGAR2 = re.compile(r"([0-9]+[MIDP])+\Z")
RE_UINT = re.compile(r"[0-9]+\Z")
RE_ID2 = re.compile(r"[!-~]+\Z")
RE_REF2 = re.compile(r"[!-~]+[+-]\Z")
RE_POS2 = re.compile(r"[0-9]+\$?\Z")
RE_PRINT = re.compile(r"[ -~]*\Z")

B_RANGE = {"c": (-2 ** 7, 2 ** 7 - 1), "C": (0, 2 ** 8 - 1), "s": (-2 ** 15, 2 ** 15 - 1), "S": (0, 2 ** 16 - 1),
           "i": (-2 ** 31, 2 ** 31 - 1), "I": (0, 2 ** 32 - 1)}

TAG_DATATYPES = "AifZJHB"

# predefined tags (name -> datatype) per (version, record type); tables of doc/tutorial/tags.rst and of the
# GFA1/GFA2 specifications
PREDEFINED = {
    ("gfa1", "H"): {"VN": "Z"},
    ("gfa1", "S"): {"LN": "i", "RC": "i", "FC": "i", "KC": "i", "SH": "H", "UR": "Z"},
    ("gfa1", "L"): {"MQ": "i", "NM": "i", "RC": "i", "FC": "i", "KC": "i", "ID": "Z"},
    ("gfa1", "C"): {"RC": "i", "NM": "i", "ID": "Z"},
    ("gfa1", "P"): {},
    ("gfa2", "H"): {"VN": "Z", "TS": "i"},
    ("gfa2", "E"): {"TS": "i"},
    ("gfa2", "F"): {"TS": "i"},
}
# predefined tags on which the specification and gfapy's documentation table differ: no verdict
PREDEFINED_DEBATABLE = {
    ("gfa1", "C"): {"RC", "MQ"},          # spec: RC NM ID; doc table: RC on S,L,C; library: MQ NM ID
    ("gfa1", "H"): {"TS"},                 # library's header table is version independent
    ("gfa2", "S"): {"RC", "FC", "KC", "SH", "UR", "TS", "LN"},   # GFA2 predefines none on S; doc table lists TS for S
    ("gfa2", "F"): {"VN"},
}

ARITY = {("gfa1", "H"): 0, ("gfa1", "S"): 2, ("gfa1", "L"): 5, ("gfa1", "C"): 6, ("gfa1", "P"): 3,
         ("gfa2", "H"): 0, ("gfa2", "S"): 3, ("gfa2", "E"): 8, ("gfa2", "F"): 7, ("gfa2", "G"): 5,
         ("gfa2", "O"): 2, ("gfa2", "U"): 2}


class Verdict:
    """accumulates broken rules (bad) and debatable points (unk)"""
    def __init__(self):
        self.bad = []
        self.unk = []

    def no(self, rule):
        self.bad.append(rule)

    def maybe(self, rule):
        self.unk.append(rule)

    def value(self):
        if self.bad:
            return False
        if self.unk:
            return None
        return True

    def reason(self):
        return (self.bad or self.unk or ["ok"])[0]


def json_ok(s):
    """True: printable JSON array/object; None: debatable (scalar, NaN/Infinity literals); False otherwise."""
    if not s or not RE_Z.match(s):
        return False
    deb = []

    def const(c):
        deb.append(c)
        return 0.0
    try:
        v = json.loads(s, parse_constant=const)
    except RecursionError:
        return None
    except Exception:
        return False
    if deb:
        return None
    if not isinstance(v, (list, dict)):
        return None
    return True


def tag_value(dt, s):
    """Three-valued: does `s` conform to the grammar of tag datatype `dt`?"""
    if s == "":
        return None                       # SAM/GFA1 demand a non-empty value, GFA2 writes [ -~]*: debatable
    if dt == "A":
        return bool(RE_A.match(s))
    if dt == "i":
        return bool(RE_INT.match(s))
    if dt == "f":
        return bool(RE_FLOAT.match(s))
    if dt == "Z":
        return bool(RE_Z.match(s))
    if dt == "J":
        return json_ok(s)
    if dt == "H":
        return bool(RE_H.match(s))
    if dt == "B":
        parts = s.split(",")
        st = parts[0]
        if st not in ("c", "C", "s", "S", "i", "I", "f") or len(parts) < 2:
            return False
        unk = False
        for e in parts[1:]:
            if st == "f":
                if not RE_FLOAT.match(e):
                    return False
            else:
                if not RE_INT.match(e):
                    return False
                v = int(e)
                lo, hi = B_RANGE[st]
                if not (lo <= v <= hi):
                    return False
                if st in "CSI" and e[0] == "-":
                    unk = True            # "-0" in an unsigned array: SAM's regex allows the sign, gfapy's own does not
        return None if unk else True
    return False


def split_tag(t):
    """-> (name, datatype, value) or None if `t` has not the shape NN:T:VALUE at all"""
    if len(t) < 5 or t[2] != ":" or t[4] != ":":
        return None
    return t[:2], t[3], t[5:]


def check_tags(V, tags, version, rt):
    seen = set()
    pre = PREDEFINED.get((version, rt), {})
    deb = PREDEFINED_DEBATABLE.get((version, rt), set())
    for t in tags:
        p = split_tag(t)
        if p is None:
            V.no("tag.shape")
            continue
        n, dt, val = p
        if not RE_TAGNAME.match(n):
            V.no("tag.name")
        if dt not in TAG_DATATYPES:
            V.no("tag.datatype")
            continue
        if n in seen:
            V.no("tag.dup")
        seen.add(n)
        if n in deb:
            V.maybe("tag.predef-debatable")
        elif n in pre and pre[n] != dt:
            V.no("tag.predef-type")
        r = tag_value(dt, val)
        if r is False:
            V.no("tag." + dt)
        elif r is None:
            V.maybe("tag." + dt + "?")
    return seen


def name1_ok(s):
    return bool(RE_NAME1.match(s)) and not re.search(r"[+-],", s)


def aln1(V, s, rule="cigar1"):
    if s != "*" and not RE_CIGAR1.match(s):
        V.no(rule)


def aln2(V, s):
    if s == "*" or RE_CIGAR2.match(s):
        return
    if re.match(r"-?[0-9]+(,-?[0-9]+)*\Z", s):
        if "," not in s or "-" in s:
            V.maybe("trace?")            # one-element and negative traces: grammar says yes, documentation is silent
        return
    V.no("aln2")


def int2(V, s, rule):
    if re.match(r"-?[0-9]+\Z", s):
        return
    if re.match(r"\+[0-9]+\Z", s):
        V.maybe(rule + "+?")              # GFA2 <int> has no plus sign, gfapy documents the field as an integer
        return
    V.no(rule)


def posval(s):
    return int(s.rstrip("$"))


def line_verdict(fields, version):
    """Grammar verdict of one line (list of tab-separated fields) in `version` ('gfa1'|'gfa2').
    -> (True|False|None, rule)"""
    V = Verdict()
    if not fields or fields[0] == "":
        return None, "empty-line"
    rt = fields[0]
    if rt.startswith("#"):
        return (True, "ok") if all("\n" not in f and "\r" not in f for f in fields) else (None, "comment.newline")
    key = (version, rt)
    if key not in ARITY:
        if version == "gfa1":
            if rt in ("E", "F", "G", "O", "U"):
                return False, "rt.version"
            if rt == "W":
                return None, "rt.walk"
            return False, "rt.unknown"
        # GFA2: any other record type is a custom record
        if rt in ("L", "C", "P"):
            return None, "rt.gfa1-in-gfa2"
        if re.match(r"[A-Za-z]\Z", rt) and all(re.match(r"[ -~]*\Z", f) for f in fields[1:]):
            return None, "custom"       # content of custom records is not specified: never judged
        return None, "custom?"
    n = ARITY[key]
    if len(fields) - 1 < n:
        return False, "arity"
    pos = fields[1:1 + n]
    tags = fields[1 + n:]
    if any(f == "" for f in pos):
        V.maybe("empty-field")          # "positional fields can never be empty" (doc) vs regexes that allow it: not judged
    tagnames = check_tags(V, tags, version, rt)
    if version == "gfa1":
        if rt == "H":
            pass                          # VN is judged at document level only (doc_verdict)
        elif rt == "S":
            if not name1_ok(pos[0]):
                V.no("name1")
            if not RE_SEQ1.match(pos[1]):
                V.no("seq1")
            elif pos[1] != "*":
                for t in tags:
                    if t.startswith("LN:i:") and RE_INT.match(t[5:]) and int(t[5:]) != len(pos[1]):
                        V.no("LN")
            for t in tags:
                if t.startswith("LN:i:") and RE_INT.match(t[5:]) and int(t[5:]) < 0:
                    V.maybe("LN<0")
        elif rt in ("L", "C"):
            if not name1_ok(pos[0]) or not name1_ok(pos[2]):
                V.no("name1")
            if pos[1] not in ("+", "-") or pos[3] not in ("+", "-"):
                V.no("orient")
            if rt == "C":
                if not RE_UINT.match(pos[4]):
                    V.no("pos1")
                aln1(V, pos[5])
            else:
                aln1(V, pos[4])
        elif rt == "P":
            if not RE_NAME1.match(pos[0]):
                V.no("name1")
            els = pos[1].split(",")
            lenient = all(len(e) >= 2 and e[-1] in "+-" for e in els) and bool(re.match(r"[!-~]+\Z", pos[1]))
            strict = lenient and all(name1_ok(e[:-1]) for e in els)
            if not lenient:
                V.no("path.names")
            elif not strict:
                V.maybe("path.names?")
            ov = pos[2].split(",")
            for o in ov:
                aln1(V, o, "path.overlaps")
            if pos[2] != "*" and lenient and len(ov) not in (len(els) - 1, len(els)):
                V.no("path.count")
    else:
        if rt == "H":
            pass
        elif rt == "S":
            # `<opt_id> <- <id> | *` only says something if `*` alone is not an <id>: where an identifier is
            # required the placeholder is not one (a segment named `*` could be neither found nor referred to)
            if not RE_ID2.match(pos[0]) or pos[0] == "*":
                V.no("id2")
            int2(V, pos[1], "slen")
            if re.match(r"-[0-9]+\Z", pos[1]):
                V.maybe("slen<0")
            if not (pos[2] == "*" or RE_ID2.match(pos[2])):
                V.no("seq2")
        elif rt in ("E", "F"):
            if rt == "E":
                if not RE_ID2.match(pos[0]):
                    V.no("id2")
                if not RE_REF2.match(pos[1]) or not RE_REF2.match(pos[2]):
                    V.no("ref2")
                P = pos[3:7]; al = pos[7]
            else:
                if not RE_ID2.match(pos[0]) or pos[0] == "*":
                    V.no("id2")
                if not RE_REF2.match(pos[1]):
                    V.no("ref2")
                P = pos[2:6]; al = pos[6]
            okp = [bool(RE_POS2.match(p)) for p in P]
            if not all(okp):
                V.no("pos2")
            for b, e in ((0, 1), (2, 3)):
                if okp[b] and okp[e]:
                    if posval(P[b]) > posval(P[e]):
                        V.no("beg>end")
                    elif P[b].endswith("$") and not P[e].endswith("$"):
                        # begin is the last position, so end (>= begin) is too and must carry the $ as well:
                        # decidable only with the segment; at line level no verdict
                        V.maybe("dollar-beg-only")
                    elif P[b].endswith("$") and P[e].endswith("$") and posval(P[b]) != posval(P[e]):
                        V.maybe("two-last-positions")
            aln2(V, al)
        elif rt == "G":
            if not RE_ID2.match(pos[0]):
                V.no("id2")
            if not RE_REF2.match(pos[1]) or not RE_REF2.match(pos[2]):
                V.no("ref2")
            int2(V, pos[3], "disp")
            if pos[4] != "*":
                int2(V, pos[4], "var")
                if re.match(r"-[0-9]+\Z", pos[4]):
                    V.maybe("var<0")
        elif rt == "O":
            if not RE_ID2.match(pos[0]):
                V.no("id2")
            if not re.match(r"[!-~]+[+-]( [!-~]+[+-])*\Z", pos[1]):
                V.no("items.O")
        elif rt == "U":
            if not RE_ID2.match(pos[0]):
                V.no("id2")
            if not re.match(r"[!-~]+( [!-~]+)*\Z", pos[1]):
                V.no("items.U")
    return V.value(), V.reason()


def line_verdict_any(fields, version):
    """version None: conforming to either version is conforming."""
    if version is not None:
        return line_verdict(fields, version)
    a, ra = line_verdict(fields, "gfa1")
    b, rb = line_verdict(fields, "gfa2")
    if fields and fields[0] == "S" and len(fields) >= 4 and re.match(r"..:.:", fields[3]) and a is not True \
            and b is not False:
        return None, "S-version-ambiguous"   # `S A 4 xx:i:1`: GFA2 segment with that sequence, or GFA1 with a bad one
    return either(fields[0] if fields else "", a, ra, b, rb)


def either(rt, a, ra, b, rb):
    if a is True or b is True:
        return True, "ok"
    if a is None or b is None:
        return None, ra if a is None else rb
    if ("gfa1", rt) in ARITY and ("gfa2", rt) not in ARITY:
        return False, ra
    if ("gfa2", rt) in ARITY and ("gfa1", rt) not in ARITY:
        return False, rb
    if rt == "S":
        return False, ra if rb == "arity" else (rb if ra in ("seq1", "tag.shape") else ra)
    return False, ra if ra == rb else "%s|%s" % (ra, rb)


# ---------------------------------------------------------------------------------------------------- documents
def cigar_complement(c):
    if c == "*" or not RE_CIGAR1.match(c):
        return c
    flip = {"I": "D", "D": "I", "S": "D", "N": "I"}
    ops = re.findall(r"([0-9]+)([MIDNSHPX=])", c)
    return "".join("%d%s" % (int(n), flip.get(k, k)) for n, k in reversed(ops))


def doc_verdict(text_lines, version, dialect="standard"):
    """Grammar verdict of a document (list of lines, no newline characters) in `version`.
    Adds the document-level rules: versions not mixed, every referenced identifier defined, `$` only on a
    segment's last position, rGFA restrictions.  -> (True|False|None, rule)"""
    V = Verdict()
    recs = []
    for ln in text_lines:
        if ln == "":
            return None, "empty-line"
        f = ln.split("\t")
        v, r = line_verdict(f, version)
        if v is False:
            V.no(r)
        elif v is None:
            V.maybe(r)
        recs.append(f)
    if V.bad:
        return False, V.bad[0]
    if V.unk:
        return None, V.unk[0]
    for f in recs:
        if f[0] == "H":
            for t in f[1:]:
                if t.startswith("VN:Z:"):
                    if t[5:] == {"gfa1": "2.0", "gfa2": "1.0"}[version]:
                        V.no("VN")
                    elif t[5:] not in ("1.0", "2.0"):
                        V.maybe("VN?")       # 1.1, 1.2 ... exist; which numbers a reader must know is not grammar
    if V.bad:
        return False, V.bad[0]
    # ---- identifiers
    names = {}
    dup = False
    segs = {}
    for f in recs:
        rt = f[0]
        nm = None
        if rt == "S":
            nm = f[1]
        elif rt == "P":
            nm = f[1]
        elif rt in "EGOU" and version == "gfa2" and f[1] != "*":
            nm = f[1]
        elif rt in "LC" and version == "gfa1":
            for t in f[ARITY[(version, rt)] + 1:]:
                if t.startswith("ID:Z:"):
                    nm = t[5:]
        if nm is not None:
            if nm in names:
                dup = True
            names[nm] = rt
        if rt == "S":
            segs[f[1]] = f
    if dup:
        return None, "duplicate-identifier"      # uniqueness is C09's business
    # duplicated unnamed records (same link twice...) are C12/C09 business too
    body = ["\t".join(f) for f in recs if f[0] in ("L", "C", "E", "G", "F", "O", "U")]
    if len(set(body)) != len(body):
        return None, "duplicate-line"

    def seg(n):
        if n not in segs:
            V.no("undef-ref")
            return None
        return segs[n]
    links = {}
    if version == "gfa1":
        for f in recs:
            if f[0] in "LC":
                seg(f[1]); seg(f[3])
                if f[0] == "L":
                    inv = {"+": "-", "-": "+"}
                    links[(f[1], f[2], f[3], f[4])] = f[5]
                    links[(f[3], inv[f[4]], f[1], inv[f[2]])] = cigar_complement(f[5])
        lk = [f for f in recs if f[0] == "L"]
        pairs = [(f[1], f[2], f[3], f[4]) for f in lk]
        inv = {"+": "-", "-": "+"}
        canon = [min(p, (p[2], inv[p[3]], p[0], inv[p[1]])) for p in pairs]
        if len(set(canon)) != len(canon):
            return None, "parallel-links"
        for f in recs:
            if f[0] == "P":
                els = f[2].split(",")
                for e in els:
                    seg(e[:-1])
                ov = f[3].split(",")
                steps = list(zip(els, els[1:]))
                if f[3] != "*" and len(ov) == len(els):
                    steps.append((els[-1], els[0]))
                for k, (a, b) in enumerate(steps):
                    key = (a[:-1], a[-1], b[:-1], b[-1])
                    if key not in links:
                        V.maybe("path-without-link")     # GFA1 does not say a path needs its links written
                    elif f[3] != "*" and k < len(ov) and ov[k] != "*" and canon_cigar(ov[k]) != canon_cigar(links[key]):
                        V.maybe("path-overlap-differs-from-link")
    else:
        for f in recs:
            rt = f[0]
            if rt in "EG":
                for r_ in (f[2], f[3]):
                    seg(r_[:-1])
            if rt == "E":
                for r_, b, e in ((f[2], f[4], f[5]), (f[3], f[6], f[7])):
                    s = segs.get(r_[:-1])
                    if s is not None and re.match(r"[0-9]+\Z", s[2]):
                        dollar_rule(V, int(s[2]), s, b, e)
            if rt == "F":
                s = seg(f[1])
                if s is not None and re.match(r"[0-9]+\Z", s[2]):
                    dollar_rule(V, int(s[2]), s, f[3], f[4])
            if rt in "OU" and f[1] != "*" and any((it[:-1] if rt == "O" else it) == f[1] for it in f[2].split(" ")):
                V.maybe("group-lists-itself")       # the grammar does not say; the library refuses it (NotUniqueError)
            if rt == "O":
                for it in f[2].split(" "):
                    if it[:-1] not in names:
                        V.no("undef-ref")
                    elif names[it[:-1]] not in ("S", "E", "O"):
                        V.maybe("O-item-kind")
            if rt == "U":
                for it in f[2].split(" "):
                    if it not in names:
                        V.no("undef-ref")
    if dialect == "rgfa":
        if version != "gfa1":
            V.no("rgfa.version")
        for f in recs:
            rt = f[0]
            if rt in ("H", "C", "P"):
                V.no("rgfa.line")
            if rt == "S":
                tg = {t[:2]: t[3] for t in f[3:] if split_tag(t)}
                for n, d in (("SN", "Z"), ("SO", "i"), ("SR", "i")):
                    if n not in tg:
                        V.no("rgfa.tag-missing")
                    elif tg[n] != d:
                        V.no("rgfa.tag-type")
            if rt == "L":
                tg = {t[:2]: t[3] for t in f[6:] if split_tag(t)}
                for n in ("SR", "L1", "L2"):
                    if n in tg and tg[n] != "i":
                        V.no("rgfa.tag-type")
                if not re.match(r"0+M\Z", f[5]):
                    V.no("rgfa.overlap")
    return V.value(), V.reason()


def dollar_rule(V, slen, s, b, e):
    """`$` only on the segment's last position (the property's wording).  Anything else about positions
    (a last position written without `$`, positions beyond the segment's end, a sequence whose length
    differs from slen) is not judged."""
    seq = s[3]
    if seq != "*" and len(seq) != slen:
        V.maybe("slen!=len(sequence)")
        return
    for p in (b, e):
        v = posval(p)
        if p.endswith("$") and v != slen:
            # with the sequence written the library looks at it; with `*` only slen says where the end is
            V.no("dollar" if seq != "*" else "dollar-slen")
        elif v > slen:
            V.maybe("pos>slen")
        elif v == slen and not p.endswith("$"):
            V.maybe("last-without-dollar")


# ----------------------------------------------------------------------------------------------------
# 2. foreign exceptions (C07)
# ----------------------------------------------------------------------------------------------------
def innermost_gfapy_frame(exc, repo=None):
    repo = repo or _lib.REPO
    """'<path below gfapy/>:<function>' of the innermost traceback frame that lies in gfapy's source."""
    best = None
    tb = exc.__traceback__
    root = os.path.join(os.path.abspath(repo), "gfapy") + os.sep
    n = 0
    while tb is not None and n < 100000:
        fn = tb.tb_frame.f_code.co_filename
        if os.path.abspath(fn).startswith(root):
            best = "%s:%s" % (os.path.abspath(fn)[len(root):], tb.tb_frame.f_code.co_name)
        tb = tb.tb_next
        n += 1
    return best or "?"


def recursion_cycle_frame(exc, repo=None):
    repo = repo or _lib.REPO
    """for a RecursionError: a stable representative of the recursion cycle -- the lexicographically smallest
    '<file>:<function>' among the gfapy frames that occur at least half as often as the most frequent one"""
    import collections
    root = os.path.join(os.path.abspath(repo), "gfapy") + os.sep
    cnt = collections.Counter()
    tb = exc.__traceback__
    n = 0
    while tb is not None and n < 100000:
        fn = os.path.abspath(tb.tb_frame.f_code.co_filename)
        if fn.startswith(root):
            cnt["%s:%s" % (fn[len(root):], tb.tb_frame.f_code.co_name)] += 1
        tb = tb.tb_next
        n += 1
    if not cnt:
        return "?"
    top = max(cnt.values())
    return min(k for k, v in cnt.items() if v * 2 >= top)


class Hang(BaseException):
    pass


def _on_alarm(signum, frame):
    raise Hang()


def with_alarm(seconds, fn, *a, **k):
    """run fn(*a, **k) under a wall-clock limit; raises Hang on expiry (main thread only)."""
    try:
        old = signal.signal(signal.SIGALRM, _on_alarm)
    except ValueError:           # not in the main thread: run without a limit
        return fn(*a, **k)
    signal.alarm(seconds)
    try:
        return fn(*a, **k)
    finally:
        signal.alarm(0)
        signal.signal(signal.SIGALRM, old)


# ----------------------------------------------------------------------------------------------------
# 3. canonical spelling of delayed-parsing tags (rule `lazy-spelling`, DESIGN §7 #30)
# ----------------------------------------------------------------------------------------------------
def canon_tag_value(dt, val):
    try:
        if dt == "J":
            return json.dumps(json.loads(val))
        if dt == "H":
            return val.upper()
        if dt == "B":
            parts = val.split(",")
            st = parts[0]
            if st == "f":
                return "f," + ",".join(str(float(e)) for e in parts[1:])
            vals = [int(e) for e in parts[1:]]
            if min(vals) < 0:
                for c in "csi":
                    if B_RANGE[c][0] <= min(vals) and max(vals) <= B_RANGE[c][1]:
                        return c + "," + ",".join(map(str, vals))
            else:
                for c in "CSI":
                    if max(vals) <= B_RANGE[c][1]:
                        return c + "," + ",".join(map(str, vals))
    except Exception:
        pass
    return val


def canon_cigar(s):
    if re.match(r"([0-9]+[MIDNSHPX=])+\Z", s):
        return "".join("%d%s" % (int(n), c) for n, c in re.findall(r"([0-9]+)([MIDNSHPX=])", s))
    if re.match(r"[0-9]+(,[0-9]+)+\Z", s):
        return ",".join(str(int(x)) for x in s.split(","))
    return s


def canon_line(text):
    """line text with every delayed-parsing field (B/J/H tags, alignment fields) in canonical spelling"""
    f = text.split("\t")
    out = []
    for i, x in enumerate(f):
        p = split_tag(x)
        if i > 0 and p is not None and RE_TAGNAME.match(p[0]) and p[1] in "BJH":
            out.append("%s:%s:%s" % (p[0], p[1], canon_tag_value(p[1], p[2])))
        elif i > 0 and p is None:
            out.append(canon_cigar(x) if canon_cigar(x) != x else ",".join(canon_cigar(c) for c in x.split(",")))
        else:
            out.append(x)
    return "\t".join(out)


def canon_text(text):
    return "\n".join(canon_line(l) for l in text.split("\n"))
