"""C10 — read-only operations never modify anything.

A catalogue of read-only calls (enumerated from the public API: Gfa, every Line subclass, alignments, positions,
oriented lines, segment ends, numeric/field arrays) is applied to states built from valid documents, either as a
full sweep (every entry on every line) or as a random sequence.  The states include GFA2 groups of every shape the
resolution code distinguishes: O groups that are walks over the edges with each edge listed in its own direction
(`e+`) or backwards (`e-`), as first or later item, with segments and edges elided, read from either end, nested
through `p+`/`p-` and extended on both sides, perturbed into non-contiguous lists; U groups over segments, edges,
paths, sets (also one defined later), gaps and undefined names (one fixed document of the sweep and the random
GFA2 documents); GFA1 paths that are linear, of a single segment and circular (as many overlaps as segments, the
last link leading back to the first segment: one path of the sweep, 30% of the random GFA1 documents); documents of
the rGFA dialect (one fixed document of the sweep, one random case in twelve: links with none, some or all of the
optional SR/L1/L2 tags, 22% perturbed into documents the rGFA validation refuses).
In a random sequence one call in four first picks a catalogue family (Gfa, record type) and then
an entry, so that the few entries of the group lines are exercised as often as the many entries of the segments; one
call in four first picks a clause of the property (validation, cloning, comparison, complement and alignment,
resolution, search, topology, conversion, reads), then one of the distinct entries of that clause, then the line or
object it is applied to (Gfa.validate is then asked as often as the validation of some field of some line).
Around every call a deep textual snapshot is
taken: str(gfa), str of every line (virtual ones too), repr of every argument that is kept between calls (the
criteria dictionaries of `Gfa.select(same dict)`), str/repr of every value object (alignment, position, oriented
line, array) returned so far, and the class-level table Gfa.RGFA_TAGS (which decides the answers of the validation of
every rGFA Gfa of the process).  Every call is made twice: the two answers must render equal.

Searches are asked with fresh criteria (`Gfa.select(dict)`) and with the same criteria object again and again
(`Gfa.select(same dict)`: the name of a line that is there / is not there, with and without further criteria): the
criteria must stay what they were and the answer the same.

Operations documented to hand out a NEW object -- Line.clone ("this allows to edit the line before adding it"),
Link.complement, CIGAR.complement -- are followed, in entries of their own, by an edit of that result: every tag
deleted (and a new one set), every tag given another datatype, every value edited in place (lengths and codes of
CIGAR operations, elements of arrays and JSON lists, keys of JSON objects, orientations of oriented names).  What
the edit does to the result is not judged (errors are swallowed); the line the copy was taken from, the Gfa and
every alignment handed out earlier must be what they were, and the same call must answer the same again.

The one known intentional change (DESIGN §7 #30): at level 0 the first read of a delayed-parsing field (B/J/H tag,
alignment) switches its written spelling to the canonical one.  It is reported under the exact signature
`lazy-spelling`, and only when the two texts are equal after canonicalising such fields; every other change has
the signature `mutation[<catalogue entry>]`.  A second open finding shows on the unchanged tree (KNOWN_FINDINGS
`to_gfa2-assigns-id`): to_gfa2 / to_gfa2_s of a GFA1 link or containment without ID tag stores the generated ID in the
source line, signatures `mutation|answer-changes[(Gfa|L|C|P).to_gfa2(_s)]`.  A change made by one of these
conversions that is NOT explained by that finding (the lines are, up to `ID:Z:<n>` tags and their order, not the
lines they were; anything but the lines and the set of names changed) has the signature
`mutation[<entry>, beyond assigning IDs]` -- the conversion of a path resolves it, and a resolution that alters
the path would otherwise hide behind the open finding.

NOT CHECKED
  * Gfa.unused_name (documented to hand out a fresh name every time), Link.canonicize / make_complement and the
    other documented mutators, to_file, info (empty), enable_progress_logging;
  * whether the answers are *right* (C11, C12, C16, C17...), only that they are stable and leave no trace;
  * object identity of returned collections, ordering between two different processes;
  * in-place edits of objects that ARE the field of a line (the value returned by get / a field property): only the
    results of clone / complement are edited;
  * memory/caches that do not show in any written form or answer; class-level tables other than Gfa.RGFA_TAGS.  A
    table the library corrupts stays corrupted for the rest of the process: only the first case that sees the change
    reports it (a replay of that case in a new process reports it again).
"""
import ast
import re

from harness import lib
from harness.props import _misc as M

ID = "C10"
RULE = ("sweep: 8 fixed documents (GFA1 and GFA2, canonical and non-canonical spellings of B/J/H tags and CIGARs, virtual "
        "lines, linear, single-segment and circular GFA1 paths, O/U groups with edges listed forwards and backwards, elided items, nested +/- paths, nested sets, "
        "one rGFA document loaded with dialect rgfa) x levels 0-3, every catalogue entry on every line it applies to, in catalogue order; random: random valid "
        "GFA1/GFA2 graphs (2-4 segments from a 4-name pool, parallel and self edges, asymmetric CIGARs, containments, paths (30% of the GFA1 graphs with a circular one), "
        "gaps, fragments, 0-3 O groups (random walks over the edges taken in either direction, elision, either reading end, "
        "nesting with +/-, 18% perturbed) and 0-2 U groups (segments, edges, paths, sets, gap, undefined names), custom records, "
        "tags of all datatypes), 1 case in 12 an rGFA graph (dialect rgfa, 22% refused by the rGFA validation), 1 in 12 lines queued in a Gfa of unknown version, "
        "x 40 (quick) random catalogue calls, a quarter of them on previously returned alignment/position "
        "objects, a quarter chosen family-first and a quarter clause-first.  The catalogue asks searches with the same criteria object twice and edits "
        "the results of clone / Link.complement / CIGAR.complement (tags deleted, retyped, values edited in place): the original must not change.  "
        "Non-trivial: at least 10 calls were made on a state with an edge.")

TAGS_CANON = "ti:i:-5\ttf:f:1.5\ttz:Z:a b\tta:A:x\ttj:J:{\"k\": [1, {\"m\": 2}]}\ttb:B:c,-1,2\tth:H:0AF1"
TAGS_RAW = "ti:i:-5\ttf:f:1.50\ttz:Z:a b\tta:A:x\ttj:J:{\"k\":[1,{\"m\":2}]}\ttb:B:i,-1,2\tth:H:0AF1\ttc:B:f,1.50,2"

FIXED = [
    ("gfa1", ["H\tVN:Z:1.0\tzz:i:1", "H\tzz:i:2", "S\tA\tACGTAC\t" + TAGS_CANON, "S\tB\t*\tLN:i:5\tRC:i:10", "S\tC\tACG",
              "L\tA\t+\tB\t-\t2M1I\tID:Z:l1\t" + TAGS_CANON, "L\tB\t-\tC\t+\t1M1D1M", "L\tC\t+\tA\t+\t*", "L\tA\t-\tA\t-\t2M",
              "C\tA\t+\tC\t+\t1\t2M1I\tID:Z:c1", "P\tp\tA+,B-,C+\t2M1I,1M1D1M", "P\tq\tA+,B-\t*", "# c",
              # a circular path (as many overlaps as segments: the last link leads back to the first segment)
              "P\tcirc\tA+,B-,C+\t2M1I,1M1D1M,*"]),
    ("gfa1", ["S\tA\tACGTAC\t" + TAGS_RAW, "S\tB\t*\tLN:i:5", "L\tA\t+\tB\t-\t02M1I\t" + TAGS_RAW, "L\tB\t-\tD\t+\t1M01D1M",
              "C\tA\t+\tB\t+\t1\t002M", "P\tp\tA+,B-\t02M1I", "P\tr\tA+,B-,D+\t*"]),
    ("gfa2", ["H\tVN:Z:2.0\tTS:i:10", "S\tA\t6\tACGTAC\t" + TAGS_CANON, "S\tB\t5\t*", "S\tC\t3\tACG",
              "E\te1\tA+\tB-\t4\t6$\t3\t5$\t2M1I\t" + TAGS_CANON, "E\te2\tB-\tC+\t0\t2\t0\t2\t1M1D1M", "E\te3\tA+\tC+\t1\t4\t0\t3$\t4,2",
              "E\t*\tA-\tB+\t1\t2\t1\t2\t*", "F\tA\tr+\t0\t6$\t0\t2$\t1M1D\t" + TAGS_CANON, "F\tB\tr-\t0\t2\t3\t5\t*",
              "G\tg\tA+\tB+\t10\t3", "G\t*\tA-\tC+\t5\t*", "O\to\tA+ e1+ B- e2+ C+\t" + TAGS_CANON, "O\to2\to+ C+", "U\tu\tA g o\t" + TAGS_CANON,
              "U\tu2\tu e3", "X\tcust\tf2\t" + TAGS_CANON, "# c"]),
    ("gfa2", ["S\tA\t6\tACGTAC\t" + TAGS_RAW, "S\tB\t5\t*", "E\te1\tA+\tB-\t4\t6$\t3\t5$\t02M1I\t" + TAGS_RAW,
              "E\te3\tA+\tB+\t1\t4\t0\t3\t04,2", "F\tA\tr+\t0\t6$\t0\t2$\t01M1D\t" + TAGS_RAW, "O\to\tA+ e1+ B-", "U\tu\tA zz o",
              "G\tg\tA+\tD+\t10\t3"]),
    # groups: edges listed in their own direction and backwards, first and later in the list, elided edges and segments,
    # paths nested forwards and backwards, a non-contiguous path, sets over paths and sets
    ("gfa2", ["S\tA\t6\t*", "S\tB\t5\t*", "S\tC\t3\t*", "E\te1\tA+\tB+\t4\t6$\t0\t2\t2M", "E\te2\tC-\tB-\t0\t2\t3\t5$\t2M",
              "E\te3\tC+\tA+\t1\t3$\t0\t2\t*", "O\to\tA+ B+ e2-", "O\to2\te2- C+ e3+", "O\to3\te3- o-", "O\to4\to+ e3+ A+ e1+",
              "O\to5\tB- e3- C-", "U\tu\tA o3", "U\tu2\tu e2 o4", "U\tu3\tB o5 u2"]),
    # edges written to-side first (sid2 is the GFA1 from-segment) and contained-first, with asymmetric CIGARs and traces;
    # links stored in the direction that is not canonical; a path over each
    ("gfa2", ["S\tA\t6\tACGTAC", "S\tB\t5\t*", "S\tC\t3\tACG", "E\te1\tB+\tA+\t0\t2\t3\t6$\t2M1D", "E\te2\tC-\tB+\t1\t3$\t3\t5$\t1M1I1M",
              "E\te3\tC+\tA-\t0\t3$\t1\t4\t2M1I", "E\t*\tB-\tA-\t3\t5$\t0\t2\t1I2M", "O\to\tA+ e1+ B+", "O\to2\tB- e1- A-"]),
    ("gfa1", ["S\tA\tACGTAC", "S\tB\t*\tLN:i:5", "L\tB\t-\tA\t-\t2M1D", "L\tB\t+\tA\t-\t1I2M\tID:Z:l2", "C\tB\t-\tA\t+\t0\t1M1I1M",
              "P\tp\tA+,B+\t1I2M", "P\tq\tB-,A-\t*"]),
    # rGFA dialect: segments with the mandatory SN/SO/SR tags, links with none, some and all of the optional SR/L1/L2 tags
    ("gfa1", ["S\ts1\tCTGAA\tSN:Z:chr1\tSO:i:0\tSR:i:0", "S\ts2\tACG\tSN:Z:chr1\tSO:i:5\tSR:i:0", "S\ts3\tTGGC\tSN:Z:alt\tSO:i:0\tSR:i:1\tta:A:x",
              "L\ts1\t+\ts2\t+\t0M", "L\ts1\t+\ts3\t-\t0M\tSR:i:1", "L\ts3\t-\ts2\t+\t0M\tSR:i:1\tL1:i:5\tL2:i:4"]),
]
FIXED_DIALECT = {7: "rgfa"}        # (index in FIXED -> dialect of the Gfa the document is loaded into; default "standard")

NAMES = ["A", "B", "C", "D"]


CONTINUATION = ["X9\t1", "Y9\t2", "Q7\tzz", "X9\t3"]


def n_exhaustive(tier):
    return len(FIXED) * 4


def exhaustive_case(i, tier):
    d, v = divmod(i, 4)
    return {"kind": "sweep", "fixed": d, "vlevel": v}


def budget(tier):
    return 300 if tier == "quick" else 20000


# ---------------------------------------------------------------------------------------------------- generator
def rnd_tags(rng):
    if rng.chance(0.5):
        return ""
    pool = ["ti:i:-5", "tf:f:1.5", "tz:Z:a b", "ta:A:x"] + \
        (["tj:J:{\"k\": [1, 2]}", "tb:B:c,-1,2", "th:H:0AF1"] if rng.chance(0.5) else ["tj:J:{\"k\":[1,2]}", "tb:B:i,-1,2", "tc:B:f,1.50", "tj:J:[ 1 ]"])
    k = rng.pick([1, 2, 3])
    ch = rng.sample(pool, min(k, len(pool)))
    seen = set(); out = []
    for t in ch:
        if t[:2] not in seen:
            seen.add(t[:2]); out.append(t)
    return "\t" + "\t".join(out)


def rnd_cigar(rng, raw):
    ops = [(rng.pick([1, 2, 3]), rng.pick("MMIDP")) for _ in range(rng.pick([1, 2, 3]))]
    if not any(c == "M" for _, c in ops):
        ops.append((1, "M"))
    return "".join(("0%d%s" if raw and rng.chance(0.3) else "%d%s") % o for o in ops)


def reflen(c):
    import re
    return sum(int(n) for n, k in re.findall(r"([0-9]+)([MIDP])", c) if k in "MD"), \
        sum(int(n) for n, k in re.findall(r"([0-9]+)([MIDP])", c) if k in "MI")


def gen_doc(rng):
    ver = rng.pick(["gfa1", "gfa2"])
    raw = rng.chance(0.5)
    segs = rng.sample(NAMES, rng.pick([2, 3, 4]))
    lens = {s: rng.pick([6, 8, 10]) for s in segs}
    L = []
    o = lambda: rng.pick("+-")
    if ver == "gfa1":
        if rng.chance(0.3):
            L.append("H\tVN:Z:1.0" + rnd_tags(rng))
        for s in segs:
            seq = "ACGTACGTAC"[:lens[s]]
            L.append(("S\t%s\t%s" % (s, seq) if rng.chance(0.5) else "S\t%s\t*\tLN:i:%d" % (s, lens[s])) + (rnd_tags(rng) if rng.chance(0.4) else ""))
        links = []
        seen = set()
        for _ in range(rng.pick([1, 2, 3, 4])):
            a, b = rng.pick(segs), rng.pick(segs)
            oa, ob = o(), o()
            inv = {"+": "-", "-": "+"}
            key = min((a, oa, b, ob), (b, inv[ob], a, inv[oa]))
            if key in seen:
                continue
            seen.add(key)
            c = rng.pick(["*", rnd_cigar(rng, raw), rnd_cigar(rng, raw)])
            links.append((a, oa, b, ob, c))
            L.append("L\t%s\t%s\t%s\t%s\t%s" % (a, oa, b, ob, c) + (("\tID:Z:l%d" % len(links)) if rng.chance(0.3) else "") + (rnd_tags(rng) if rng.chance(0.3) else ""))
        if rng.chance(0.5) and len(segs) >= 2:
            a, b = rng.sample(segs, 2)
            L.append("C\t%s\t%s\t%s\t%s\t%d\t%s" % (a, o(), b, o(), rng.pick([0, 1, 2]), rng.pick(["*", "3M", "2M1I"])))
        if links and rng.chance(0.7):
            a, oa, b, ob, c = rng.pick(links)
            L.append("P\tp1\t%s%s,%s%s\t%s" % (a, oa, b, ob, rng.pick(["*", c])))
        if rng.chance(0.2):
            L.append("P\tp2\t%s+\t*" % segs[0])
        if rng.chance(0.3):
            # a circular path: 2-3 steps (a segment may repeat, also as a self link) and as many overlaps as segments,
            # the last link leading back to the first segment; the links it needs are added unless they are there
            # already (then with the overlap of that link, or `*` when the link is written in the other direction)
            inv = {"+": "-", "-": "+"}
            cyc = [(rng.pick(segs), o()) for _ in range(rng.pick([2, 2, 3]))]
            ov = []
            for k in range(len(cyc)):
                (a, oa), (b, ob) = cyc[k], cyc[(k + 1) % len(cyc)]
                there = [l for l in links if l[:4] == (a, oa, b, ob)]
                if there:
                    ov.append(rng.pick(["*", there[0][4]]))
                elif min((a, oa, b, ob), (b, inv[ob], a, inv[oa])) in seen:
                    ov.append("*")
                else:
                    seen.add(min((a, oa, b, ob), (b, inv[ob], a, inv[oa])))
                    c = rng.pick(["*", rnd_cigar(rng, raw)])
                    links.append((a, oa, b, ob, c))
                    L.append("L\t%s\t%s\t%s\t%s\t%s" % (a, oa, b, ob, c))
                    ov.append(c)
            L.append("P\tp3\t%s\t%s" % (",".join(a + oa for a, oa in cyc), ",".join(ov)))
        if rng.chance(0.3):
            L.append("# comment")
    else:
        if rng.chance(0.3):
            L.append("H\tVN:Z:2.0" + rnd_tags(rng))
        for s in segs:
            seq = "ACGTACGTAC"[:lens[s]]
            L.append("S\t%s\t%d\t%s" % (s, lens[s], seq if rng.chance(0.5) else "*") + (rnd_tags(rng) if rng.chance(0.4) else ""))
        enames = []
        for i in range(rng.pick([1, 2, 3, 4])):
            a, b = rng.pick(segs), rng.pick(segs)
            oa, ob = o(), o()
            kind = rng.pick(["dove", "dove", "cont", "int"])
            c = rng.pick(["*", rnd_cigar(rng, raw), "%s%d,2" % ("0" if raw else "", rng.pick([1, 4]))])
            rl, ql = (reflen(c) if c != "*" and "," not in c else (2, 2))
            rl, ql = max(1, min(rl, lens[a] - 1)), max(1, min(ql, lens[b] - 1))

            def iv(n, orient, k, suffix):
                # interval of length k on a segment of length n: suffix of the oriented segment or prefix
                at_end = (suffix and orient == "+") or (not suffix and orient == "-")
                if at_end:
                    return "%d\t%d$" % (n - k, n)
                return "0\t%d" % k
            if kind == "dove" and rng.chance(0.4):
                # written to-side first: sid1 is aligned by its oriented prefix, sid2 by its oriented suffix
                i1, i2 = iv(lens[a], oa, rl, False), iv(lens[b], ob, ql, True)
            elif kind == "dove":
                i1, i2 = iv(lens[a], oa, rl, True), iv(lens[b], ob, ql, False)
            elif kind == "cont" and rng.chance(0.4):
                # the contained segment first
                i1, i2 = "0\t%d$" % lens[a], "1\t%d" % (1 + min(ql, lens[b] - 2))
            elif kind == "cont":
                i1, i2 = "1\t%d" % (1 + min(rl, lens[a] - 2)), "0\t%d$" % lens[b]
            else:
                i1, i2 = "1\t%d" % (1 + min(rl, lens[a] - 2)), "1\t%d" % (1 + min(ql, lens[b] - 2))
            nm = "e%d" % (i + 1) if rng.chance(0.7) else "*"
            if nm != "*":
                enames.append((nm, a, oa, b, ob))
            L.append("E\t%s\t%s%s\t%s%s\t%s\t%s\t%s" % (nm, a, oa, b, ob, i1, i2, c) + (rnd_tags(rng) if rng.chance(0.3) else ""))
        if rng.chance(0.5):
            L.append("G\t%s\t%s%s\t%s%s\t%d\t%s" % (rng.pick(["g1", "*"]), rng.pick(segs), o(), rng.pick(segs), o(), rng.pick([5, 100]), rng.pick(["*", "3"])))
        if rng.chance(0.5):
            s = rng.pick(segs)
            L.append("F\t%s\tr%s\t0\t%d$\t0\t4\t%s" % (s, o(), lens[s], rng.pick(["*", "4M"])))
        gen_groups(rng, segs, enames, L)
        if rng.chance(0.2):
            L.append("X\tcustom\tfield" + rnd_tags(rng))
    rng.shuffle(L)
    return ver, L


def gen_groups(rng, segs, enames, L):
    """O and U lines over the named edges.  An O group is a random walk over the edges (every edge can be taken in its
    own direction, `e+`: sid1 -> sid2, or backwards, `e-`: inv sid2 -> inv sid1), possibly read from the other end, written
    with random elision of segments and edges; or an earlier O group referenced with + or -, extended on either side.
    Some item lists are perturbed (the answer is then an error, which has to be as stable as a path).  A U group
    mixes segments, edges, paths, sets, the gap and an undefined name."""
    inv = {"+": "-", "-": "+"}

    def steps(s):
        out = []
        for nm, a, oa, b, ob in enames:
            if (a, oa) == s:
                out.append((nm, "+", (b, ob)))
            if (b, inv[ob]) == s:
                out.append((nm, "-", (a, inv[oa])))
        return out

    def walk(start, n):
        w = [("S",) + start]
        for _ in range(n):
            st = steps(w[-1][1:])
            if not st:
                break
            nm, o, to = rng.pick(st)
            w += [("E", nm, o), ("S",) + to]
        return w

    def flip(w):
        return [(k, n, inv[o]) for k, n, o in reversed(w)]

    def written(w):
        it = [n + o for k, n, o in w if rng.chance(0.55)]
        return it or [w[0][1] + w[0][2]]

    walks = {}          # O name -> its walk as intended (None when perturbed)
    onames, unames = [], []
    for _ in range(rng.pick([0, 1, 1, 2, 3])):
        gid = "o%d" % (len(onames) + 1)
        known = [p for p in onames if walks[p]]
        if known and rng.chance(0.4):
            sub, o = rng.pick(known), rng.pick("+-")
            w = walks[sub] if o == "+" else flip(walks[sub])
            items = [sub + o]
            if rng.chance(0.6):
                ext = walk(w[-1][1:], rng.pick([1, 2]))
                items += written(ext[1:]) if len(ext) > 1 else []
                w = w + ext[1:]
            if rng.chance(0.4):
                back = flip(walk((w[0][1], inv[w[0][2]]), rng.pick([1, 2])))
                items = (written(back[:-1]) if len(back) > 1 else []) + items
                w = back[:-1] + w
        else:
            if enames and rng.chance(0.85):
                nm, a, oa, b, ob = rng.pick(enames)
                start = rng.pick([(a, oa), (b, inv[ob]), (rng.pick(segs), rng.pick("+-"))])
            else:
                start = (rng.pick(segs), rng.pick("+-"))
            w = walk(start, rng.pick([0, 1, 2, 2, 3, 4]))
            if rng.chance(0.4):
                w = flip(w)
            items = written(w)
        r = rng.random()
        if r < 0.08:
            k = rng.randrange(len(items))
            items[k] = items[k][:-1] + inv[items[k][-1]]
            w = None
        elif r < 0.14:
            items[rng.randrange(len(items))] = rng.pick(segs + [e[0] for e in enames] + ["zz"]) + rng.pick("+-")
            w = None
        elif r < 0.18:
            rng.shuffle(items)
            w = None
        walks[gid] = w
        onames.append(gid)
        L.append("O\t%s\t%s" % (gid, " ".join(items)) + (rnd_tags(rng) if rng.chance(0.2) else ""))
    for _ in range(rng.pick([0, 1, 1, 2])):
        gid = "u%d" % (len(unames) + 1)
        pool = segs + [e[0] for e in enames] + onames + onames + unames + unames + \
            (["g1"] if any(l.startswith("G\tg1") for l in L) else []) + (["zz"] if rng.chance(0.1) else []) + \
            (["u%d" % (len(unames) + 2)] if rng.chance(0.1) else [])
        items = rng.sample(pool, rng.pick([1, 2, 3, 4][:min(4, len(pool))]))
        seen = set()
        items = [x for x in items if not (x in seen or seen.add(x))]
        unames.append(gid)
        L.append("U\t%s\t%s" % (gid, " ".join(items)) + (rnd_tags(rng) if rng.chance(0.2) else ""))


def gen_queued(rng):
    """lines that stay in the queue of a Gfa of unknown version: GFA1 L/C/P lines (no S, no VN header), or custom records"""
    segs = rng.sample(NAMES, rng.pick([2, 3]))
    o = lambda: rng.pick("+-")
    L = []
    if rng.chance(0.8):
        for _ in range(rng.pick([1, 2, 3])):
            a, b = rng.pick(segs), rng.pick(segs)
            L.append("L\t%s\t%s\t%s\t%s\t%s" % (a, o(), b, o(), rng.pick(["*", "3M", "2M1I"])))
        if rng.chance(0.5):
            L.append("C\t%s\t+\t%s\t-\t1\t*" % (segs[0], segs[1]))
        if rng.chance(0.5):
            f = L[0].split("\t")
            L.append("P\tp1\t%s%s,%s%s\t*" % (f[1], f[2], f[3], f[4]))
    else:
        L.append("X\tcustom\tfield")
    if rng.chance(0.3):
        L.append("# comment")
    rng.shuffle(L)
    return L


def gen_rgfa(rng):
    """a GFA1 document of the rGFA dialect: segments with the mandatory SN/SO/SR tags, 0M links carrying a random subset of
    the optional SR/L1/L2 tags; 22% are perturbed into something the rGFA validation refuses (a mandatory tag missing, a
    tag of the wrong datatype, an overlap that is not 0M, a header or a path) -- the refusal has to be as stable as the
    acceptance."""
    segs = rng.sample(["s1", "s2", "s3", "s4"], rng.pick([2, 3, 4]))
    o = lambda: rng.pick("+-")
    inv = {"+": "-", "-": "+"}
    L = []; off = 0
    for k, s in enumerate(segs):
        seq = "ACGTACGTAC"[:rng.pick([3, 5, 8])]
        rank = 0 if k < 2 else rng.pick([0, 1])
        L.append("S\t%s\t%s\tSN:Z:%s\tSO:i:%d\tSR:i:%d" % (s, seq, "chr1" if rank == 0 else "alt%d" % k, off if rank == 0 else 0, rank) +
                 (rnd_tags(rng) if rng.chance(0.3) else ""))
        off += len(seq)
    seen = set(); nl = 0
    for _ in range(rng.pick([1, 2, 3])):
        a, b = rng.pick(segs), rng.pick(segs)
        oa, ob = o(), o()
        key = min((a, oa, b, ob), (b, inv[ob], a, inv[oa]))
        if key in seen:
            continue
        seen.add(key); nl += 1
        t = [x for x in ("SR:i:%d" % rng.pick([0, 1]), "L1:i:%d" % rng.pick([3, 5]), "L2:i:%d" % rng.pick([3, 5])) if rng.chance(0.4)]
        L.append("\t".join(["L", a, oa, b, ob, "0M"] + t) + (rnd_tags(rng) if rng.chance(0.2) else ""))
    r = rng.random()
    if r < 0.06:
        L[0] = L[0].replace("\tSO:i:", "\tso:i:")
    elif r < 0.12:
        L[-1] = L[-1] + ("\tL1:Z:5" if "\tL1:" not in L[-1] else "") if nl else L[-1].replace("\tSR:i:", "\tSR:Z:")
    elif r < 0.17 and nl:
        L[-1] = L[-1].replace("\t0M", "\t1M")
    elif r < 0.22:
        L.append(rng.pick(["H\tVN:Z:1.0", "P\tp1\t%s+\t*" % segs[0]]))
    rng.shuffle(L)
    return L


def gen_case(rng, tier, i):
    if i % 12 == 11:
        return {"kind": "queued", "version": None, "lines": gen_queued(rng), "vlevel": rng.pick([0, 1, 1, 2, 3]),
                "calls": [(rng.randrange(10 ** 6), rng.randrange(10 ** 6)) for _ in range(25)]}
    if i % 12 == 5:
        n = 40 if tier == "quick" else 200
        return {"kind": "rgfa", "version": "gfa1", "dialect": "rgfa", "lines": gen_rgfa(rng), "vlevel": rng.pick([0, 1, 1, 2, 3]),
                "calls": [[rng.randrange(10 ** 6), rng.randrange(10 ** 6)] for _ in range(n)]}
    ver, L = gen_doc(rng)
    n = 40 if tier == "quick" else 200
    return {"kind": "random", "version": ver, "lines": L, "vlevel": rng.pick([0, 0, 1, 2, 3]),
            "calls": [[rng.randrange(10 ** 6), rng.randrange(10 ** 6)] for _ in range(n)]}


def nontrivial(case):
    if case["kind"] == "sweep":
        return True
    return len(case["calls"]) >= 10 and any(l[0] in "LCE" for l in case["lines"])


def tags(case):
    if case["kind"] == "sweep":
        return ["sweep", "fixed%d" % case["fixed"], "v%d" % case["vlevel"]]
    rts = sorted({l[0] for l in case["lines"]})
    return [case["kind"], str(case["version"]), "v%d" % case["vlevel"]] + ["rt:" + r for r in rts]


def signature(case, failure):
    return failure.split(": ")[0]


# ---------------------------------------------------------------------------------------------------- rendering
def norm(gfapy, x, depth=0):
    if depth > 6:
        return "..."
    if isinstance(x, gfapy.Line):
        try:
            return "<line %s>" % str(x)
        except Exception as e:
            return "<line ?%s>" % e.__class__.__name__
    if isinstance(x, gfapy.Gfa):
        return "<gfa %s>" % str(x)
    if isinstance(x, gfapy.OrientedLine):
        return "<ol %s %s>" % (norm(gfapy, x.line, depth + 1), x.orient)
    if isinstance(x, gfapy.SegmentEnd):
        return "<se %s %s>" % (norm(gfapy, x.segment, depth + 1), x.end_type)
    if isinstance(x, dict):
        return "{%s}" % ",".join(sorted("%s:%s" % (norm(gfapy, k, depth + 1), norm(gfapy, v, depth + 1)) for k, v in x.items()))
    if isinstance(x, (set, frozenset)):
        return "set(%s)" % ",".join(sorted(norm(gfapy, e, depth + 1) for e in x))
    if isinstance(x, (list, tuple)) and not isinstance(x, (gfapy.CIGAR, gfapy.Trace, gfapy.NumericArray)):
        return "[%s]" % ",".join(norm(gfapy, e, depth + 1) for e in x)
    if isinstance(x, float) and x != x:
        return "nan"
    try:
        return "%s|%s" % (repr(x), str(x))
    except Exception as e:
        return "<unrenderable %s>" % e.__class__.__name__


VALUE_CLASSES = None


def is_value_object(gfapy, x):
    if isinstance(x, (gfapy.CIGAR, gfapy.Trace, gfapy.LastPos, gfapy.OrientedLine, gfapy.SegmentEnd, gfapy.NumericArray, gfapy.FieldArray,
                      gfapy.CIGAR.Operation)):
        return True
    if isinstance(x, dict):
        return True
    if isinstance(x, list):       # JSON lists, lists of alignments / oriented names -- not the collections of lines
        return not any(isinstance(e, (gfapy.Line, gfapy.SegmentEnd)) or (isinstance(e, gfapy.OrientedLine) and isinstance(e.line, gfapy.Line))
                       for e in x)
    return False


# ---------------------------------------------------------------------------------------------------- edits of results
# Some read-only operations are documented to hand out a NEW object (Line.clone, Link.complement, CIGAR.complement).
# The caller owns it: an edit of the result is an edit of the result only.  The edits below are applied to such a
# result; what they do to the result is nobody's business here (every error is swallowed), the snapshot taken after
# the call shows whether the original -- line, Gfa, alignment handed out earlier -- is still what it was.
EDITS = ("delete every tag", "retype every tag", "edit every value in place")


def edit_value(gfapy, v, depth=0):
    """in-place edit of a field value: lengths of CIGAR operations, elements of lists/arrays, keys of JSON objects,
    orientation of oriented identifiers"""
    if depth > 3:
        return
    if isinstance(v, gfapy.CIGAR):
        for op in v:
            op.length += 1
    elif isinstance(v, gfapy.CIGAR.Operation):
        v.length += 1
    elif isinstance(v, gfapy.OrientedLine):
        if not isinstance(v.line, gfapy.Line):         # (an oriented *name*: the copy holds no references)
            v.orient = "-" if v.orient == "+" else "+"
    elif isinstance(v, dict):
        for x in list(v.values()):
            edit_value(gfapy, x, depth + 1)
        v["zz"] = 1
    elif isinstance(v, list):
        for x in list(v):
            edit_value(gfapy, x, depth + 1)
        if v and all(isinstance(x, (int, float)) and not isinstance(x, bool) for x in v):
            v.append(v[0])
            v[0] = v[0] + 1


def edited_complement(gfapy, cigar):
    c = cigar.complement()
    edit_value(gfapy, c)
    for op in c:
        if op.code == "M":
            op.code = "X"
    return str(c)


def edit_copy(gfapy, c, mode):
    def attempt(fn, *a):
        try:
            fn(*a)
        except Exception:  # noqa -- the edit of the copy may be refused, or fail: not this property's business
            pass
    tags = list(c.tagnames)
    if mode == "delete every tag":
        for t in tags:
            attempt(c.delete, t)
        attempt(c.set, "nn", 1.5)
    elif mode == "retype every tag":
        for t in tags:
            attempt(lambda: c.set_datatype(t, "i" if c.get_datatype(t) == "Z" else "Z"))
        attempt(c.set, "nn", 1.5)
    else:
        for f in list(c.positional_fieldnames) + tags:
            attempt(lambda: edit_value(gfapy, c.get(f)))
    return c


# ---------------------------------------------------------------------------------------------------- catalogue
def catalogue(gfapy, g, held):
    """-> list of (entry name, thunk).  Building it touches no field value (only g.lines and record types)."""
    C = []
    add = lambda n, f: C.append((n, f))
    lines = list(g.lines)
    segs = [l for l in lines if l.record_type == "S"]
    links = [l for l in lines if l.record_type == "L"]
    edges2 = [l for l in lines if l.record_type == "E"]
    # ---- Gfa level
    for n in ("lines", "segments", "dovetails", "containments", "edges", "gaps", "fragments", "paths", "sets", "comments", "custom_records",
              "headers", "header", "names", "segment_names", "edge_names", "gap_names", "path_names", "set_names", "external_names",
              "custom_record_keys", "version", "vlevel", "dialect", "n_dovetails", "n_containments", "n_internals", "n_dead_ends",
              "n_input_header_lines", "stable_sequence_names"):
        add("Gfa." + n, lambda n=n: getattr(g, n))
    add("str(Gfa)", lambda: str(g))
    add("Gfa.validate", lambda: g.validate())
    add("Gfa.is_rgfa", lambda: g.is_rgfa())
    add("Gfa.connected_components", lambda: g.connected_components())
    add("Gfa.linear_paths", lambda: g.linear_paths())
    add("Gfa.linear_paths(redundant)", lambda: g.linear_paths(redundant_junctions=True))
    add("Gfa.to_gfa1_s", lambda: g.to_gfa1_s())
    add("Gfa.to_gfa2_s", lambda: g.to_gfa2_s())
    add("Gfa.to_gfa1", lambda: g.to_gfa1())
    add("Gfa.to_gfa2", lambda: g.to_gfa2())
    add("Gfa.custom_records_of_type", lambda: g.custom_records_of_type("X"))
    # questions about record types the Gfa does not hold (yet)
    add("Gfa.custom_records_of_type(absent)", lambda: g.custom_records_of_type("Y9"))
    for d in ({"record_type": "Y9"}, {"record_type": "Q7", "name": "zz"}, {"record_type": "F"}, {"record_type": "U"}):
        add("Gfa.select(absent type)", lambda d=d: g.select(dict(d)))
    add("Gfa.fragments_for_external", lambda: g.fragments_for_external("r"))
    for x in ["A", "B", "D", "e1", "l1", "p", "o", "u", "g", "zz", "nope", "*"]:
        add("Gfa.line(name)", lambda x=x: g.line(x))
        add("Gfa.try_get_line(name)", lambda x=x: g.try_get_line(x))
    for x in ["A", "D", "nope", "e1"]:
        add("Gfa.segment(name)", lambda x=x: g.segment(x))
        add("Gfa.try_get_segment(name)", lambda x=x: g.try_get_segment(x))
    for d in ({"record_type": "S"}, {"record_type": "L", "from_orient": "+"}, {"name": "A"}, {"record_type": "E", "sid1": "A+"},
              {"record_type": "S", "ti": -5}, {"record_type": "P"}):
        add("Gfa.select(dict)", lambda d=d: g.select(dict(d)))
    # the same criteria object asked again and again (name of a line that is there / is not there, with and without further
    # criteria): the criteria are an argument, they are rendered in every snapshot like the value objects handed out
    for d in ({"name": "A", "record_type": "S"}, {"record_type": "S", "name": "zz"}, {"name": "B"}, {"name": "s1", "SR": 0},
              {"name": "e1", "record_type": "E"}, {"name": "l1", "from_orient": "+"}, {"name": "p1"}):
        hold(held, "criteria of Gfa.select(same dict)", d)
        add("Gfa.select(same dict)", lambda d=d: g.select(d))
    for s in segs:
        add("Gfa.segment_connected_component", lambda s=s: g.segment_connected_component(s))
        add("Gfa.is_cut_segment", lambda s=s: g.is_cut_segment(s))
        add("Gfa.linear_path(segment)", lambda s=s: g.linear_path(s))
        add("Gfa.line(line)", lambda s=s: g.line(s))
    for l in [x for x in lines if x.record_type in "LE"]:
        add("Gfa.is_cut_link", lambda l=l: g.is_cut_link(l))
    # ---- every line
    for l in lines + [g.header]:
        rt = l.record_type
        P = "%s." % rt
        add("str(line)", lambda l=l: str(l))
        add("repr(line)", lambda l=l: repr(l))
        add(P + "to_list", lambda l=l: l.to_list())
        add(P + "to_str", lambda l=l: l.to_str())
        for n in ("tagnames", "positional_fieldnames", "record_type", "version", "virtual", "gfa", "dialect", "all_references"):
            add(P + n, lambda l=l, n=n: getattr(l, n))
        add(P + "is_connected", lambda l=l: l.is_connected())
        add(P + "validate", lambda l=l: l.validate())
        add(P + "clone", lambda l=l: l.clone())
        # the copy is a line of its own ("this allows to edit the line before adding it"): whatever is done to it, the
        # line it was taken from stays as it is
        for mode in EDITS:
            add(P + "clone, then %s of the copy" % mode, lambda l=l, mode=mode: edit_copy(gfapy, l.clone(), mode))
        add(P + "refstr", lambda l=l: l.refstr())
        add(P + "to_gfa1_s", lambda l=l: l.to_gfa1_s())
        add(P + "to_gfa2_s", lambda l=l: l.to_gfa2_s())
        add(P + "to_gfa1", lambda l=l: l.to_gfa1())
        add(P + "to_gfa2", lambda l=l: l.to_gfa2())
        if rt != "H":
            add(P + "select(line)", lambda l=l: g.select(l))
        add(P + "name", lambda l=l: l.get("name"))

        def each_field(fn, l=l):
            return [fn(f) for f in list(l.positional_fieldnames) + list(l.tagnames)]
        add(P + "get(every field)", lambda l=l, ef=each_field: ef(lambda f: hold(held, "%s.get(%s)" % (l.record_type, f), l.get(f))))
        add(P + "getattr(every field)", lambda l=l, ef=each_field: ef(lambda f: getattr(l, f) if f.isidentifier() else None))
        add(P + "try_get(every field)", lambda l=l, ef=each_field: ef(lambda f: l.try_get(f)))
        add(P + "field_to_s(every field)", lambda l=l, ef=each_field: ef(lambda f: l.field_to_s(f)))
        add(P + "field_to_s(tag=True)", lambda l=l: [l.field_to_s(f, tag=True) for f in l.tagnames])
        add(P + "get_datatype(every field)", lambda l=l, ef=each_field: ef(lambda f: l.get_datatype(f)))
        add(P + "validate_field(every field)", lambda l=l, ef=each_field: ef(lambda f: l.validate_field(f)))
        add(P + "get(absent tag)", lambda l=l: (l.get("qq"), l.get("name")))
        others = [o for o in lines if o.record_type == rt and o is not l][:2]
        for o in others + [l]:
            add(P + "==", lambda l=l, o=o: l == o)
            add(P + "diff", lambda l=l, o=o: l.diff(o))
            add(P + "diffscript", lambda l=l, o=o: l.diffscript(o, "x"))
        if rt == "S":
            for n in ("dovetails", "dovetails_L", "dovetails_R", "containments", "edges_to_contained", "edges_to_containers", "contained",
                      "containers", "edges", "gaps", "gaps_L", "gaps_R", "neighbours", "neighbours_L", "neighbours_R", "fragments", "internals",
                      "paths", "sets", "length"):
                add("S." + n, lambda l=l, n=n: getattr(l, n))
            for e in "LR":
                add("S.dovetails_of_end", lambda l=l, e=e: l.dovetails_of_end(e))
                add("S.gaps_of_end", lambda l=l, e=e: l.gaps_of_end(e))
                add("S.neighbours_of_end", lambda l=l, e=e: l.neighbours_of_end(e))
            add("S.try_get_length", lambda l=l: l.try_get_length())
            add("S.coverage", lambda l=l: l.coverage())
            add("S.try_get_coverage", lambda l=l: l.try_get_coverage())
            if hasattr(l, "validate_length"):
                add("S.validate_length", lambda l=l: l.validate_length())
            for o in segs[:3]:
                add("S.relations_to", lambda l=l, o=o: l.relations_to(o))
                add("S.relations_to(name)", lambda l=l, o=o: l.relations_to(o.get("name")))
                for e1 in "LR":
                    add("S.end_relations", lambda l=l, o=o, e1=e1: l.end_relations(e1, gfapy.SegmentEnd(o, "L")))
                add("S.oriented_relations", lambda l=l, o=o: l.oriented_relations("+", gfapy.OrientedLine(o, "-")))
        if rt in ("L", "C", "E"):
            for n in ("from_segment", "to_segment", "from_orient", "to_orient", "from_name", "to_name", "from_end", "to_end", "oriented_from",
                      "oriented_to", "sid1", "sid2", "beg1", "end1", "beg2", "end2", "alignment", "overlap", "eid") + (("paths",) if rt != "C" else ()):
                add(rt + "." + n, lambda l=l, n=n, rt=rt: hold(held, rt + "." + n, getattr(l, n)))
            for n in ("is_dovetail", "is_containment", "is_internal", "is_circular", "is_circular_same_end"):
                add(rt + "." + n, lambda l=l, n=n: getattr(l, n)())
            for s in segs[:3]:
                add(rt + ".other(segment)", lambda l=l, s=s: l.other(s))
                if rt != "E":
                    add(rt + ".other(segment, tolerant)", lambda l=l, s=s: l.other(s, tolerant=True))
                for e in "LR":
                    add(rt + ".other_end", lambda l=l, s=s, e=e: l.other_end(gfapy.SegmentEnd(s, e), tolerant=True))
                for o_ in "+-":
                    if rt != "E":
                        add(rt + ".other_oriented_segment", lambda l=l, s=s, o_=o_: l.other_oriented_segment(gfapy.OrientedLine(s, o_), tolerant=True))
                    else:
                        add(rt + ".other_oriented_segment", lambda l=l, s=s, o_=o_: l.other_oriented_segment(gfapy.OrientedLine(s, o_)))
        if rt in ("L", "C"):
            add(rt + ".from_coords", lambda l=l: l.from_coords)
            add(rt + ".to_coords", lambda l=l: l.to_coords)
            add(rt + ".is_canonical", lambda l=l: l.is_canonical())
        if rt == "C":
            add("C.rpos", lambda l=l: l.rpos)
            add("C.pos", lambda l=l: l.pos)
        if rt == "E":
            add("E.pos", lambda l=l: l.pos)
            add("E.validate_positions", lambda l=l: l.validate_positions())
            add("E.sets", lambda l=l: l.sets)
        if rt == "L":
            add("L.complement", lambda l=l: hold(held, "L.complement", l.complement()))
            add("L.complement.overlap", lambda l=l: hold(held, "L.complement.overlap", l.complement().overlap))
            add("L.complement.complement", lambda l=l: l.complement().complement())
            # the complement is a new, disconnected link: editing it (its overlap in place, its tags) leaves the link alone
            for mode in EDITS:
                add("L.complement, then %s of the result" % mode, lambda l=l, mode=mode: edit_copy(gfapy, l.complement(), mode))
            for o in ([x for x in links if x is not l][:2] + [l]):
                add("L.is_complement", lambda l=l, o=o: l.is_complement(o))
                add("L.is_eql", lambda l=l, o=o: l.is_eql(o))
                add("L.is_same", lambda l=l, o=o: l.is_same(o))
                add("L.are_tags_eql", lambda l=l, o=o: l.are_tags_eql(o))
                add("L.is_complement(its complement)", lambda l=l, o=o: l.is_complement(o.complement()))
                add("L.is_eql(its complement)", lambda l=l, o=o: l.is_eql(o.complement()))
                for fn in ("is_compatible", "is_compatible_direct", "is_compatible_complement"):
                    add("L." + fn, lambda l=l, o=o, fn=fn: getattr(l, fn)(o.oriented_from, o.oriented_to, o.overlap))
                    add("L." + fn + "(no overlap)", lambda l=l, o=o, fn=fn: getattr(l, fn)(o.oriented_to.inverted(), o.oriented_from.inverted()))
                add("L.is_compatible(text)", lambda l=l, o=o: l.is_compatible(gfapy.OrientedLine(o.from_name, o.from_orient),
                                                                              gfapy.OrientedLine(o.to_name, o.to_orient), "1M2D", True))
        if rt == "P":
            for n in ("captured_path", "captured_segments", "captured_edges", "links", "segment_names", "overlaps"):
                add("P." + n, lambda l=l, n=n: hold(held, "P." + n, getattr(l, n)))
            add("P.is_circular", lambda l=l: l.is_circular())
            add("P.is_linear", lambda l=l: l.is_linear())
        if rt == "O":
            for n in ("captured_path", "captured_segments", "captured_edges", "items", "paths", "sets"):
                add("O." + n, lambda l=l, n=n: hold(held, "O." + n, getattr(l, n)))
        if rt == "U":
            for n in ("induced_set", "induced_segments_set", "induced_edges_set", "items", "sets"):
                add("U." + n, lambda l=l, n=n: hold(held, "U." + n, getattr(l, n)))
        if rt == "F":
            add("F.validate_positions", lambda l=l: l.validate_positions())
            for n in ("sid", "external", "s_beg", "s_end", "f_beg", "f_end", "alignment"):
                add("F." + n, lambda l=l, n=n: hold(held, "F." + n, getattr(l, n)))
        if rt == "G":
            for n in ("sid1", "sid2", "disp", "var", "sets"):
                add("G." + n, lambda l=l, n=n: hold(held, "G." + n, getattr(l, n)))
    return C


def family(name):
    """catalogue family of an entry: Gfa, the record type of the line, str/repr"""
    return name.split(".")[0].split("(")[0]


CLAUSES = [("validation", ("validate", "is_rgfa")),
           ("cloning", ("clone",)),
           ("comparison", ("==", "diff")),
           ("complement and alignment", ("complement", "is_eql", "is_same", "are_tags_eql", "compatible", "canonical", "length_on", "CIGAR.",
                                         "Trace.", "Operation.")),
           ("resolution", ("captured_", "induced_", "P.links", "P.segment_names", "P.overlaps", ".items", ".paths", ".sets", "is_circular",
                           "is_linear")),
           ("search", ("select", "Gfa.line(", "try_get_line", "Gfa.segment(", "try_get_segment", "custom_records_of_type",
                       "fragments_for_external")),
           ("topology", ("connected_component", "is_cut", "linear_path", "neighbours", "dovetails", "contain", "gaps", "relations", "other",
                         "n_dead_ends", "edges", "internals", "fragments", "is_dovetail", "is_internal")),
           ("conversion", ("str(", "repr(", "to_list", "to_str", "to_gfa", "field_to_s", "refstr"))]
_CLAUSE = {}


def clause(name):
    """the clause of the property an entry belongs to (by its name; "reads" for the field, tag and attribute reads)"""
    if name not in _CLAUSE:
        _CLAUSE[name] = next((c for c, keys in CLAUSES if any(k in name for k in keys)), "reads")
    return _CLAUSE[name]


def hold(held, label, v):
    """remember value objects handed out by the library (to re-render them later and to call their methods)"""
    gfapy = lib.import_gfapy()

    def rec(lab, x, d):
        if d > 3:
            return
        if is_value_object(gfapy, x) and not any(o is x for _, o in held) and len(held) < 120:
            held.append((lab, x))
        if isinstance(x, (list, tuple)) and not isinstance(x, gfapy.Line):
            for i, e in enumerate(list(x)[:8]):
                rec("%s[%d]" % (lab, i), e, d + 1)
    rec(label, v, 0)
    return v


def value_entries(gfapy, held):
    """catalogue entries on previously returned value objects"""
    V = []
    for lab, o in list(held):
        if isinstance(o, gfapy.CIGAR):
            V.append(("CIGAR.complement", lambda o=o: hold(held, "CIGAR.complement", o.complement())))
            V.append(("CIGAR.complement.complement", lambda o=o: o.complement().complement()))
            V.append(("CIGAR.complement, then edit every operation of the result", lambda o=o: edited_complement(gfapy, o)))
            V.append(("CIGAR.length_on_reference", lambda o=o: o.length_on_reference()))
            V.append(("CIGAR.length_on_query", lambda o=o: o.length_on_query()))
            V.append(("CIGAR.validate", lambda o=o: o.validate()))
            V.append(("CIGAR.str/len/list", lambda o=o: (str(o), len(o), [str(x) for x in o], repr(o))))
        elif isinstance(o, gfapy.Trace):
            V.append(("Trace.complement", lambda o=o: o.complement()))
            V.append(("Trace.validate", lambda o=o: o.validate()))
            V.append(("Trace.str", lambda o=o: (str(o), repr(o), len(o))))
        elif isinstance(o, gfapy.CIGAR.Operation):
            V.append(("Operation.str/len", lambda o=o: (str(o), len(o), repr(o), o.code, o.length)))
            V.append(("Operation.validate", lambda o=o: o.validate()))
        elif isinstance(o, gfapy.LastPos):
            V.append(("LastPos.read", lambda o=o: (str(o), repr(o), int(o), o == 3, o - 0, o - 1, gfapy.posvalue(o), gfapy.islastpos(o), gfapy.isfirstpos(o))))
            V.append(("LastPos.validate", lambda o=o: o.validate()))
        elif isinstance(o, gfapy.OrientedLine):
            V.append(("OrientedLine.read", lambda o=o: (str(o), repr(o), o.name, o.orient, o.line, o == "A+")))
            V.append(("OrientedLine.inverted", lambda o=o: o.inverted()))
            V.append(("OrientedLine.validate", lambda o=o: o.validate()))
        elif isinstance(o, gfapy.SegmentEnd):
            V.append(("SegmentEnd.read", lambda o=o: (str(o), repr(o), o.name, o.end_type, o.segment)))
            V.append(("SegmentEnd.inverted", lambda o=o: o.inverted()))
        elif isinstance(o, gfapy.NumericArray):
            V.append(("NumericArray.read", lambda o=o: (str(o), o.compute_subtype(), list(o))))
            V.append(("NumericArray.validate", lambda o=o: o.validate()))
        elif isinstance(o, gfapy.FieldArray):
            V.append(("FieldArray.read", lambda o=o: (str(o), repr(o), o.datatype, list(o))))
            V.append(("FieldArray.validate", lambda o=o: o.validate()))
    return V


def snapshot(gfapy, g, held):
    parts = []
    try:
        ls = list(g.lines)
        extra = [x for x in g.segments if x.virtual and not any(x is y for y in ls)]
        texts = []
        for i, l in enumerate(ls + extra):
            try:
                t = str(l)
            except Exception as e:
                t = "<str raised %s>" % e.__class__.__name__
            parts.append(("line%d" % i, t))
            if i < len(ls):
                texts.append(t)
        parts.append(("gfa", "\n".join(texts)))        # what str(gfa) is: the join of its lines
        parts.append(("version", repr(g.version)))
        parts.append(("names", repr(sorted(str(n) for n in g.names))))
    except Exception as e:
        parts.append(("lines", "<raised %s>" % e.__class__.__name__))
    # the table of the rGFA tags is a public attribute of the class: what is written there decides the later answers of
    # validate() of every Gfa of the process
    parts.append(("Gfa.RGFA_TAGS", repr(getattr(gfapy.Gfa, "RGFA_TAGS", None))))
    for i, (lab, o) in enumerate(held):
        if isinstance(o, (gfapy.OrientedLine, gfapy.SegmentEnd)):
            continue       # rendered through the line they point to
        try:
            parts.append(("held%d:%s" % (i, lab), "%r|%s" % (o, o)))
        except Exception as e:
            parts.append(("held%d:%s" % (i, lab), "<raised %s>" % e.__class__.__name__))
    return parts


def run_call(gfapy, name, thunk):
    try:
        return ("ok", norm(gfapy, thunk()))
    except gfapy.Error as e:
        return ("gerr", e.__class__.__name__)
    except RecursionError:
        return ("foreign", "RecursionError")
    except Exception as e:
        return ("foreign", "%s@%s" % (e.__class__.__name__, M.innermost_gfapy_frame(e)))


RE_TO_GFA2 = re.compile(r"^(Gfa|L|C|P)\.to_gfa2(_s)?$")
RE_ID_TAG = re.compile(r"\tID:Z:[0-9]+(?=\t|$)")


def beyond_id_assignment(b, a, vlevel):
    """None when the change between two snapshots is what the open finding `to_gfa2-assigns-id` does and nothing else:
    lines got a generated identifier (`ID:Z:<n>`) and were registered again under it, so that the order of the lines and
    the set of names change too.  Otherwise the key of a part of the snapshot that this does not explain."""
    cn = M.canon_text if vlevel == 0 else (lambda t: t)         # (at level 0 the conversion also reads delayed fields)
    text = lambda d: {k: cn(RE_ID_TAG.sub("", v)) for k, v in d.items() if k.startswith("line")}
    tb, ta = text(b), text(a)
    if sorted(tb.values()) != sorted(ta.values()):
        left = list(tb.values())
        for k in sorted(ta, key=lambda k: (len(k), k)):
            if ta[k] in left:
                left.remove(ta[k])
            else:
                return k
        return sorted(tb)[0]
    for k in list(a) + [k for k in b if k not in a]:
        if k.startswith("line") or k == "gfa" or a.get(k) == b.get(k):
            continue
        if k == "names":
            try:
                nb, na = ast.literal_eval(b[k]), ast.literal_eval(a[k])
            except Exception:  # noqa
                return k
            if set(nb) <= set(na) and all(x.isdigit() for x in set(na) - set(nb)):
                continue
        return k
    return None


def compare(F, vlevel, name, before, after, where):
    if before == after:
        return
    b, a = dict(before), dict(after)
    changed = [k for k in a if b.get(k) != a[k]] + [k for k in b if k not in a]
    k = changed[0]
    lazy = vlevel == 0 and all((not x.startswith("held")) and M.canon_text(b.get(x, "")) == M.canon_text(a.get(x, "")) for x in changed)
    if lazy:
        F.append("lazy-spelling: %s (%s) rewrote %r as %r" % (name, where, b.get(k), a.get(k)))
        return
    if RE_TO_GFA2.match(name):
        # the open finding `to_gfa2-assigns-id` has the signature mutation[<entry>]: whatever else the conversion does to the
        # lines it converts (resolving a path on the way, ...) is reported under a signature of its own
        k2 = beyond_id_assignment(b, a, vlevel)
        if k2 is not None:
            F.append("mutation[%s, beyond assigning IDs]: (%s) %s changed from %r to %r" % (name, where, k2, b.get(k2), a.get(k2)))
            return
    F.append("mutation[%s]: (%s) %s changed from %r to %r" % (name, where, k, b.get(k), a.get(k)))


def oracle(case):
    gfapy = lib.import_gfapy()
    if case["kind"] == "sweep":
        ver, L = FIXED[case["fixed"]]
        dialect = FIXED_DIALECT.get(case["fixed"], "standard")
    else:
        ver, L = case["version"], case["lines"]
        dialect = case.get("dialect", "standard")
    v = case["vlevel"]
    try:
        g = gfapy.Gfa(vlevel=v, version=ver, dialect=dialect)
        for l in L:
            g.add_line(l)
    except gfapy.Error:
        return []                 # the generator produced something the library refuses: not this property's business
    except Exception as e:
        return ["build-failed: %s@%s" % (e.__class__.__name__, M.innermost_gfapy_frame(e))]
    F = []
    held = []
    where = "vlevel=%d %s%s" % (v, ver, "" if dialect == "standard" else " " + dialect)
    try:
        C = catalogue(gfapy, g, held)
    except Exception as e:
        return ["build-failed: catalogue %s@%s" % (e.__class__.__name__, M.innermost_gfapy_frame(e))]
    if case["kind"] == "sweep":
        seq = list(range(len(C)))
        todo = [C[i] for i in seq]
    else:
        todo = None
    snap = snapshot(gfapy, g, held)
    foreign_seen = set()

    def do(name, thunk):
        nonlocal snap
        r1 = run_call(gfapy, name, thunk)
        s1 = snapshot(gfapy, g, held)
        r2 = run_call(gfapy, name, thunk)
        s2 = snapshot(gfapy, g, held)
        # objects handed out by the calls are new entries of `held`: compare only what existed before
        # (a snapshot between the two calls too: a change the second call undoes -- complementing twice -- must show)
        keys0 = {k for k, _ in snap}
        n0 = len(F)
        compare(F, v, name, snap, [(k, x) for k, x in s1 if k in keys0], where)
        if len(F) == n0:
            keys1 = {k for k, _ in s1}
            compare(F, v, name, s1, [(k, x) for k, x in s2 if k in keys1], where)
        if r1 != r2:
            if v == 0 and r1[0] == r2[0] == "ok" and M.canon_text(r1[1]) == M.canon_text(r2[1]):
                F.append("lazy-spelling: %s (%s) answered %s then %s" % (name, where, r1[1][:200], r2[1][:200]))
            else:
                F.append("answer-changes[%s]: (%s) first %s then %s" % (name, where, str(r1)[:300], str(r2)[:300]))
        for r in (r1, r2):
            if r[0] == "foreign" and r[1] not in foreign_seen:
                foreign_seen.add(r[1])
                F.append("foreign-exception[%s]: (%s) in %s" % (r[1], where, name))
        snap = s2

    if todo is not None:
        for name, thunk in todo:
            do(name, thunk)
        for name, thunk in value_entries(gfapy, held):
            do(name, thunk)
    else:
        fam = {}
        for name, thunk in C:
            fam.setdefault(family(name), []).append((name, thunk))
        fams = sorted(fam)
        for a, b in case["calls"]:
            V = value_entries(gfapy, held)
            if V and a % 4 == 0:
                name, thunk = V[b % len(V)]
            elif a % 4 == 3:
                # a clause of the property first (validation, cloning, searches, ...), then one of the distinct entries of
                # the clause, then one of the lines/objects it applies to: Gfa.validate is asked as often as the
                # validation of some field of some line
                byclause = {}
                for e in C + V:
                    byclause.setdefault(clause(e[0]), {}).setdefault(e[0], []).append(e)
                cl = sorted(byclause)
                names = byclause[cl[(a // 4) % len(cl)]]
                inst = names[sorted(names)[(b // 7) % len(names)]]
                name, thunk = inst[(b // 1009) % len(inst)]
            elif a % 4 == 1:
                # a family first, then one of its entries: the few entries of a group line are not drowned by the
                # many entries of the segments
                f = fam[fams[(a // 4) % len(fams)]]
                name, thunk = f[b % len(f)]
            else:
                name, thunk = C[b % len(C)]
            do(name, thunk)
    # the same continuation applied to the queried Gfa and to a twin that was never asked anything must give the same
    # document: a question that leaves a trace which only shows later (an entry created in a registry) is a modification.
    # Compared on the custom records only (their order among themselves): the open findings of this property
    # (lazy spelling, to_gfa2 assigning IDs) touch other lines.
    if ver == "gfa2":
        try:
            twin = gfapy.Gfa(vlevel=v, version=ver)
            for l in L:
                twin.add_line(l)
            for gg in (g, twin):
                for l in CONTINUATION:
                    gg.add_line(l)
            std = set("HSEFGOU#")
            # (at level 0 the texts are compared modulo the spelling of the delayed-parsing fields, which a read switches)
            cn = M.canon_text if v == 0 else (lambda t: t)
            a = [cn(str(x)) for x in g.lines if x.record_type not in std]
            b = [cn(str(x)) for x in twin.lines if x.record_type not in std]
            if a != b:
                F.append("future-differs[custom-records]: (%s) after the questions and then adding %r the Gfa writes %r, a twin "
                         "that was never asked writes %r" % (where, CONTINUATION, a, b))
        except gfapy.Error:
            pass
        except Exception as e:
            F.append("foreign-exception[%s]: (%s) in continuation" % (e.__class__.__name__, where))
    seen = set(); out = []
    for f in F:
        s = signature(case, f)
        if s not in seen:
            seen.add(s); out.append(f)
    return out
