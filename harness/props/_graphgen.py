"""Shared helper of C14-C17: generator of small assembly-like graphs (GFA1 and GFA2 flavours) and an
independent, text-level reader of GFA documents (tab splitting only; no gfapy object is consulted).

Generator (gen_graph): chains of 2-8 segments with every orientation mix, junctions of degree 2-4, dead ends,
cycles, self-links and hairpins (also on chain ends), several chains through one junction, parallel edges,
containments (both roles), internal alignments (GFA2), isolated segments; sequences (random ACGT, 4-12) or `*`
with LN/slen; overlaps `*`, kM, k= (GFA1 only: the GFA2 CIGAR alphabet is MDIP), k <= min(lengths)-1; count tags
RC/FC/KC sometimes (odd values too); a few bystander lines (P/O/U/G/F/H/#).  Every document is valid per the
specifications: a GFA2 dovetail A^o1 -> B^o2 with overlap k is written with the suffix of oriented A and the
prefix of oriented B, `$` exactly at position == segment length.  GFA1 never gets two L lines on the same pair of
segment ends unless both overlaps are specified and of different length (gfapy treats an unspecified overlap as
matching any: such a pair is one link written twice).

Reader (parse): segments, edges classified by geometry (C11's rule: whole interval on a side = containment;
an oriented suffix meeting an oriented prefix = dovetail; anything else internal), reference lists per line,
union-find components, end degrees, maximal chains.  visible_text drops the lines gfapy writes for its placeholders
(graphs under construction, C15); closure_failures(g, allow_virtual=True) tolerates those placeholders.
"""
import re
from harness import lib

INV = {"+": "-", "-": "+"}
OTHER_END = {"L": "R", "R": "L"}
COUNT_TAGS = ("RC", "FC", "KC")
_COMP = {"A": "T", "C": "G", "G": "C", "T": "A", "a": "t", "c": "g", "g": "c", "t": "a", "N": "N", "n": "n"}


def rc(seq):
    return "".join(_COMP[c] for c in reversed(seq))


def cigar_ops(c):
    return [(int(n), k) for n, k in re.findall(r"([0-9]+)([MIDNSHPX=])", c)]


def cut_of(ovl):
    """overlap length used when spelling: 0 for `*`, sum of M/= lengths; None if any other operation occurs"""
    if ovl == "*":
        return 0
    ops = cigar_ops(ovl)
    if not ops or any(k not in "M=" for _, k in ops):
        return None
    return sum(n for n, _ in ops)


def ovl_norm(ovl):
    """overlap up to the direction of reading (a match-only CIGAR read from the other side is its reverse)"""
    if ovl == "*":
        return "*"
    ops = tuple(cigar_ops(ovl))
    return min(ops, tuple(reversed(ops)))


# ================================================================================================ reader
class Doc(object):
    pass


def _tags(fields):
    d = {}
    order = []
    for f in fields:
        p = f.split(":", 2)
        if len(p) == 3:
            d[p[0]] = (p[1], p[2])
            order.append(p[0])
    return d, order


def _pos(s):
    if s.endswith("$"):
        return int(s[:-1]), True
    return int(s), False


def e_geometry(o1, fb1, le1, o2, fb2, le2):
    """fbN: the interval on side N begins at position 0; leN: it ends at the end of the segment.
    -> ('C', container_is_sid1) | ('L', end on sid1, end on sid2) | ('I',)"""
    w1 = fb1 and le1
    w2 = fb2 and le2
    if w1 or w2:
        return ("C", not (w1 and not w2))
    s1 = fb1 if o1 == "+" else le1      # interval touches the start of oriented sid1
    t1 = le1 if o1 == "+" else fb1      # ... its end
    s2 = fb2 if o2 == "+" else le2
    t2 = le2 if o2 == "+" else fb2
    if (t1 and s2) or (s1 and t2):
        return ("L", "L" if fb1 else "R", "L" if fb2 else "R")
    return ("I",)


def parse(text, version=None, dollar=False):
    """text: str or list of lines.  dollar=True reads `$` as 'this is the end of the segment' whatever the number
    (what gfapy does); default is the specification's reading (position == segment length)."""
    lines = text.split("\n") if isinstance(text, str) else list(text)
    lines = [l for l in lines if l != ""]
    d = Doc()
    d.lines = lines
    if version is None:
        version = "gfa1"
        for l in lines:
            f = l.split("\t")
            if f[0] in "EGFOU" or (f[0] == "S" and len(f) > 3 and re.match(r"^[0-9]+$", f[2])) \
                    or (f[0] == "H" and "VN:Z:2.0" in f):
                version = "gfa2"
                break
    d.version = version
    d.segs = {}
    d.seg_order = []
    d.dup_names = []
    d.edges = []
    d.others = []
    d.recs = []            # every line: dict(idx, rt, line, refs, name)
    names_seen = set()
    for idx, l in enumerate(lines):
        f = l.split("\t")
        rt = f[0]
        rec = {"idx": idx, "rt": rt, "line": l, "refs": [], "name": None}
        if rt == "S":
            if version == "gfa1":
                tg, order = _tags(f[3:])
                seq = None if f[2] == "*" else f[2]
                ln = int(tg["LN"][1]) if "LN" in tg else (len(seq) if seq is not None else None)
                s = {"name": f[1], "seq": seq, "len": ln, "tags": tg, "tag_order": order, "line": l, "idx": idx,
                     "ln_tag": int(tg["LN"][1]) if "LN" in tg else None}
            else:
                tg, order = _tags(f[4:])
                s = {"name": f[1], "seq": None if f[3] == "*" else f[3], "len": int(f[2]), "tags": tg,
                     "tag_order": order, "line": l, "idx": idx, "ln_tag": None}
            if f[1] in d.segs:
                d.dup_names.append(f[1])
            d.segs[f[1]] = s
            d.seg_order.append(f[1])
            rec["name"] = f[1]
        elif rt in ("L", "C") and version == "gfa1":
            tg, order = _tags(f[(7 if rt == "C" else 6):])
            e = {"idx": idx, "rt": rt, "eid": tg["ID"][1] if "ID" in tg else None, "a": f[1], "oa": f[2], "b": f[3],
                 "ob": f[4], "ovl": f[6] if rt == "C" else f[5], "tags": tg, "tag_order": order, "line": l,
                 "valid": True, "pos": f[5] if rt == "C" else None}
            if rt == "L":
                e["kind"] = "L"
                e["ends"] = ((f[1], "R" if f[2] == "+" else "L"), (f[3], "L" if f[4] == "+" else "R"))
            else:
                e["kind"] = "C"
                e["container"], e["contained"] = f[1], f[3]
            e["cut"] = cut_of(e["ovl"])
            d.edges.append(e)
            rec["refs"] = [f[1], f[3]]
            rec["name"] = e["eid"]
            rec["edge"] = e
        elif rt == "E":
            tg, order = _tags(f[9:])
            a, oa, b, ob = f[2][:-1], f[2][-1], f[3][:-1], f[3][-1]
            e = {"idx": idx, "rt": "E", "eid": None if f[1] == "*" else f[1], "a": a, "oa": oa, "b": b, "ob": ob,
                 "ovl": f[8], "tags": tg, "tag_order": order, "line": l, "coords": f[4:8], "pos": None}
            e["cut"] = cut_of(e["ovl"])
            d.edges.append(e)
            rec["refs"] = [a, b]
            rec["name"] = e["eid"]
            rec["edge"] = e
        elif rt == "G":
            rec["refs"] = [f[2][:-1], f[3][:-1]]
            rec["name"] = None if f[1] == "*" else f[1]
        elif rt == "F":
            rec["refs"] = [f[1]]
        elif rt == "P":
            rec["refs"] = [x[:-1] for x in f[2].split(",")]
            rec["name"] = f[1]
        elif rt == "O":
            rec["refs"] = [x[:-1] for x in f[2].split(" ")]
            rec["items"] = [(x[:-1], x[-1]) for x in f[2].split(" ")]
            rec["name"] = None if f[1] == "*" else f[1]
        elif rt == "U":
            rec["refs"] = f[2].split(" ")
            rec["name"] = None if f[1] == "*" else f[1]
        d.recs.append(rec)
        if rt != "S" and "edge" not in rec:
            d.others.append(rec)
    # second pass: geometry of E lines (needs the segment lengths)
    for e in d.edges:
        if e["rt"] != "E":
            continue
        sa, sb = d.segs.get(e["a"]), d.segs.get(e["b"])
        if sa is None or sb is None:
            e["kind"] = None
            e["valid"] = False
            continue
        (b1, d1), (e1, d2), (b2, d3), (e2, d4) = [_pos(x) for x in e["coords"]]
        n1, n2 = sa["len"], sb["len"]
        e["valid"] = (0 <= b1 <= e1 <= n1 and 0 <= b2 <= e2 <= n2 and d1 == (b1 == n1) and d2 == (e1 == n1)
                      and d3 == (b2 == n2) and d4 == (e2 == n2))
        if dollar:
            # gfapy's reading: a `$` position is the end of the segment, a position without `$` is not
            geo = e_geometry(e["oa"], b1 == 0, d2, e["ob"], b2 == 0, d4)
        else:
            geo = e_geometry(e["oa"], b1 == 0, e1 == n1, e["ob"], b2 == 0, e2 == n2)
        e["kind"] = geo[0]
        if geo[0] == "L":
            e["ends"] = ((e["a"], geo[1]), (e["b"], geo[2]))
        elif geo[0] == "C":
            e["container"], e["contained"] = (e["a"], e["b"]) if geo[1] else (e["b"], e["a"])
    d.dovetails = [e for e in d.edges if e["kind"] == "L"]
    d.containments = [e for e in d.edges if e["kind"] == "C"]
    d.internals = [e for e in d.edges if e["kind"] == "I"]
    return d


def closed(d):
    """every reference of every line names a line of the document (segments for edge-like lines)"""
    ids = set(d.segs)
    for r in d.recs:
        if r["name"]:
            ids.add(r["name"])
    for r in d.recs:
        pool = d.segs if r["rt"] in "LCEGFP" else ids
        for x in r["refs"]:
            if x not in pool:
                return False
    return True


def degrees(d):
    deg = {}
    for s in d.segs:
        deg[(s, "L")] = 0
        deg[(s, "R")] = 0
    for e in d.dovetails:
        for end in e["ends"]:
            deg[end] = deg.get(end, 0) + 1
    return deg


def components(d, names=None):
    """classes of 'joined by a chain of dovetails' as a set of frozensets of segment names"""
    parent = {s: s for s in (names if names is not None else d.segs)}

    def find(x):
        while parent[x] != x:
            parent[x] = parent[parent[x]]
            x = parent[x]
        return x
    for e in d.dovetails:
        a, b = e["ends"][0][0], e["ends"][1][0]
        if a in parent and b in parent:
            ra, rb = find(a), find(b)
            if ra != rb:
                parent[ra] = rb
    cls = {}
    for s in parent:
        cls.setdefault(find(s), set()).add(s)
    return set(frozenset(c) for c in cls.values())


def chains(d):
    """maximal chains of segment ends joined by dovetails that are the only dovetail on BOTH joined ends.
    -> (paths, cycles, joins): a path/cycle is a list of (segment, 'R'|'L') in gfapy's notation (R = the member
    is traversed forward, L = reverse-complemented); joins maps frozenset({end, end}) -> edge for usable joins."""
    deg = degrees(d)
    nxt = {}
    joins = {}
    for e in d.dovetails:
        x, y = e["ends"]
        if x[0] != y[0] and deg[x] == 1 and deg[y] == 1:
            nxt[x] = y
            nxt[y] = x
            joins[frozenset((x, y))] = e
    paths, cycles, seen = [], [], set()
    for s in d.seg_order:
        if s in seen or ((s, "L") not in nxt and (s, "R") not in nxt):
            continue
        # walk to the left as far as possible
        cur, entered = s, "R"      # pretend we entered s by its R end and leave by L
        start = None
        visited = {s}
        is_cycle = False
        while True:
            out = (cur, OTHER_END[entered])
            if out not in nxt:
                start = (cur, entered)   # cur is the leftmost member; traversal leaves it by `entered`
                break
            n = nxt[out]
            if n[0] in visited:
                is_cycle = True
                break
            visited.add(n[0])
            cur, entered = n[0], n[1]
        if is_cycle:
            start = (s, "R")
        # walk to the right from start, collecting (segment, exit end)
        path = []
        cur, exit_end = start
        while True:
            path.append((cur, exit_end))
            seen.add(cur)
            out = (cur, exit_end)
            if out not in nxt:
                break
            n = nxt[out]
            if n[0] in seen:
                break
            cur, exit_end = n[0], OTHER_END[n[1]]
        if is_cycle:
            cycles.append(path)
        elif len(path) >= 2:
            paths.append(path)
    return paths, cycles, joins


def rev_path(p):
    return [(s, OTHER_END[e]) for s, e in reversed(p)]


def path_key(p):
    a, b = tuple(map(tuple, p)), tuple(map(tuple, rev_path(p)))
    return min(a, b)


def cycle_key(p):
    best = None
    for q in (list(p), rev_path(p)):
        for i in range(len(q)):
            r = tuple(map(tuple, q[i:] + q[:i]))
            if best is None or r < best:
                best = r
    return best


def touching(d, seeds):
    """indices of the lines that mention (directly or through other lines' identifiers) a segment of `seeds`"""
    hot = set(seeds)
    idxs = set()
    changed = True
    while changed:
        changed = False
        for r in d.recs:
            if r["idx"] in idxs:
                continue
            if (r["rt"] == "S" and r["name"] in seeds) or any(x in hot for x in r["refs"]):
                idxs.add(r["idx"])
                if r["name"] and r["rt"] != "S" and r["name"] not in hot:
                    hot.add(r["name"])
                changed = True
    return idxs


def multiset(xs):
    m = {}
    for x in xs:
        m[x] = m.get(x, 0) + 1
    return m


def lib_path(p):
    """a gfapy SegmentEndsPath as [(name, end)]"""
    return [(str(x.name), str(x.end_type)) for x in p]


# ================================================================================================ lib-level closure
VIRTUAL_MARK = "\tco:Z:GFAPY_virtual_line"


def visible_text(text):
    """the written text without the lines gfapy writes for its placeholders (virtual lines: a segment or link that is
    mentioned by another line but has not arrived; they are written with the tag co:Z:GFAPY_virtual_line)"""
    return "\n".join(l for l in text.split("\n") if not l.endswith(VIRTUAL_MARK) and (VIRTUAL_MARK + "\t") not in l)


def closure_failures(g, allow_virtual=False):
    """every line's references are lines of g, and every back-reference is mirrored (public API only).
    allow_virtual=True: for graphs that legitimately hold references to lines which have not arrived (placeholders
    are then not reported; references to lines outside the Gfa and one-sided back-references still are)"""
    gfapy = lib.import_gfapy()
    F = []
    lines = g.lines
    ids = set(id(l) for l in lines)

    def chk(owner, ref, what):
        if isinstance(ref, gfapy.OrientedLine):
            ref = ref.line
        if isinstance(ref, gfapy.Line):
            if id(ref) not in ids or ref.gfa is not g:
                F.append("dangling-reference: %s of %r is not a line of the Gfa: %r" % (what, str(owner), str(ref)))
            elif ref.virtual and not allow_virtual:
                F.append("virtual-line: %s of %r is virtual: %r" % (what, str(owner), str(ref)))
        elif isinstance(ref, str):
            F.append("unresolved-reference: %s of %r is the string %r" % (what, str(owner), ref))
    for l in lines:
        rt = l.record_type
        if l.virtual and not allow_virtual:
            F.append("virtual-line: %r" % str(l))
        if rt in ("L", "C"):
            chk(l, l.from_segment, "from"); chk(l, l.to_segment, "to")
        elif rt in ("E", "G"):
            chk(l, l.sid1, "sid1"); chk(l, l.sid2, "sid2")
        elif rt == "F":
            chk(l, l.sid, "sid")
        elif rt == "P":
            for x in l.segment_names:
                chk(l, x, "segment_names")
        elif rt in ("O", "U"):
            for x in l.items:
                chk(l, x, "items")
        elif rt == "S":
            for coll in lib.BACKREF_COLLS["S"]:
                for x in getattr(l, coll):
                    chk(l, x, coll)
                    if isinstance(x, gfapy.Line) and x.record_type in ("L", "C", "E", "G"):
                        a, b = (x.from_segment, x.to_segment) if x.record_type in "LC" else (x.sid1.line, x.sid2.line)
                        if a is not l and b is not l:
                            F.append("asymmetric-backreference: %s.%s holds %r" % (l.name, coll, str(x)))
    return F


# ================================================================================================ generator
NAME_POOL = list("ABCDEFGHIJKLMNOPQRSTUVWXYZ") + ["s1", "s2", "10", "11", "x7", "ctg3"]
STAR_NAMES = ["A*2", "B*3", "A*3", "C*2", "x*10"]
COUNT_VALUES = [0, 1, 2, 3, 5, 7, 10, 11, 25, 100, 101]


def _seq(rng, n):
    return "".join(rng.choice("ACGT") for _ in range(n))


def gen_graph(rng, tier="quick", version=None, max_segs=None, star_names=False, extras=True, named_edges=None,
              counts=None, shuffle=None, min_segs=1):
    """-> {"version": ..., "lines": [...]} (JSON-serialisable)"""
    version = version or rng.choice(["gfa1", "gfa2"])
    v1 = version == "gfa1"
    maxn = max_segs or (10 if tier == "quick" else 30)
    n = max(min_segs, rng.choice([1, 2, 2, 3, 3, 4, 4, 5, 5, 6, 6, 7, 8, 9, 10] + ([12, 15, 20, 25, 30] if maxn > 10 else [])))
    n = min(n, maxn)
    pool = list(NAME_POOL)
    if star_names:
        pool = STAR_NAMES + pool
        head = pool[:8]; rng.shuffle(head); names = head[:n] + pool[8:n]
        names = names[:n]
    else:
        head = pool[:max(n, 6)]; rng.shuffle(head); names = head[:n]
    mode = rng.choice(["seq"] * 11 + ["star"] * 7 + ["mixed"] * 1 + (["noln"] if v1 else []))
    if counts is None:
        counts = rng.random() < 0.4
    if named_edges is None:
        named_edges = rng.choice([0.0, 0.0, 0.3, 1.0])
    segs = []
    for nm in names:
        ln = rng.randint(4, 12)
        has_seq = mode == "seq" or (mode == "mixed" and rng.random() < 0.6)
        s = {"name": nm, "len": ln, "seq": _seq(rng, ln) if has_seq else None,
             "ln_known": not (mode == "noln" and rng.random() < 0.5), "tags": []}
        if counts:
            for t in COUNT_TAGS:
                if rng.random() < 0.5:
                    s["tags"].append("%s:i:%d" % (t, rng.choice(COUNT_VALUES)))
        if rng.random() < 0.15:
            s["tags"].append(rng.choice(["xx:Z:foo", "ab:i:3", "zz:f:1.5"]))
        segs.append(s)
    S = {s["name"]: s for s in segs}

    def L(nm):
        s = S[nm]
        return s["len"] if (s["seq"] is not None or s["ln_known"] or not v1) else None

    doves = []           # dict(x=(seg,end), y=(seg,end), ovl=str, k=int|None)
    deg = {}
    pairs = {}           # unordered end pair -> list of k (None for *)

    def add_dove(x, y, force_spec=False):
        if deg.get(x, 0) + (2 if x == y else 1) > 4 or deg.get(y, 0) + 1 > 4:
            return False
        la, lb = L(x[0]), L(y[0])
        maxk = min(la if la is not None else 4, lb if lb is not None else 4) - 1
        key = tuple(sorted((x, y)))
        prev = pairs.get(key, [])
        star = rng.random() < 0.3 and not force_spec
        if v1 and prev:
            if None in prev:
                return False
            star = False
        if star:
            k, ovl = None, "*"
        else:
            cand = [c for c in range(1, maxk + 1) if not (v1 and c in prev)]
            if not cand:
                return False
            k = rng.choice(cand)
            r = rng.random()
            if v1 and r < 0.3:
                ovl = "%d=" % k
            elif k >= 2 and r < 0.4:
                j = rng.randint(1, k - 1)
                ovl = "%dM%dM" % (j, k - j)
            else:
                ovl = "%dM" % k
        pairs.setdefault(key, []).append(k)
        deg[x] = deg.get(x, 0) + 1
        deg[y] = deg.get(y, 0) + 1
        doves.append({"x": x, "y": y, "ovl": ovl, "k": k})
        return True

    # ---- blocks
    remaining = list(names)
    chains_, junctions, isolated = [], [], []
    while remaining:
        r = rng.random()
        if len(remaining) >= 2 and r < 0.6:
            ln = rng.randint(2, min(8, len(remaining)))
            members = [(remaining.pop(0), rng.choice("+-")) for _ in range(ln)]
            chains_.append(members)
        elif r < 0.85:
            junctions.append(remaining.pop(0))
        else:
            isolated.append(remaining.pop(0))
    outer = []
    for ch in chains_:
        for (a, oa), (b, ob) in zip(ch, ch[1:]):
            add_dove((a, "R" if oa == "+" else "L"), (b, "L" if ob == "+" else "R"))
        first, last = ch[0], ch[-1]
        outer.append(((first[0], "L" if first[1] == "+" else "R"), (last[0], "R" if last[1] == "+" else "L")))
    all_ends = [(nm, e) for nm in names for e in "LR"]
    j_ends = [(nm, e) for nm in junctions for e in "LR"]
    n_wire = rng.randint(0, n + 2)
    for _ in range(n_wire):
        act = rng.random()
        if act < 0.30 and outer:
            o = rng.choice(outer)
            x = rng.choice(o)
            y = rng.choice(j_ends) if (j_ends and rng.random() < 0.7) else rng.choice(all_ends)
            add_dove(x, y)
        elif act < 0.45 and outer:
            o = rng.choice(outer)
            add_dove(o[1], o[0])                         # close a chain into a cycle
        elif act < 0.55:
            nm = rng.choice(names)
            add_dove((nm, "R"), (nm, "L"))               # circular self-link
        elif act < 0.66:
            x = rng.choice(rng.choice(outer)) if (outer and rng.random() < 0.6) else rng.choice(all_ends)
            add_dove(x, x)                               # hairpin
        elif act < 0.78 and doves:
            dv = rng.choice(doves)
            add_dove(dv["x"], dv["y"], force_spec=v1)    # parallel edge
        else:
            add_dove(rng.choice(all_ends), rng.choice(all_ends))
    # ---- containments / internals
    conts, ints = [], []
    if n >= 2:
        for _ in range(rng.choice([0, 0, 0, 1, 1, 2])):
            a, b = rng.sample(names, 2)
            la, lb = L(a), L(b)
            if la is not None and lb is not None:
                if la == lb:
                    continue
                if la < lb:
                    a, b, la, lb = b, a, lb, la
                conts.append({"container": a, "contained": b, "o1": rng.choice("+-"), "o2": rng.choice("+-"),
                              "pos": rng.randint(0, la - lb), "ovl": rng.choice(["*", "%dM" % lb])})
            else:
                conts.append({"container": a, "contained": b, "o1": rng.choice("+-"), "o2": rng.choice("+-"),
                              "pos": 0, "ovl": "*"})
    if not v1:
        for _ in range(rng.choice([0, 0, 0, 1, 1, 2])):
            a, b = rng.choice(names), rng.choice(names)
            la, lb = S[a]["len"], S[b]["len"]
            b1 = rng.randint(1, la - 2); e1 = rng.randint(b1, la - 1)
            kind = rng.choice(["inner", "pfx", "sfx"])
            if kind == "inner":
                b2 = rng.randint(1, lb - 2); e2 = rng.randint(b2, lb - 1)
            elif kind == "pfx":
                b2, e2 = 0, rng.randint(0, lb - 1)
            else:
                b2, e2 = rng.randint(1, lb), lb
            ints.append({"a": a, "b": b, "oa": rng.choice("+-"), "ob": rng.choice("+-"), "iv": (b1, e1, b2, e2),
                         "swap": rng.random() < 0.5})

    # ---- rendering
    def etags(kinds):
        t = []
        if counts:
            for c in kinds:
                if rng.random() < 0.5:
                    t.append("%s:i:%d" % (c, rng.choice(COUNT_VALUES)))
        if rng.random() < 0.1:
            t.append("zz:i:%d" % rng.randint(0, 9))
        return t
    lines_s, lines_e, lines_x = [], [], []
    for s in segs:
        if v1:
            f = ["S", s["name"], s["seq"] if s["seq"] is not None else "*"]
            if s["seq"] is None:
                if s["ln_known"]:
                    f.append("LN:i:%d" % s["len"])
            elif rng.random() < 0.4:
                f.append("LN:i:%d" % s["len"])
        else:
            f = ["S", s["name"], str(s["len"]), s["seq"] if s["seq"] is not None else "*"]
        lines_s.append("\t".join(f + s["tags"]))
    ecount = [0]

    def eid():
        if rng.random() < named_edges:
            ecount[0] += 1
            return "e%d" % ecount[0]
        return "*"

    def p(x, n):
        return "%d$" % x if x == n else str(x)
    dove_text = []
    for dv in doves:
        (a, ea), (b, eb) = dv["x"], dv["y"]
        if rng.random() < 0.5:
            (a, ea), (b, eb) = (b, eb), (a, ea)
        oa = "+" if ea == "R" else "-"
        ob = "+" if eb == "L" else "-"
        if v1:
            f = ["L", a, oa, b, ob, dv["ovl"]] + etags(COUNT_TAGS)
            if named_edges and rng.random() < 0.15:
                ecount[0] += 1
                f.append("ID:Z:l%d" % ecount[0])
            t = "\t".join(f)
        else:
            la, lb = S[a]["len"], S[b]["len"]
            k = dv["k"]
            if k is None:
                k = 0 if rng.random() < 0.85 else rng.randint(1, min(la, lb) - 1)
            iva = (la - k, la) if ea == "R" else (0, k)
            ivb = (0, k) if eb == "L" else (lb - k, lb)
            form = rng.randrange(4)
            x1, x2 = (a, oa, iva, la), (b, ob, ivb, lb)
            if form & 1:       # the same adjacency read from the other strand
                x1, x2 = (b, INV[ob], ivb, lb), (a, INV[oa], iva, la)
            if form & 2:       # sid1/sid2 exchanged (E lines are symmetric for match-only alignments)
                x1, x2 = x2, x1
            t = "\t".join(["E", eid(), x1[0] + x1[1], x2[0] + x2[1], p(x1[2][0], x1[3]), p(x1[2][1], x1[3]),
                           p(x2[2][0], x2[3]), p(x2[2][1], x2[3]), dv["ovl"]] + etags(COUNT_TAGS))
        dove_text.append((dv, a, oa, b, ob, t))
        lines_e.append(t)
    for c in conts:
        if v1:
            f = ["C", c["container"], c["o1"], c["contained"], c["o2"], str(c["pos"]), c["ovl"]] + etags(("RC",))
            lines_e.append("\t".join(f))
        else:
            la, lb = S[c["container"]]["len"], S[c["contained"]]["len"]
            x1 = (c["container"] + c["o1"], p(c["pos"], la), p(c["pos"] + lb, la))
            x2 = (c["contained"] + c["o2"], "0", p(lb, lb))
            if rng.random() < 0.5:
                x1, x2 = x2, x1
            lines_e.append("\t".join(["E", eid(), x1[0], x2[0], x1[1], x1[2], x2[1], x2[2], c["ovl"]] + etags(COUNT_TAGS)))
    for it in ints:
        la, lb = S[it["a"]]["len"], S[it["b"]]["len"]
        b1, e1, b2, e2 = it["iv"]
        x1 = (it["a"] + it["oa"], p(b1, la), p(e1, la))
        x2 = (it["b"] + it["ob"], p(b2, lb), p(e2, lb))
        if it["swap"]:
            x1, x2 = x2, x1
        lines_e.append("\t".join(["E", eid(), x1[0], x2[0], x1[1], x1[2], x2[1], x2[2], "*"] + etags(("RC",))))
    if extras:
        single = [d_ for d_ in dove_text if len(pairs[tuple(sorted((d_[0]["x"], d_[0]["y"])))]) == 1]
        if v1:
            if single and rng.random() < 0.35:
                dv, a, oa, b, ob, t = rng.choice(single)
                lines_x.append("P\tp1\t%s%s,%s%s\t%s" % (a, oa, b, ob, rng.choice(["*", dv["ovl"]])))
        else:
            if single and rng.random() < 0.3:
                dv, a, oa, b, ob, t = rng.choice(single)
                if dv["x"] != dv["y"] and sum(1 for d_ in dove_text if set((d_[1], d_[3])) == set((a, b))) == 1 \
                        and not any(set((c["container"], c["contained"])) == set((a, b)) for c in conts) \
                        and not any(set((i["a"], i["b"])) == set((a, b)) for i in ints):
                    lines_x.append("O\to1\t%s%s %s%s" % (a, oa, b, ob))
            if rng.random() < 0.3:
                lines_x.append("U\tu1\t" + " ".join(rng.sample(names, rng.randint(1, min(3, n)))))
            if rng.random() < 0.2:
                a, b = rng.choice(names), rng.choice(names)
                lines_x.append("G\t%s\t%s%s\t%s%s\t%d\t*" % (rng.choice(["*", "g1"]), a, rng.choice("+-"), b,
                                                            rng.choice("+-"), rng.randint(1, 50)))
            if rng.random() < 0.2:
                a = rng.choice(names)
                lines_x.append("F\t%s\tread1+\t0\t%d\t0\t%d\t*" % (a, min(3, S[a]["len"] - 1), min(3, S[a]["len"] - 1)))
        if rng.random() < 0.25:
            lines_x.append("H\tVN:Z:%s" % ("1.0" if v1 else "2.0"))
        if rng.random() < 0.15:
            lines_x.append("# a comment")
    rest = lines_e + lines_x
    if shuffle is None:
        shuffle = rng.random() < 0.25
    if shuffle:
        rng.shuffle(rest)
        if rng.random() < 0.4 and not v1:
            allv = lines_s + rest
            rng.shuffle(allv)
            return {"version": version, "lines": allv}
    return {"version": version, "lines": lines_s + rest}


def build(case, vlevel=1):
    gfapy = lib.import_gfapy()
    g = gfapy.Gfa(version=case["version"], vlevel=vlevel)
    for l in case["lines"]:
        g.add_line(l)
    return g


def features(d):
    """generator-distribution labels of a parsed document"""
    t = [d.version, "n%d" % min(len(d.segs), 10) if len(d.segs) <= 10 else "n>10"]
    paths, cycles, joins = chains(d)
    deg = degrees(d)
    if paths:
        t.append("chain")
        t.append("chainlen%d" % max(len(p_) for p_ in paths))
        if any(e == "L" for p_ in paths for _, e in p_) and any(e == "R" for p_ in paths for _, e in p_):
            t.append("mixed-orient")
    if cycles:
        t.append("cycle")
    if any(e["ends"][0] == e["ends"][1] for e in d.dovetails):
        t.append("hairpin")
    if any(e["ends"][0] != e["ends"][1] and e["ends"][0][0] == e["ends"][1][0] for e in d.dovetails):
        t.append("selflink")
    if any(v >= 3 for v in deg.values()):
        t.append("junction3+")
    if any(v == 0 for v in deg.values()):
        t.append("deadend")
    if d.containments:
        t.append("containment")
    if d.internals:
        t.append("internal")
    seen = {}
    for e in d.dovetails:
        k = tuple(sorted(e["ends"]))
        seen[k] = seen.get(k, 0) + 1
    if any(v > 1 for v in seen.values()):
        t.append("parallel")
    if any(s["seq"] is None for s in d.segs.values()):
        t.append("noseq")
    if any(c in s["tags"] for s in d.segs.values() for c in COUNT_TAGS):
        t.append("counts")
    return t


# ================================================================================================ shrinking
def shrink_lines(case, failure, oracle, signature, key="lines", max_runs=150):
    """greedy line removal keeping the failure signature (a removed S line takes the lines mentioning it along)"""
    sig = signature(case, failure)
    runs = [0]

    def still(c):
        runs[0] += 1
        try:
            return any(signature(c, f) == sig for f in (oracle(c) or []))
        except Exception:
            return False
    cur = dict(case)
    progress = True
    while progress and runs[0] < max_runs:
        progress = False
        lines = cur[key]
        order = [i for i, l in enumerate(lines) if not l.startswith("S")] + [i for i, l in enumerate(lines) if l.startswith("S")]
        for i in order:
            if runs[0] >= max_runs:
                break
            l = lines[i]
            drop = {i}
            if l.startswith("S"):
                try:
                    d = parse(lines, cur.get("version"))
                    drop = touching(d, {l.split("\t")[1]})
                except Exception:
                    continue
            cand = dict(cur)
            cand[key] = [x for j, x in enumerate(lines) if j not in drop]
            if not cand[key]:
                continue
            if still(cand):
                cur = cand
                progress = True
                break
    return cur
