"""C04 — validation accepts exactly the documents the GFA grammar allows (oracle + generators).

The recogniser is harness/props/_misc.py (line_verdict / doc_verdict), written from the GFA1/GFA2
specifications and the tables of /repo/doc/tutorial; it is three-valued and this module only uses the
clear-cut verdicts.

NOT CHECKED (the recogniser answers None = "debatable", the case is skipped):
  * scalar JSON (`xx:J:1`, `xx:J:"a"`) and the non-standard literals NaN/Infinity inside JSON;
  * an empty tag value (`xx:Z:`): SAM/GFA1 say non-empty, GFA2 writes `[ -~]*`;
  * `+` sign and negative values on GFA2 positional integers (slen, disp, var), negative LN;
  * `-0` inside an unsigned B array; one-element or negative GFA2 traces;
  * predefined tags on which specification, documentation table and library tables differ
    (RC/MQ on C lines, TS on a GFA1 header, RC/FC/KC/SH/UR/TS on GFA2 segments, VN on F lines);
  * GFA2 custom records (any content), records L/C/P inside GFA2, W lines;
  * P lines whose names field is only ambiguous (`A+,=B+`), paths whose links are not written;
  * duplicate identifiers / duplicate lines (C09/C12), empty lines in the middle of a document;
  * in E/F lines: a last position written without `$`, positions beyond the segment's end, `5$ 7`
    or `5$ 6$` without the segment at hand (a lone line; the fragment-side interval of an F line),
    segments whose sequence length differs from slen;
  * the kind of line an O-group item refers to; what a valid O group must be connected by;
  * which *class* of gfapy.Error is raised, and whether a line is refused at construction or only by
    validate() (both are allowed by the property).
A foreign (non gfapy.Error) exception is reported under `foreign-exception` (C07 owns its diagnosis).

`$` ONLY ON A SEGMENT'S LAST POSITION is judged for *each of the four* segment positions of an E line and both
segment positions of an F line, begin positions included: the line-level recogniser leaves `5$ 7` and `5$ 10$`
open ("dollar-beg-only", "two-last-positions") because a lone line cannot say where the segment ends; in a
document the segment is at hand and doc_verdict() below settles it (rule `dollar`, or `dollar-slen` - the open
known finding - when the segment's sequence is `*`).  Inputs that exercise the rule:
  * CROSS: every pair begin/end out of {0, mid, last, beyond} x {with `$`, without} on either side of an E line
    and on an F line, over segments with a sequence and with `*`, non-self and self edges, E before and after S;
  * random kind "posdoc": a GFA2 document of 2-3 segments (mostly with a sequence) and 1-3 E/F lines (self-edges,
    both orientations, any order of the lines) whose position pairs are drawn position by position from
    {0, inner, last-1, last, last+1} with the `$` mark right / missing / misplaced on the begin, on the end or on
    both; it is offered as a text (Gfa(text)) or line by line (Gfa() + add_line), then validate() of the Gfa and of
    each line.
"""
import itertools
from harness import lib
from harness.props import _misc as M

ID = "C04"
RULE = ("exhaustive: every string of length <=3 (quick) / <=4 (thorough) over a per-datatype alphabet of class "
        "representatives, offered as the value of a tag of each of the 7 datatypes and in each kind of positional field, "
        "levels 1-3; every single-point mutation (delete / insert / replace a character, drop / duplicate a field or a "
        "line) of 25 valid lines covering all record types and of 3 small valid documents (GFA1, GFA2, rGFA), with the "
        "version given and inferred; hand-enumerated probes of the cross-field rules, among them every placement of `$` on "
        "the begin and end positions of E and F lines against segments with and without a sequence; random: "
        "grammar-generated lines and documents with one or two random mutations, and GFA2 documents whose E/F "
        "intervals carry `$` marks on right and wrong positions (built from a text or line by line). "
        "Non-trivial: the independent recogniser gives a clear-cut verdict for at least one offered string.")

# ---------------------------------------------------------------------------------------------------- alphabets
TAG_ALPHA = {
    "i": ["0", "9", "+", "-", "_", " ", "a"],
    "f": ["0", "9", "+", "-", ".", "e", "_", " ", "n"],
    "A": ["a", "~", "!", " ", "\x7f", "0"],
    "Z": ["a", " ", "~", "!", "\x7f", "\x1f", "é"],
    "H": ["0", "9", "A", "F", "a", "G", " "],
    "J": ["[", "]", "{", "}", "\"", "1", "a", ",", ":", " "],
    "B": ["c", "C", "f", ",", "1", "-", "9", ".", " "],
}
# positional contexts: name -> (version, template with %s, alphabet)
POS_CTX = {
    "name1": ("gfa1", "S\t%s\t*", ["A", "1", "+", "-", ",", "*", "=", " ", "\x7f"]),
    "seq1": ("gfa1", "S\tA\t%s", ["A", "z", "*", "=", ".", "1", "-", " "]),
    "orient": ("gfa1", "L\tA\t%s\tB\t+\t*", ["+", "-", "*", "A", " "]),
    "cigar1": ("gfa1", "L\tA\t+\tB\t-\t%s", ["1", "0", "M", "X", "=", "*", ",", "-", "Z"]),
    "pos1": ("gfa1", "C\tA\t+\tB\t-\t%s\t*", ["0", "9", "+", "-", "_", " ", "a", "$"]),
    "pathnames": ("gfa1", "P\tp\t%s\t*", ["A", "+", "-", ",", "=", " "]),
    "pathovl": ("gfa1", "P\tp\tA+,B+,C+\t%s", ["1", "M", "*", ",", "Z", " "]),
    "id2": ("gfa2", "S\t%s\t1\t*", ["A", "1", "+", "*", " ", "~", "\x7f"]),
    "slen": ("gfa2", "S\tA\t%s\t*", ["0", "9", "+", "-", "_", " ", "a"]),
    "seq2": ("gfa2", "S\tA\t3\t%s", ["A", "*", "1", "!", " ", "\x7f"]),
    "optid2": ("gfa2", "E\t%s\tA+\tB-\t0\t1\t0\t1\t*", ["e", "*", "1", "+", " "]),
    "ref2": ("gfa2", "E\t*\t%s\tB-\t0\t1\t0\t1\t*", ["A", "+", "-", "1", " ", "*"]),
    "pos2": ("gfa2", "E\t*\tA+\tB-\t%s\t99999\t0\t1\t*", ["0", "9", "$", "+", "-", "_", " ", "a"]),
    "aln2": ("gfa2", "E\t*\tA+\tB-\t0\t1\t0\t1\t%s", ["1", "0", "M", "P", "X", ",", "*", "-", " "]),
    "disp": ("gfa2", "G\t*\tA+\tB-\t%s\t*", ["0", "9", "+", "-", "_", " ", "a"]),
    "var": ("gfa2", "G\t*\tA+\tB-\t1\t%s", ["0", "9", "+", "-", "*", "_", " "]),
    "itemsO": ("gfa2", "O\t*\t%s", ["A", "+", "-", " ", "1"]),
    "itemsU": ("gfa2", "U\t*\t%s", ["A", "+", " ", "1", "*"]),
}

BASE_LINES = [
    ("gfa1", "H\tVN:Z:1.0"),
    ("gfa1", "H\txx:i:-12\tyy:f:1.5e-3\tzz:Z:a b\taa:A:x\tbb:J:{\"a\":[1,\"b\"]}\tcc:H:0AF1\tdd:B:c,-1,2\tee:B:f,1.0,.5"),
    ("gfa1", "S\tA\tACGT\tLN:i:4\tRC:i:10\tSH:H:AB\tUR:Z:x/y"),
    ("gfa1", "S\t1\t*\tLN:i:7"),
    ("gfa1", "L\tA\t+\t1\t-\t2M1I\tMQ:i:3\tID:Z:l1"),
    ("gfa1", "L\tA\t-\tA\t-\t*"),
    ("gfa1", "C\tA\t+\t1\t-\t1\t2M\tID:Z:c1"),
    ("gfa1", "P\tp1\tA+,1-\t2M1I"),
    ("gfa1", "P\tp2\tA+,1-,A-\t*"),
    ("gfa1", "P\tp3\tA+\t*"),
    ("gfa1", "P\tp4\tA+,1-\t2M,1M"),
    ("gfa1", "# comment\twith tab"),
    ("gfa2", "H\tVN:Z:2.0\tTS:i:10"),
    ("gfa2", "S\tA\t4\tACGT\txx:i:1"),
    ("gfa2", "S\tB\t7\t*"),
    ("gfa2", "E\te1\tA+\tB-\t2\t4$\t0\t3\t2M1I"),
    ("gfa2", "E\t*\tA-\tA+\t0\t0\t4$\t4$\t*"),
    ("gfa2", "E\te2\tA+\tB+\t0\t4$\t1\t5\t4,2\tTS:i:5"),
    ("gfa2", "F\tA\tread1-\t0\t4$\t10\t20$\t*"),
    ("gfa2", "G\tg1\tA+\tB-\t100\t*"),
    ("gfa2", "G\t*\tA-\tB+\t5\t3"),
    ("gfa2", "O\to1\tA+ e1+ B-"),
    ("gfa2", "U\tu1\tA B e1 g1 o1"),
    ("gfa2", "U\t*\tA"),
    ("gfa2", "S\tC\t0\t*\tzz:B:I,4294967295\tyy:B:s,-32768,32767"),
]

BASE_DOCS = [
    ("gfa1", "standard", ["H\tVN:Z:1.0", "S\tA\tACGT", "S\tB\t*\tLN:i:5", "L\tA\t+\tB\t-\t2M\tID:Z:l1",
                          "C\tA\t+\tB\t+\t1\t2M", "P\tp\tA+,B-\t2M", "# c"]),
    ("gfa2", "standard", ["H\tVN:Z:2.0", "S\tA\t4\tACGT", "S\tB\t5\t*", "E\te1\tA+\tB-\t2\t4$\t3\t5$\t2M",
                          "F\tA\tr+\t0\t2\t0\t2$\t*", "G\tg\tA+\tB+\t10\t*", "O\to\tA+ e1+ B-", "U\tu\tA g o"]),
    ("gfa1", "rgfa", ["S\ts1\tACG\tSN:Z:chr1\tSO:i:0\tSR:i:0", "S\ts2\tGT\tSN:Z:chr1\tSO:i:3\tSR:i:0",
                      "L\ts1\t+\ts2\t+\t0M\tSR:i:0\tL1:i:3\tL2:i:2"]),
]

MUT_ALPHA = ["0", "5", "+", "-", "*", "$", ",", ":", " ", "\t", "A", "M", "x", "=", "_", ".", "~", "\x7f", "\n", "é"]
OPS = ["del", "ins", "rep", "fdrop", "fdup"]
DOC_OPS = ["del", "ins", "rep", "fdrop", "fdup", "ldrop", "ldup"]


def _cross():
    """hand-enumerated probes of the cross-field and document-level rules (verdict still from the recogniser)"""
    X = []
    # LN against the sequence length
    for seq in ("*", "A", "ACGT"):
        for ln in (0, 1, 4, 5):
            X.append(("line", "gfa1", None, "S\tA\t%s\tLN:i:%d" % (seq, ln)))
    # path: number of overlaps against number of segments
    for n in (1, 2, 3):
        for k in (1, 2, 3, 4):
            for c in ("*", "1M"):
                X.append(("line", "gfa1", None, "P\tp\t%s\t%s" % (",".join("ABC"[i] + "+" for i in range(n)), ",".join([c] * k))))
    # begin <= end, `$`
    S2 = ["S\tA\t4\tACGT", "S\tB\t5\t*"]
    vals = ["0", "2", "4", "4$", "5", "5$", "2$", "0$"]
    for sid, other in (("A", "B"), ("B", "A")):
        for b in vals:
            for e in vals:
                el = "E\t*\t%s+\t%s-\t%s\t%s\t0\t1\t*" % (sid, other, b, e)
                er = "E\t*\t%s+\t%s-\t0\t1\t%s\t%s\t*" % (other, sid, b, e)
                fl = "F\t%s\tr+\t%s\t%s\t0\t1\t*" % (sid, b, e)
                fr = "F\t%s\tr+\t0\t1\t%s\t%s\t*" % (sid, b, e)
                for l in (el, er, fl, fr):
                    X.append(("doc", "gfa2", "standard", "\n".join(S2 + [l])))
                if sid == "A":
                    for l in (el, er, fl, fr):
                        X.append(("line", "gfa2", None, l))
    # `$` on each of the four positions of an edge / both segment positions of a fragment, against segments with
    # a sequence (a: 10, b: 12) and without (c: 9); self-edges; the E/F line before and after the S lines
    S3 = ["S\ta\t10\tACGTACGTAC", "S\tb\t12\tACGTACGTACGT", "S\tc\t9\t*"]
    LEN = {"a": 10, "b": 12, "c": 9}
    for sid, other in (("a", "b"), ("b", "a"), ("b", "b"), ("c", "a")):
        n = LEN[sid]
        pv = [0, n // 2, n, n + 1]
        for bi, b in enumerate(pv):
            for e in pv[bi:]:
                for db in ("", "$"):
                    for de in ("", "$"):
                        if not db and not de and not (b == 0 and e == n):
                            continue         # pairs without any `$`: the block above
                        P = (str(b) + db, str(e) + de)
                        ok_o = ("0", "%d$" % LEN[other])
                        ls = ["E\t*\t%s+\t%s-\t%s\t%s\t%s\t%s\t*" % ((sid, other) + P + ok_o),
                              "E\t*\t%s-\t%s+\t%s\t%s\t%s\t%s\t*" % ((other, sid) + ok_o + P)]
                        if sid != other:
                            ls.append("F\t%s\tr+\t%s\t%s\t0\t1\t*" % ((sid,) + P))
                        for k, l in enumerate(ls):
                            X.append(("doc", "gfa2", "standard", "\n".join(S3 + [l] if (bi + k) % 2 == 0 else [l] + S3)))
    # undefined references, field by field
    for l in ("L\tA\t+\tX\t-\t*", "L\tX\t+\tA\t-\t*", "C\tA\t+\tX\t-\t0\t*", "C\tX\t+\tA\t-\t0\t*", "P\tp\tA+,X+\t*",
              "P\tp\tX+\t*", "L\tA\t+\tB\t-\t*"):
        X.append(("doc", "gfa1", "standard", "\n".join(["S\tA\t*", "S\tB\t*", l])))
    for l in ("E\t*\tA+\tX-\t0\t1\t0\t1\t*", "E\t*\tX+\tA-\t0\t1\t0\t1\t*", "G\t*\tA+\tX-\t1\t1", "G\t*\tX+\tA-\t1\t1",
              "F\tX\tr+\t0\t1\t0\t1\t*", "O\t*\tA+ X+", "O\t*\tX+", "U\t*\tA X", "U\t*\tX", "U\t*\tA B", "O\to\tA+ B-"):
        X.append(("doc", "gfa2", "standard", "\n".join(["S\tA\t4\t*", "S\tB\t4\t*", l])))
    # versions: records and VN of the other version
    X.append(("doc", "gfa1", "standard", "H\tVN:Z:2.0\nS\tA\t*"))
    X.append(("doc", "gfa2", "standard", "H\tVN:Z:1.0\nS\tA\t1\t*"))
    X.append(("doc", None, "standard", "H\tVN:Z:1.0\nS\tA\t1\t*"))
    X.append(("doc", None, "standard", "H\tVN:Z:2.0\nS\tA\t*"))
    X.append(("doc", None, "standard", "S\tA\t*\nS\tB\t1\t*"))
    X.append(("doc", None, "standard", "S\tA\t*\nE\t*\tA+\tA-\t0\t1\t0\t1\t*"))
    X.append(("doc", None, "standard", "S\tA\t1\t*\nL\tA\t+\tA\t-\t*"))
    X.append(("doc", "gfa1", "standard", "S\tA\t*\n"))
    X.append(("doc", "gfa2", "standard", "S\tA\t1\t*\n"))
    # rGFA
    R = BASE_DOCS[2][2]
    for extra in ("H\tVN:Z:1.0", "C\ts1\t+\ts2\t+\t0\t0M", "P\tp\ts1+,s2+\t0M", "# c", "S\ts3\t*\tSN:Z:c\tSO:i:0", "S\ts3\t*\tSN:Z:c\tSO:i:0\tSR:Z:0",
                  "S\ts3\t*\tSN:i:1\tSO:i:0\tSR:i:0", "L\ts2\t+\ts1\t+\t1M", "L\ts2\t+\ts1\t+\t*", "L\ts2\t+\ts1\t+\t0M\tL1:Z:x",
                  "S\ts3\tA\tSN:Z:c\tSO:i:0\tSR:i:1"):
        X.append(("doc", "gfa1", "rgfa", "\n".join(R + [extra])))
    X.append(("doc", "gfa2", "rgfa", "S\ts1\t3\tACG\tSN:Z:chr1\tSO:i:0\tSR:i:0"))
    return X


CROSS = _cross()


def maxlen(tier):
    return 4 if tier == "thorough" else 3


def strings(alpha, n):
    for k in range(0, n + 1):
        for t in itertools.product(alpha, repeat=k):
            yield "".join(t)


def n_strings(alpha, n):
    return sum(len(alpha) ** k for k in range(0, n + 1))


CHUNK = 150


def _ex_plan(tier):
    plan = []
    n = maxlen(tier)
    for dt in "AifZJHB":
        tot = n_strings(TAG_ALPHA[dt], n)
        for v in (1, 2, 3):
            for c in range(0, tot, CHUNK):
                plan.append({"kind": "tagx", "dt": dt, "vlevel": v, "from": c, "to": min(tot, c + CHUNK), "n": n})
    for ctx in POS_CTX:
        tot = n_strings(POS_CTX[ctx][2], n)
        for v in (1, 2, 3):
            for c in range(0, tot, CHUNK):
                plan.append({"kind": "posx", "ctx": ctx, "vlevel": v, "from": c, "to": min(tot, c + CHUNK), "n": n})
    for v in (1, 2, 3):
        for c in range(0, len(CROSS), 40):
            plan.append({"kind": "cross", "vlevel": v, "from": c, "to": min(len(CROSS), c + 40)})
    nalpha = len(MUT_ALPHA) if tier == "thorough" else 5
    for b in range(len(BASE_LINES)):
        for v in (1, 2, 3):
            for vm in ("given", "none"):
                for o in OPS:
                    plan.append({"kind": "mutline", "base": b, "vlevel": v, "vmode": vm, "op": o, "nalpha": nalpha})
    for d in range(len(BASE_DOCS)):
        text = "\n".join(BASE_DOCS[d][2])
        for v in (1, 2, 3):
            for vm in ("given", "none"):
                for o in DOC_OPS:
                    if o in ("del", "ins", "rep"):
                        for c in range(0, len(text) + 1, 40):
                            plan.append({"kind": "mutdoc", "doc": d, "vlevel": v, "vmode": vm, "op": o,
                                         "from": c, "to": c + 40, "nalpha": 3 if tier != "thorough" else len(MUT_ALPHA)})
                    else:
                        plan.append({"kind": "mutdoc", "doc": d, "vlevel": v, "vmode": vm, "op": o, "from": 0,
                                     "to": 10 ** 6, "nalpha": 0})
    return plan


_PLAN = {}


def plan(tier):
    if tier not in _PLAN:
        _PLAN[tier] = _ex_plan(tier)
    return _PLAN[tier]


def n_exhaustive(tier):
    return len(plan(tier))


def exhaustive_case(i, tier):
    return dict(plan(tier)[i])


def budget(tier):
    return 1500 if tier == "quick" else 60000


# ---------------------------------------------------------------------------------------------------- random generators
NAMES = ["A", "B", "1", "s2", "x+y"]


def rnd_int(rng):
    return rng.pick(["0", "7", "-3", "+12", "100000000000000000000", "007"])


def rnd_float(rng):
    return rng.pick(["1.5", "-.5", "3", "1e5", "+2.5E-3", "0.0", "12.", "1e", "inf", "nan", "1_0.5", "0x1p3", " 1.5"])


def rnd_tagvalue(rng, dt, valid=True):
    if dt == "i":
        return rnd_int(rng) if valid else rng.pick(["1_0", " 5", "5 ", "1.0", "0x1", "--1", "1e3", "٣"])
    if dt == "f":
        return rng.pick(["1.5", "-.5", "3", "1e5", "+2.5E-3", "0.0"]) if valid else \
            rng.pick(["12.", "1e", "inf", "nan", "1_0.5", "0x1p3", " 1.5", "-inf", "Infinity", "1e5 ", "."])
    if dt == "A":
        return rng.pick(["a", "~", "!"]) if valid else rng.pick(["ab", " ", "\x7f", "é"])
    if dt == "Z":
        return rng.pick(["a b", "~", "x:y:z", " "]) if valid else rng.pick(["a\x7f", "é", "a\x0bb", "a\n"])
    if dt == "H":
        return rng.pick(["00", "AF09", "FFFFFF"]) if valid else rng.pick(["ab", "A", "AFG0", "0x", "A F0", "af"])
    if dt == "J":
        return rng.pick(["[]", "{}", "[1,2.5,\"a\",null,true]", "{\"a\": {\"b\": [1]}}", " [1] "]) if valid else \
            rng.pick(["[", "{1:2}", "[1,]", "{'a':1}", "[1]\x7f", "[\"é\"]", "[1] x", "[01]"])
    if dt == "B":
        return rng.pick(["c,-128,127", "C,0,255", "s,-32768", "S,65535", "i,-2147483648", "I,4294967295", "f,1.5,-2e3",
                         "c,1"]) if valid else \
            rng.pick(["c,128", "c,-129", "C,256", "C,-1", "s,32768", "S,65536", "i,2147483648", "I,4294967296", "c", "c,",
                      "x,1", "c,1,,2", "f,inf", "f,nan", "c,1_0", "c, 1", "f,1.", "c,1.0", "C,1 ", ",1", "cc,1"])
    return "x"


def rnd_tag(rng, names, valid=True):
    dt = rng.pick("AifZJHB")
    n = rng.pick([x for x in ["xx", "ab", "zZ", "a1", "XX", "Q9"] if x not in names] or ["qq"])
    names.append(n)
    return "%s:%s:%s" % (n, dt, rnd_tagvalue(rng, dt, valid))


def rnd_line(rng, version):
    """a line that conforms to the grammar (every choice from rng)"""
    nm = lambda: rng.pick(NAMES)
    o = lambda: rng.pick("+-")
    cig1 = lambda: rng.pick(["*", "3M", "1M2I1D", "10=2X", "0M", "1S2M1H", "2N1P"])
    cig2 = lambda: rng.pick(["*", "3M", "1M2I1D", "1P2M", "2,3", "0,0,12"])
    if version == "gfa1":
        rt = rng.pick("HSSLLCPP#")
        if rt == "H":
            f = ["H"] + (["VN:Z:1.0"] if rng.chance(0.5) else [])
        elif rt == "S":
            seq = rng.pick(["*", "ACGT", "acgtn", "A=.", "N"])
            f = ["S", nm(), seq]
            if rng.chance(0.5):
                f.append("LN:i:%d" % (len(seq) if seq != "*" else rng.pick([0, 5, 100])))
            if rng.chance(0.3):
                f.append(rng.pick(["RC:i:5", "FC:i:0", "KC:i:12", "SH:H:00FF", "UR:Z:file:///a b"]))
        elif rt == "L":
            f = ["L", nm(), o(), nm(), o(), cig1()]
            if rng.chance(0.4):
                f.append(rng.pick(["MQ:i:255", "NM:i:0", "RC:i:3", "FC:i:3", "KC:i:3", "ID:Z:e1"]))
        elif rt == "C":
            f = ["C", nm(), o(), nm(), o(), rng.pick(["0", "5", "007", "123456789012345678901"]), cig1()]
            if rng.chance(0.4):
                f.append(rng.pick(["NM:i:0", "ID:Z:c1"]))
        elif rt == "P":
            k = rng.pick([1, 2, 2, 3, 4])
            els = [nm() + o() for _ in range(k)]
            mode = rng.pick(["star", "linear", "circular"])
            if mode == "star" or (mode == "linear" and k == 1):
                ov = "*"
            else:
                ov = ",".join(rng.pick(["*", "2M", "1M1I"]) for _ in range(k - 1 if mode == "linear" else k))
            f = ["P", rng.pick(["p", "p1", "a,b"]), ",".join(els), ov]
        else:
            return rng.pick(["#", "# x", "#\tS\tA", "#x\ty"])
        names = [t[:2] for t in f if len(t) > 4 and t[2] == ":"]
    else:
        rt = rng.pick("HSSEEFGGOU")
        ident = lambda: rng.pick(["*", "e1", "12", "x*"])
        ref = lambda: nm() + o()

        def pospair():
            a = rng.pick([0, 1, 5, 12]); b = a + rng.pick([0, 1, 7])
            last = rng.chance(0.4)
            return [str(a) + ("$" if last and a == b else ""), str(b) + ("$" if last else "")]
        if rt == "H":
            f = ["H"] + (["VN:Z:2.0"] if rng.chance(0.5) else []) + (["TS:i:100"] if rng.chance(0.4) else [])
        elif rt == "S":
            f = ["S", nm(), rng.pick(["0", "4", "1000"]), rng.pick(["*", "ACGT", "!~x", "**"])]
        elif rt == "E":
            f = ["E", ident(), ref(), ref()] + pospair() + pospair() + [cig2()]
            if rng.chance(0.3):
                f.append("TS:i:7")
        elif rt == "F":
            f = ["F", nm(), rng.pick(["r1", "read/2", "*x"]) + o()] + pospair() + pospair() + [cig2()]
        elif rt == "G":
            f = ["G", ident(), ref(), ref(), rng.pick(["0", "100", "-20"]), rng.pick(["*", "0", "33"])]
        elif rt == "O":
            f = ["O", ident(), " ".join(ref() for _ in range(rng.pick([1, 2, 3])))]
        else:
            f = ["U", ident(), " ".join(nm() for _ in range(rng.pick([1, 2, 3])))]
        names = [t[:2] for t in f[1:] if len(t) > 4 and t[2] == ":" and t[4] == ":" and f[0] not in "OU"]
        names = [t[:2] for t in f if t[:5] in ("VN:Z:", "TS:i:")]
    for _ in range(rng.pick([0, 0, 1, 2])):
        f.append(rnd_tag(rng, names))
    return "\t".join(f)


def rnd_doc(rng, version):
    """a small conforming document"""
    if version == "gfa1":
        segs = rng.sample(["A", "B", "C", "1"], rng.pick([2, 3]))
        L = ["H\tVN:Z:1.0"] if rng.chance(0.5) else []
        for s in segs:
            seq = rng.pick(["*", "ACGT", "ACGTAC"])
            L.append("S\t%s\t%s%s" % (s, seq, "" if seq != "*" and rng.chance(0.5) else "\tLN:i:%d" % (len(seq) if seq != "*" else 6)))
        a, b = segs[0], segs[1]
        oa, ob = rng.pick("+-"), rng.pick("+-")
        L.append("L\t%s\t%s\t%s\t%s\t%s" % (a, oa, b, ob, rng.pick(["*", "2M", "1M1D1M"])))
        if rng.chance(0.5):
            L.append("C\t%s\t+\t%s\t-\t1\t%s" % (a, b, rng.pick(["*", "2M"])))
        if rng.chance(0.7):
            L.append("P\tp1\t%s%s,%s%s\t%s" % (a, oa, b, ob, rng.pick(["*", "2M"])))
        if rng.chance(0.3):
            L.append("# comment")
    else:
        L = ["H\tVN:Z:2.0"] if rng.chance(0.5) else []
        lens = {}
        segs = rng.sample(["A", "B", "C", "1"], rng.pick([2, 3]))
        for s in segs:
            seq = rng.pick(["*", "ACGT", "ACGTAC"])
            lens[s] = len(seq) if seq != "*" else 6
            L.append("S\t%s\t%d\t%s" % (s, lens[s], seq))
        a, b = segs[0], segs[1]
        L.append("E\te1\t%s+\t%s+\t%d\t%d$\t0\t2\t%s" % (a, b, lens[a] - 2, lens[a], rng.pick(["*", "2M", "1M1I1D"])))
        if rng.chance(0.5):
            L.append("G\tg1\t%s+\t%s-\t%s\t%s" % (a, b, rng.pick(["10", "-5"]), rng.pick(["*", "3"])))
        if rng.chance(0.5):
            L.append("F\t%s\tr1+\t0\t%d$\t0\t4\t*" % (b, lens[b]))
        if rng.chance(0.6):
            L.append("O\to1\t%s+ e1+ %s+" % (a, b))
        if rng.chance(0.6):
            L.append("U\tu1\t%s e1" % a)
    rng.shuffle(L)
    return L


def mutate(rng, s):
    """one random single-point mutation of the text s -> (text, description)"""
    k = rng.pick(["del", "ins", "rep", "fdrop", "fdup", "swap"])
    if k == "del" and s:
        i = rng.randrange(len(s)); return s[:i] + s[i + 1:], "del@%d" % i
    if k == "ins":
        i = rng.randrange(len(s) + 1); c = rng.pick(MUT_ALPHA); return s[:i] + c + s[i:], "ins@%d" % i
    if k == "rep" and s:
        i = rng.randrange(len(s)); c = rng.pick(MUT_ALPHA); return s[:i] + c + s[i + 1:], "rep@%d" % i
    lines = s.split("\n")
    li = rng.randrange(len(lines))
    f = lines[li].split("\t")
    j = rng.randrange(len(f))
    if k == "fdrop" and len(f) > 1:
        del f[j]
    elif k == "fdup":
        f.insert(j, f[j])
    elif len(f) > 2:
        j = rng.randrange(1, len(f) - 1); f[j], f[j + 1] = f[j + 1], f[j]
    lines[li] = "\t".join(f)
    return "\n".join(lines), "%s@%d.%d" % (k, li, j)


def rnd_pospair(rng, n, style):
    """(begin, end) of an interval on a segment of n positions; `style` says where the `$` marks go:
    right (exactly on the last position), beg$ / end$ / both$ (forced on that position, right on the other),
    none, random"""
    def pos():
        return rng.pick([0, 1, n // 2, n - 1, n, n, n]) if rng.chance(0.93) else n + 1
    b, e = pos(), pos()
    if b > e and rng.chance(0.9):
        b, e = e, b

    def mark(v, which):
        if style == "none":
            return False
        if style == "random":
            return rng.chance(0.5)
        if style == "both$" or style == which + "$":
            return True
        return v == n
    return str(b) + ("$" if mark(b, "beg") else ""), str(e) + ("$" if mark(e, "end") else "")


POS_STYLES = ["right", "right", "right", "right", "beg$", "beg$", "end$", "both$", "none", "random"]


def rnd_posdoc(rng):
    """a GFA2 document about the rule "`$` only on a segment's last position": 2-3 segments, most with a sequence,
    1-3 E/F lines with intervals from rnd_pospair (most of them right), lines in any order"""
    segs = rng.sample(["a", "b", "c", "1", "x+y"], rng.pick([2, 2, 3]))
    lens = {}
    L = ["H\tVN:Z:2.0"] if rng.chance(0.3) else []
    for s in segs:
        n = rng.pick([1, 4, 6, 10, 12])
        lens[s] = n
        seq = "".join(rng.pick("ACGT") for _ in range(n)) if rng.chance(0.85) else "*"
        L.append("S\t%s\t%d\t%s" % (s, n, seq))
    body = []
    for j in range(rng.pick([1, 1, 2, 3])):
        if rng.chance(0.75):
            s1 = rng.pick(segs)
            s2 = rng.pick(segs) if rng.chance(0.3) else rng.pick([x for x in segs if x != s1])
            l = "\t".join(["E", rng.pick(["*", "e%d" % j]), s1 + rng.pick("+-"), s2 + rng.pick("+-")]
                          + list(rnd_pospair(rng, lens[s1], rng.pick(POS_STYLES)))
                          + list(rnd_pospair(rng, lens[s2], rng.pick(POS_STYLES)))
                          + [rng.pick(["*", "*", "2M", "1M1I1D", "4,2"])])
        else:
            s1 = rng.pick(segs)
            l = "\t".join(["F", s1, rng.pick(["r1", "read/2"]) + rng.pick("+-")]
                          + list(rnd_pospair(rng, lens[s1], rng.pick(POS_STYLES)))
                          + rng.pick([["0", "5"], ["3", "3"], ["0", "20$"], ["20$", "20$"]]) + ["*"])
        if l not in body:
            body.append(l)
    L += body
    rng.shuffle(L)
    return L


def gen_case(rng, tier, i):
    version = rng.pick(["gfa1", "gfa2"])
    vlevel = rng.pick([1, 2, 3])
    vmode = rng.pick(["given", "given", "none"])
    k = rng.random()
    if k >= 0.8:
        text = "\n".join(rnd_posdoc(rng))
        d = []
        build = rng.pick(["text", "text", "lines"])
        if build == "text" and rng.chance(0.2):
            text, x = mutate(rng, text); d.append(x)
        return {"kind": "posdoc", "version": "gfa2", "dialect": "standard", "vlevel": vlevel, "vmode": vmode,
                "build": build, "text": text, "mut": d}
    k = k / 0.8
    if k < 0.35:
        s = rnd_line(rng, version)
        nm = rng.pick([0, 1, 1, 2])
        d = []
        for _ in range(nm):
            s, x = mutate(rng, s); d.append(x)
        return {"kind": "line", "version": version, "vlevel": vlevel, "vmode": vmode, "text": s, "mut": d}
    if k < 0.6:
        # a valid line with one invalid (or valid) tag value of a chosen datatype
        s = rnd_line(rng, version)
        dt = rng.pick("AifZJHB")
        valid = rng.chance(0.3)
        if not s.startswith("#"):
            s = s + "\tq1:%s:%s" % (dt, rnd_tagvalue(rng, dt, valid))
        return {"kind": "line", "version": version, "vlevel": vlevel, "vmode": vmode, "text": s, "mut": ["tag." + dt]}
    L = rnd_doc(rng, version)
    text = "\n".join(L)
    d = []
    for _ in range(rng.pick([0, 1, 1, 1, 2])):
        if rng.chance(0.25):
            ls = text.split("\n"); j = rng.randrange(len(ls))
            if rng.chance(0.5) and len(ls) > 1:
                del ls[j]; d.append("ldrop@%d" % j)
            else:
                extra = rnd_line(rng, rng.pick(["gfa1", "gfa2"]))
                ls.insert(j, extra); d.append("ladd@%d" % j)
            text = "\n".join(ls)
        else:
            text, x = mutate(rng, text); d.append(x)
    if rng.chance(0.15):
        text += "\n"; d.append("trailing-newline")
    return {"kind": "doc", "version": version, "dialect": "standard", "vlevel": vlevel, "vmode": vmode, "text": text, "mut": d}


# ---------------------------------------------------------------------------------------------------- library side
def lib_line(text, vlevel, version):
    """-> ('acc'|'rej-ctor'|'rej-validate'|'foreign', detail)"""
    gfapy = lib.import_gfapy()
    try:
        l = gfapy.Line(text, vlevel=vlevel, version=version)
    except gfapy.Error as e:
        return "rej-ctor", e.__class__.__name__
    except RecursionError:
        return "foreign", "RecursionError"
    except Exception as e:
        return "foreign", "%s@%s" % (e.__class__.__name__, M.innermost_gfapy_frame(e))
    try:
        l.validate()
    except gfapy.Error as e:
        return "rej-validate", e.__class__.__name__
    except Exception as e:
        return "foreign", "%s@%s" % (e.__class__.__name__, M.innermost_gfapy_frame(e))
    return "acc", ""


def lib_doc(text, vlevel, version, dialect, build="text"):
    """build="text": Gfa(text); build="lines": an empty Gfa to which the lines are added one by one"""
    gfapy = lib.import_gfapy()
    try:
        if build == "lines":
            g = gfapy.Gfa(vlevel=vlevel, version=version, dialect=dialect)
            for ln in text.split("\n"):
                g.add_line(ln)
        else:
            g = gfapy.Gfa(text, vlevel=vlevel, version=version, dialect=dialect)
    except gfapy.Error as e:
        return "rej-ctor", e.__class__.__name__
    except RecursionError:
        return "foreign", "RecursionError"
    except Exception as e:
        return "foreign", "%s@%s" % (e.__class__.__name__, M.innermost_gfapy_frame(e))
    try:
        g.validate()
    except gfapy.Error as e:
        return "rej-validate", e.__class__.__name__
    except Exception as e:
        return "foreign", "%s@%s" % (e.__class__.__name__, M.innermost_gfapy_frame(e))
    for l in g.lines:
        try:
            l.validate()
        except gfapy.Error as e:
            return "rej-validate", "%s in validate() of its %s line" % (e.__class__.__name__, l.record_type)
        except Exception as e:
            return "foreign", "%s@%s" % (e.__class__.__name__, M.innermost_gfapy_frame(e))
    return "acc", ""


def judge(F, what, text, verdict, rule, res, ctx):
    """compare the recogniser's clear-cut verdict with the library's outcome"""
    out, det = res
    if out == "foreign":
        F.append("foreign-exception[%s]: %s %r (%s) grammar says %s/%s" % (det, what, text, ctx, verdict, rule))
        return
    if verdict is True and out != "acc":
        sig = "rejects-valid" if out == "rej-ctor" else "accepted-but-validate-fails"
        k = det.split(" line")[0].split(" ")[-1] if " line" in det else klass_of_valid(text)
        F.append("%s[%s]: %s %r (%s) raised %s" % (sig, k if what == "line" or " line" in det else "doc", what, text, ctx, det))
    elif verdict is False and out == "acc":
        F.append("accepts-invalid[%s]: %s %r (%s) breaks rule %s, accepted and validate() passes" % (rule, what, text, ctx, rule))


def klass_of_valid(text):
    """coarse label of a valid input the library refuses: record type (+ 'var*' style hints)"""
    f = text.split("\n")[0].split("\t")
    return f[0][:1] or "empty"


def iter_line_mutations(text, op, nalpha, lo=0, hi=10 ** 9):
    if op == "del":
        for i in range(max(lo, 0), min(hi, len(text))):
            yield text[:i] + text[i + 1:]
    elif op in ("ins", "rep"):
        top = len(text) + (1 if op == "ins" else 0)
        for i in range(max(lo, 0), min(hi, top)):
            start = (i * 7) % len(MUT_ALPHA)
            for j in range(nalpha):
                c = MUT_ALPHA[(start + j) % len(MUT_ALPHA)] if nalpha < len(MUT_ALPHA) else MUT_ALPHA[j]
                if op == "ins":
                    yield text[:i] + c + text[i:]
                elif text[i] != c:
                    yield text[:i] + c + text[i + 1:]
    elif op in ("fdrop", "fdup"):
        lines = text.split("\n")
        for li, ln in enumerate(lines):
            f = ln.split("\t")
            for j in range(len(f)):
                g = list(f)
                if op == "fdrop":
                    if len(g) == 1:
                        continue
                    del g[j]
                else:
                    g.insert(j, g[j])
                yield "\n".join(lines[:li] + ["\t".join(g)] + lines[li + 1:])
    elif op in ("ldrop", "ldup"):
        lines = text.split("\n")
        for li in range(len(lines)):
            if op == "ldrop":
                yield "\n".join(lines[:li] + lines[li + 1:])
            else:
                yield "\n".join(lines[:li] + [lines[li]] + lines[li:])


def offered(case):
    """-> list of (what, text, version-for-library, version(s)-for-grammar, dialect)"""
    k = case["kind"]
    out = []
    if k == "tagx":
        al = TAG_ALPHA[case["dt"]]
        for s in itertools.islice(strings(al, case["n"]), case["from"], case["to"]):
            out.append(("line", "S\tA\t*\txx:%s:%s" % (case["dt"], s), "gfa1", "gfa1", None))
    elif k == "posx":
        ver, tpl, al = POS_CTX[case["ctx"]]
        for s in itertools.islice(strings(al, case["n"]), case["from"], case["to"]):
            out.append(("line", tpl % s, ver, ver, None))
    elif k == "mutline":
        ver, text = BASE_LINES[case["base"]]
        lv = ver if case["vmode"] == "given" else None
        for t in iter_line_mutations(text, case["op"], case["nalpha"]):
            out.append(("line", t, lv, lv, None))
    elif k == "mutdoc":
        ver, dia, lines = BASE_DOCS[case["doc"]]
        lv = ver if case["vmode"] == "given" else None
        for t in iter_line_mutations("\n".join(lines), case["op"], case["nalpha"], case["from"], case["to"]):
            out.append(("doc", t, lv, lv, dia))
    elif k == "cross":
        for what, ver, dia, text in CROSS[case["from"]:case["to"]]:
            out.append((what, text, ver, ver, dia))
    elif k == "line":
        lv = case["version"] if case["vmode"] == "given" else None
        out.append(("line", case["text"], lv, lv, None))
    elif k in ("doc", "posdoc"):
        lv = case["version"] if case["vmode"] == "given" else None
        out.append(("doc", case["text"], lv, lv, case.get("dialect", "standard")))
    return out


_OPEN_AT_LINE_LEVEL = ("two-last-positions", "dollar-beg-only")


def doc_verdict(lines, version, dialect):
    """M.doc_verdict, plus the judgement of a `$` on a *begin* position, which the line-level recogniser leaves
    open (`5$ 7`, `5$ 10$`: where the segment ends is not known to a lone line) and a document settles.

    The `$` is taken off every such begin position and the rest of the document is judged by M.doc_verdict: a
    begin position without `$` never makes a document invalid (at most debatable: last position without `$`,
    position beyond the end), so an invalid rest means an invalid document, a debatable rest stays debatable, and
    a fully valid rest means that every begin position concerned lies strictly before the end of a segment whose
    length is known: the `$` that was on it is not on the segment's last position."""
    v, r = M.doc_verdict(lines, version, dialect)
    if v is not None or version != "gfa2" or r not in _OPEN_AT_LINE_LEVEL:
        return v, r
    segs = {}
    for ln in lines:
        f = ln.split("\t")
        if f[0] == "S" and len(f) >= 4:
            segs[f[1]] = f
    marks = []
    rest = []
    for ln in lines:
        f = ln.split("\t")
        pairs = []
        if f[0] == "E" and len(f) >= 9:
            pairs = [(f[2][:-1], 4, 5), (f[3][:-1], 6, 7)]
        elif f[0] == "F" and len(f) >= 8:
            pairs = [(f[1], 3, 4)]        # the other interval lies on the external sequence: never at hand
        for name, b, e in pairs:
            if not (M.RE_POS2.match(f[b]) and M.RE_POS2.match(f[e]) and f[b].endswith("$")):
                continue
            if M.posval(f[b]) <= M.posval(f[e]) and not (f[e].endswith("$") and M.posval(f[b]) == M.posval(f[e])):
                marks.append(name)
                f[b] = f[b][:-1]
        rest.append("\t".join(f))
    if not marks:
        return v, r
    v2, r2 = M.doc_verdict(rest, version, dialect)
    if v2 is not True:
        return v2, r2
    if any(m not in segs for m in marks):
        return None, r
    return False, ("dollar" if any(segs[m][3] != "*" for m in marks) else "dollar-slen")


def grammar(what, text, version, dialect):
    if what == "line":
        return M.line_verdict_any(text.split("\t"), version)
    lines = text.split("\n")
    if lines and lines[-1] == "" and len(lines) > 1:
        lines = lines[:-1]            # the newline that ends the last line of a file
    if version is not None:
        return doc_verdict(lines, version, dialect)
    a, ra = doc_verdict(lines, "gfa1", dialect)
    b, rb = doc_verdict(lines, "gfa2", dialect)
    if a is True or b is True:
        return True, "ok"
    if a is None or b is None:
        return None, ra if a is None else rb
    if any(l.startswith("S\t") and M.line_verdict_any(l.split("\t"), None)[1] == "S-version-ambiguous" for l in lines):
        return None, "S-version-ambiguous"
    # name the rule of the version the document mostly is written in
    n1 = sum(1 for l in lines if M.line_verdict(l.split("\t"), "gfa1")[0] is True)
    n2 = sum(1 for l in lines if M.line_verdict(l.split("\t"), "gfa2")[0] is True)
    return False, ra if n1 >= n2 else rb


def verdicts(case):
    return [(w, t, lv, d) + grammar(w, t, gv, d) for (w, t, lv, gv, d) in offered(case)]


def nontrivial(case):
    return any(v[4] is not None for v in verdicts(case))


def tags(case):
    t = [case["kind"]]
    if case["kind"] == "tagx":
        t.append("tag." + case["dt"])
    elif case["kind"] == "posx":
        t.append("pos." + case["ctx"])
    elif case["kind"] in ("mutline", "mutdoc"):
        t.append(case["op"])
    vs = verdicts(case)
    t.append("valid" if any(v[4] is True for v in vs) else "no-valid")
    t.append("invalid" if any(v[4] is False for v in vs) else "no-invalid")
    t.append("skipped" if any(v[4] is None for v in vs) else "no-skipped")
    return t


def signature(case, failure):
    return failure.split(": ")[0]


def oracle(case):
    F = []
    for what, text, lv, dialect, verdict, rule in verdicts(case):
        if verdict is None:
            continue
        ctx = "vlevel=%d version=%s%s" % (case["vlevel"], lv, "" if not dialect or dialect == "standard" else " dialect=" + dialect)
        if what == "line":
            res = lib_line(text, case["vlevel"], lv)
        else:
            res = lib_doc(text, case["vlevel"], lv, dialect or "standard", case.get("build", "text"))
            if case.get("build", "text") != "text":
                ctx += " build=" + case["build"]
        judge(F, what, text, verdict, rule, res, ctx)
    # one failure per (signature) and case is enough for the histogram; keep the first of each
    seen = set(); out = []
    for f in F:
        s = signature(case, f)
        if s not in seen:
            seen.add(s); out.append(f)
    return out
