"""C03 — the graph does not depend on the order of the lines.

Oracle (real library only): for a valid document every permutation of its lines (all n! for n <= 6 quick /
<= 7 thorough, a seeded sample beyond) is loaded with Gfa(list_of_lines) and observed with lib.obs (version,
sorted written lines with an L line printed in canonical direction, identifier namespace, virtual lines, every
back-reference collection of every line, ownership) and with ref_obs, the REFERENCE TARGETS of every line:
  * for every reference field (L/C from_segment,to_segment; P segment_names; E/G sid1,sid2; F sid; O/U items)
    the written form of the line(s) referred to, with the orientation of the reference where it has one;
  * for a path also path.links, the oriented links its steps resolve to, *with the orientation flag* (this is
    what captured_path / captured_edges and the GFA2 conversion of the path read);
  * a target that is not a line object (unresolved name), is a placeholder, or is not one of the lines of the Gfa
    (stale object left behind by a substitution) is marked as such.
  Links are described in the direction norm_line prints them (from/to of a link stored in the other direction
  are swapped, its orientation in path.links is inverted), so the description does not depend on which of its
  two spellings arrived first; a link equal to its own complement (hairpin ends x+ -> x- with overlap `*` or a
  self-complementary CIGAR) has only one spelling and its flag is compared as stored.
The observation must equal that of the document's own order; the outcome class (loaded / exception class) must
be the same too; and, the document being closed, no virtual line may remain.

Documents: two thirds from props/_docgen.py (incl. several O/U lines sharing an identifier), one third from
gen_path_doc below: GFA1 documents built around a path whose steps are hairpins, self loops or ordinary steps,
each with exactly one link spelled in the direction of the step or as its complement, with overlap `*`, a
self-complementary CIGAR or an asymmetric CIGAR, the path stating the overlaps, an overlap for a `*` link, or a
single `*`: every way a step can match its link (directly, as the complement, both ways at once), and since all
orders are enumerated, every arrival order of the path, its links and its segments.  Plus the TARGETED list.

Outside the equality claim (DESIGN §6 C03; the meaning of such documents is inherently first-arrival-wins), so
the oracle returns [] for them: a link given twice (same or complement form) with different tags; a path step
that two different stored links satisfy.  Lines sharing an O-group identifier keep their relative order in every
permutation (their items are concatenated in arrival order); the items of U lines are compared as a multiset;
the order of tags inside a written line is ignored (a merged group collects its tags in arrival order); tags of
the delayed-parsing datatypes (B, J, H) are compared by value (level-0 lazy spelling is C18's open finding).

FINDING on the unchanged library, reported under its own signature
`order-dependent-refs[orientation-of-a-link-used-by-two-path-steps]`: when two path steps (of one path or of
two) use the same hairpin link x+ -> x- in a way that matches it both directly and as complement, and both
steps arrive before the link, the second step finds the placeholder link created by the first and stores it
with orientation `-`; the arrival of the real link then inverts both, leaving `-` and `+`, while with the link
first both are `-` (S a ACGT / L a + a - 2M ID:Z:hp / P p a+,a- * / P q a+,a- *: to_gfa2 writes `O q a+ hp- a-`
or `O q a+ hp+ a-` depending on the order).  Every other difference of reference targets has the signature
`order-dependent-refs`.

NOT CHECKED:
  * that a document rejected in *every* order should have been accepted (C01's business): only a difference of
    outcome between orders is reported;
  * captured_path / induced_set of GFA2 groups (computed on demand from the items, which are observed);
  * circular GFA1 paths (as many overlaps as segments);
  * entry points other than the list of lines, and rgfa dialect;
  * documents with custom record types P/C/L, tag-like sequences, header tags repeated with different datatypes.
"""
import itertools
from harness import lib
from harness.props import _docgen as D

ID = "C03"
RULE = ("valid GFA1/GFA2 documents of 3-6 lines (quick; 7 thorough, sampled orders beyond) from the grammar-directed "
        "generator (forward references, paths over links in either complement form, nested and multi-line groups, "
        "version-deciding lines mixed with queued L/C/P/custom lines, header VN), every third one a GFA1 document built "
        "around a path over hairpin / self-loop / ordinary links in either spelling with `*`, self-complementary or "
        "asymmetric overlaps, plus a fixed list of targeted documents; every permutation x validation level / explicit "
        "or inferred version; observed: text, names, placeholders, back-references and the reference targets of every "
        "line incl. the oriented links of a path. Non-trivial: at least one referencing record (L,C,P,E,G,F,O,U) "
        "and >= 3 lines.")
CASE_TIMEOUT = 120

TARGETED = [
    ("gfa1", ["S\tA\t*", "S\tB\t*", "L\tB\t-\tA\t-\t2M1D3M\txx:i:1", "P\tp1\tA+,B+\t3M1I2M"]),
    ("gfa1", ["S\tA\t*", "S\tB\t*", "L\tA\t+\tB\t+\t4M", "P\tp1\tA+,B+\t*", "P\tp2\tB-,A-\t4M"]),
    ("gfa1", ["H\tVN:Z:1.0", "S\tA\tACGT\tLN:i:4", "L\tA\t+\tA\t-\t*", "C\tA\t+\tA\t+\t0\t4M", "P\tp1\tA+,A-\t*"]),
    ("gfa1", ["S\tA\t*", "L\tA\t+\tA\t+\t1M1D1M", "L\tA\t-\tA\t-\t1M1I1M", "P\tp1\tA+,A+,A+\t1M1D1M,1M1D1M"]),
    ("gfa1", ["S\tA\t*", "P\tp1\tA+\t*", "H\txx:i:1", "H\txx:i:2", "H\txx:i:3"]),
    ("gfa1", ["S\tA\t*", "S\tB\t*", "L\tA\t+\tB\t+\t3M\tID:Z:l1", "L\tA\t+\tB\t+\t4M", "P\tp1\tA+,B+\t4M"]),
    ("gfa2", ["S\tA\t4\t*", "S\tB\t4\t*", "E\te1\tA+\tB+\t2\t4$\t0\t2\t2M", "O\to1\tA+ e1+ B+", "U\tu1\to1 e1 A"]),
    ("gfa2", ["S\tA\t4\t*", "E\te1\tA+\tA-\t2\t4$\t2\t4$\t*", "O\to1\tA+ A-", "O\to2\to1-", "U\tu1\to2", "U\tu2\tu1 o1"]),
    ("gfa2", ["S\tA\t4\t*", "S\tB\t4\t*", "G\tg1\tA+\tB-\t10\t*", "U\tu1\tg1", "U\tu1\tA B\txx:i:1", "F\tA\tr+\t0\t4$\t0\t4\t*"]),
    ("gfa2", ["S\tA\t4\t*", "S\tB\t4\t*", "E\te1\tA+\tB+\t2\t4$\t0\t2\t*", "O\to1\tA+", "O\to1\te1+ B+", "U\tu1\to1"]),
    ("gfa2", ["H\tVN:Z:2.0", "X\tfoo\txx:i:1", "S\tA\t4\tACGT", "E\t*\tA+\tA+\t0\t4$\t0\t4$\t4M", "# c"]),
    ("gfa2", ["X\tfoo", "Y\tbar\txx:Z:a", "H\taa:i:1", "# c"]),
    ("gfa2", ["S\tA\t4\t*", "S\tB\t4\t*", "U\tu1\tA\txx:A:a\tyy:J:[1,2]", "U\tu1\tB"]),
    ("gfa2", ["S\tA\t4\t*", "E\te1\tA+\tA+\t2\t4$\t0\t2\t*", "O\to1\tA+ e1+\txx:J:[]\tyy:Z:a b", "O\to1\tA+"]),
]
LEVELS = [1, 0, 2, 3]


def n_exhaustive(tier):
    return len(TARGETED) * (4 if tier == "thorough" else 2)


def exhaustive_case(i, tier):
    per = 4 if tier == "thorough" else 2
    v, lines = TARGETED[i // per]
    j = i % per
    return {"version": v, "lines": lines, "features": ["targeted"], "vlevel": LEVELS[j % 4],
            "ver_param": None if j < 2 else v, "sample": 0, "full": 6 if tier == "quick" else 7}


def budget(tier):
    return 70 if tier == "quick" else 400


SELF_COMPL_OV = ["*", "*", "4M", "2M", "1M", "3=", "1M2X1M"]
OTHER_OV = ["1M1D1M", "2M1I1M", "1M1I2M", "2M1D", "1I3M"]


def gen_path_doc(rng, max_lines):
    """A valid GFA1 document built around one path (sometimes two): 1-2 segments, a walk of 1-3 steps in which
    hairpin steps (x+ -> x-), self loops (x+ -> x+) and steps between different segments are all frequent, and
    for every step exactly one link, spelled in the direction of the step or as its complement, whose overlap
    is `*`, a CIGAR equal to its own complement or an asymmetric CIGAR.  The path gives the overlaps (read in
    the direction of the step; for a `*` link sometimes an overlap of its own) or a single `*`.  The class
    covered: every way a path step can match its link - directly, as the complement, or both ways at once
    (hairpin link with a self-complementary overlap, or any hairpin link when the step does not state the
    overlap).  Segments have 8 bases so that every overlap fits."""
    feats = ["path-doc"]
    names = list(D.SEG1)
    rng.shuffle(names)
    names = names[:rng.choice([1, 1, 2])]
    segl = ["S\t%s\t%s" % (n, rng.choice(["*", "ACGTACGT", "*\tLN:i:8"])) for n in names]
    links = []
    ids = list(D.LINKIDS)

    def walk(nsteps, room):
        cur = (rng.choice(names), rng.choice("+-"))
        w, ovs = [cur], []
        for _ in range(nsteps):
            r = rng.random()
            if r < 0.45:
                nxt = (cur[0], D.inv(cur[1]))
            elif r < 0.6 or len(names) == 1:
                nxt = (cur[0], cur[1]) if r < 0.6 else (cur[0], rng.choice("+-"))
            else:
                nxt = (rng.choice([n for n in names if n != cur[0]]), rng.choice("+-"))
            found = D._find_links(links, cur[0], cur[1], nxt[0], nxt[1])
            if not found:
                if len(links) >= room:
                    break
                ov = rng.choice(SELF_COMPL_OV) if rng.random() < 0.7 else rng.choice(OTHER_OV)
                if rng.random() < 0.5:
                    l = {"f": cur[0], "fo": cur[1], "t": nxt[0], "to": nxt[1], "c": ov, "tags": []}
                else:
                    l = {"f": nxt[0], "fo": D.inv(nxt[1]), "t": cur[0], "to": D.inv(cur[1]), "c": D.cig_compl(ov),
                         "tags": []}
                    feats.append("path-over-complement")
                if rng.random() < 0.3 and ids:
                    l["tags"].append("ID:Z:" + ids.pop(0))
                if rng.random() < 0.2:
                    l["tags"] += D.gen_custom_tags(rng, 1, odd=0.1, types="iZA")
                links.append(l)
                if cur[0] == nxt[0]:
                    feats.append("self-link" if cur[1] == nxt[1] else "hairpin")
                found = D._find_links(links, cur[0], cur[1], nxt[0], nxt[1])
            else:
                feats.append("link-used-by-two-steps")
            fl, ov = found[0]
            if ov == "*" and (fl.get("stated") or rng.random() < 0.3):
                if not fl.get("stated"):
                    fl["stated"] = rng.choice(["3M", "2M1D", "4=", "1M1I1M"])
                    feats.append("path-specifies-star-link")
                direct = (fl["f"], fl["fo"], fl["t"], fl["to"]) == (cur[0], cur[1], nxt[0], nxt[1])
                ov = fl["stated"] if direct else D.cig_compl(fl["stated"])
            if cur[0] == nxt[0] and cur[1] != nxt[1] and (ov == "*" or D.cig_compl(ov) == ov):
                feats.append("step-matches-link-both-ways")
            ovs.append(ov)
            w.append(nxt)
            cur = nxt
        return w, ovs

    paths = []
    pnames = [x for x in D.PATHS if x not in names]
    for k in range(2 if rng.random() < 0.25 else 1):
        if k and len(segl) + len(links) + len(paths) >= max_lines:
            break
        w, ovs = walk(rng.choice([1, 2, 2, 3, 3]), max_lines - len(segl) - len(paths) - 1)
        if len(w) == 1 or rng.random() < 0.4:
            ovtxt = "*"
            if len(w) > 1 and any(a[0] == b[0] and a[1] != b[1] for a, b in zip(w, w[1:])):
                feats.append("step-matches-link-both-ways")
        else:
            ovtxt = ",".join(ovs)
        paths.append("\t".join(["P", pnames[k], ",".join(a + b for a, b in w), ovtxt]))
    body = segl + [D.link_text(l) for l in links] + paths
    extra = ["H\tVN:Z:1.0", "# c", "H\txx:i:1", "C\t%s\t+\t%s\t-\t0\t*" % (names[0], names[-1])]
    while len(body) < max_lines and rng.random() < 0.4:
        body.append(extra.pop(rng.randrange(len(extra))))
    rng.shuffle(body)
    return {"version": "gfa1", "lines": body, "features": sorted(set(feats))}


def gen_two_way_paths_doc(rng):
    """Two (sometimes three) paths over ONE link, walking it in the same or in opposite directions: the first usually with
    `*` overlaps, the others with the overlap spelled for their own direction (the complement of the link's overlap when
    they walk it backwards); the link's overlap is mostly asymmetric (I/D), the link is written in either form.  With
    every order of the 4-6 lines this covers: both paths before the link (the placeholder link takes the overlap of the
    first step that states one), the link between them, the link first."""
    feats = ["two-way-paths"]
    a, b = rng.sample(list(D.SEG1), 2) if rng.random() < 0.85 else (lambda x: (x, x))(rng.choice(list(D.SEG1)))
    oa, ob = rng.choice("+-"), rng.choice("+-")
    ov = rng.choice(OTHER_OV) if rng.random() < 0.8 else rng.choice(SELF_COMPL_OV[2:])
    if rng.random() < 0.5:
        link = "L\t%s\t%s\t%s\t%s\t%s" % (a, oa, b, ob, ov)
    else:
        link = "L\t%s\t%s\t%s\t%s\t%s" % (b, D.inv(ob), a, D.inv(oa), D.cig_compl(ov))
        feats.append("path-over-complement")
    if rng.random() < 0.3:
        link += "\tID:Z:" + rng.choice(list(D.LINKIDS))
    fwd = ("%s%s,%s%s" % (a, oa, b, ob), ov)
    bwd = ("%s%s,%s%s" % (b, D.inv(ob), a, D.inv(oa)), D.cig_compl(ov))
    pn = [x for x in D.PATHS if x not in (a, b)]
    paths = []
    n = rng.choice([2, 2, 3])
    for k in range(n):
        walk, spelled = (fwd, bwd)[rng.random() < 0.6] if k else (fwd, bwd)[rng.random() < 0.3]
        star = (k == 0 and rng.random() < 0.8) or (k > 0 and rng.random() < 0.2)
        paths.append("P\t%s\t%s\t%s" % (pn[k], walk, "*" if star else spelled))
        if star:
            feats.append("star-path")
    segl = ["S\t%s\t%s" % (x, rng.choice(["*", "ACGTACGT"])) for x in dict.fromkeys((a, b))]
    if rng.random() < 0.3:
        segl = segl[:1]           # one of the segments is never defined: placeholders stay
        feats.append("undefined-segment")
    lines = segl + [link] + paths
    rng.shuffle(lines)
    return {"version": "gfa1", "lines": lines, "features": feats}


def gen_case(rng, tier, i):
    ml = rng.choice([3, 4, 5, 5, 6, 6]) if tier == "quick" else rng.choice([4, 5, 6, 6, 7, 8, 10, 16])
    if i % 9 == 5:
        d = gen_two_way_paths_doc(rng)
    elif i % 3 == 2:
        d = gen_path_doc(rng, min(max(ml, 4), 7))
    else:
        d = D.gen_doc(rng, max_lines=ml, same_id_groups=True, odd=0.2)
    return {"version": d["version"], "lines": d["lines"], "features": d["features"],
            "vlevel": rng.choice([1, 1, 1, 0, 2, 3]), "ver_param": rng.choice([None, None, None, d["version"]]),
            "sample": rng.randrange(10 ** 6), "full": 6 if tier == "quick" else 7}


def nontrivial(case):
    return len(case["lines"]) >= 3 and any(l.split("\t")[0] in "LCPEGFOU" and len(l.split("\t")[0]) == 1
                                           for l in case["lines"])


def tags(case):
    t = [case["version"], "n=%d" % len(case["lines"]), "vlevel%d" % case["vlevel"],
         "version-param" if case["ver_param"] else "version-inferred"]
    t += case.get("features", [])
    t += ["rt:" + (l.split("\t")[0] if not l.startswith("#") else "#") for l in case["lines"]]
    if excluded(case):
        t.append("excluded")
    return sorted(set(t))


def signature(case, failure):
    return failure.split(":")[0]


def excluded(case):
    if case["version"] != "gfa1":
        return False
    return D.both_forms_with_different_tags(case["lines"]) or D.ambiguous_path_steps(case["lines"])


def orders(case, full_upto=6, nsample=720):
    lines = case["lines"]
    n = len(lines)
    # lines sharing an O-group identifier keep their relative order
    groups = {}
    for i, l in enumerate(lines):
        f = l.split("\t")
        if f[0] == "O" and len(f) > 2 and f[1] != "*":
            groups.setdefault(f[1], []).append(i)
    chains = [v for v in groups.values() if len(v) > 1]

    def ok(p):
        pos = {x: k for k, x in enumerate(p)}
        return all(pos[a] < pos[b] for c in chains for a, b in zip(c, c[1:]))

    if n <= full_upto:
        for p in itertools.permutations(range(n)):
            if ok(p):
                yield p
    else:
        r = lib.Rng(case.get("sample", 0))
        yield tuple(range(n))
        yield tuple(reversed(range(n))) if ok(tuple(reversed(range(n)))) else tuple(range(n))
        k = 0
        while k < nsample:
            p = list(range(n))
            r.shuffle(p)
            if ok(p):
                k += 1
                yield tuple(p)


def norm_line(s):
    """written line with the tags sorted and the items of a U line sorted"""
    if not isinstance(s, str) or s.startswith("#"):
        return s
    # tags of the delayed-parsing datatypes by value: at level 0 their spelling (input vs canonical) depends on
    # whether the tag has been read, which is C18's open finding `lazy-spelling`, not an order dependence
    f = D.canon_delayed(s).split("\t")
    i = D.split_tags(f)
    pos, tg = f[:i], sorted(f[i:])
    if pos and pos[0] == "U" and len(pos) > 2:
        pos[2] = " ".join(sorted(pos[2].split(" ")))
    if pos and pos[0] == "L" and len(pos) == 6 and pos[2] in "+-" and pos[4] in "+-":
        # a link is identified with its complement (lib.wl cannot choose a direction when both forms have the
        # same ends, e.g. B- -> B+)
        try:
            alt = [pos[3], D.inv(pos[4]), pos[1], D.inv(pos[2]), D.cig_compl(pos[5])]
            pos = ["L"] + min(pos[1:], alt)
        except Exception:  # noqa
            pass
    return "\t".join(pos + tg)


def norm_obs(o):
    out = dict(o)
    out["text"] = sorted(norm_line(x) for x in o["text"])
    out["virtual"] = sorted(norm_line(x) for x in o["virtual"])
    back = {}
    for k, d in o["back"].items():
        back[norm_line(k)] = {c: (sorted(norm_line(x) for x in v) if isinstance(v, list) else v) for c, v in d.items()}
    out["back"] = back
    return out


def fast_obs(g, memo=None):
    """lib.obs with the written form of each line computed once (same content, checked against lib.obs on the
    first order of every case)"""
    memo = {} if memo is None else memo

    def w(l):
        k = id(l)
        if k not in memo:
            memo[k] = (l, lib.wl(l))
        return memo[k][1]

    lines = g.lines
    o = {"version": g.version, "text": sorted(w(l) for l in lines), "names": sorted(str(n) for n in g.names),
         "virtual": sorted(str(l) for l in lines if l.virtual)}
    back = {}
    owner_ok = True
    for l in lines:
        if l.gfa is not g:
            owner_ok = False
        d = {}
        for coll in lib.BACKREF_COLLS.get(l.record_type, []):
            try:
                d[coll] = sorted(w(x) for x in getattr(l, coll))
            except Exception as e:  # noqa
                d[coll] = "EXC:" + e.__class__.__name__
        if d:
            back[w(l)] = d
    o["back"] = back
    o["owner_ok"] = owner_ok
    return o


REF_FIELDS = {"L": ["from_segment", "to_segment"], "C": ["from_segment", "to_segment"], "P": ["segment_names"],
              "E": ["sid1", "sid2"], "G": ["sid1", "sid2"], "F": ["sid"], "O": ["items"], "U": ["items"]}


def link_flipped(l):
    """True when the stored link is the complement of the form norm_line prints (a link equal to its own
    complement is never flipped)"""
    pos = str(l).split("\t")[1:6]
    try:
        alt = [pos[2], D.inv(pos[3]), pos[0], D.inv(pos[1]), D.cig_compl(pos[4])]
    except Exception:  # noqa
        return False
    return min(pos, alt) != pos


def ref_obs(gfapy, g, memo):
    """reference targets of every line: for each reference field (and the resolved links of a path) the written
    form of the target line(s), with the orientation where the reference is oriented.  A target that is not a
    line, is a placeholder or is not one of the lines of the Gfa is marked.  Links are described in the direction
    norm_line prints them: from/to of a link stored in the other direction are swapped and the orientation of
    such a link in path.links is inverted, so that the description does not depend on which of the two forms of
    a link the document spells."""
    lines = g.lines
    mine = {id(l) for l in lines}
    nmemo = {}

    def nw(l):
        k = id(l)
        if k not in nmemo:
            nmemo[k] = (l, norm_line(memo[k][1] if k in memo else lib.wl(l)),
                        l.record_type == "L" and link_flipped(l))
        return nmemo[k]

    def tgt(x, link_orient=False):
        orient = ""
        if isinstance(x, gfapy.OrientedLine):
            orient, x = x.orient, x.line
        if not isinstance(x, gfapy.Line):
            return "UNRESOLVED(%s)%s" % (x, orient)
        if link_orient and nw(x)[2]:
            orient = D.inv(orient)
        flags = ("[placeholder]" if x.virtual else "") + ("" if id(x) in mine and x.gfa is g else "[not-a-line-of-the-gfa]")
        return nw(x)[1] + " " + orient + flags

    out = {}
    for l in lines:
        rt = l.record_type
        if rt not in REF_FIELDS:
            continue
        d = {}
        for fn in REF_FIELDS[rt]:
            try:
                v = l.get(fn)
                d[fn] = [tgt(x) for x in v] if isinstance(v, list) else tgt(v)
            except Exception as e:  # noqa
                d[fn] = "EXC:" + e.__class__.__name__
        if rt == "U" and isinstance(d.get("items"), list):
            d["items"] = sorted(d["items"])
        if rt == "L" and nw(l)[2]:
            d["from_segment"], d["to_segment"] = d["to_segment"], d["from_segment"]
        if rt == "P":
            try:
                d["links"] = [tgt(x, True) for x in l.links]
            except Exception as e:  # noqa
                d["links"] = "EXC:" + e.__class__.__name__
        out.setdefault(nw(l)[1], []).append(d)
    for k in out:
        out[k].sort(key=repr)
    return out


def observe(gfapy, lines, vlevel, ver, check=False):
    try:
        g = gfapy.Gfa(list(lines), vlevel=vlevel, version=ver)
    except gfapy.Error as e:
        return ("gerr", e.__class__.__name__, str(e).split("\n")[0][:100])
    except Exception as e:  # noqa
        return ("foreign", e.__class__.__name__, str(e).split("\n")[0][:100])
    try:
        memo = {}
        o = fast_obs(g, memo)
        if check and o != lib.obs(g):
            return ("obs-raises", "HARNESS", "fast_obs differs from lib.obs")
        o = norm_obs(o)
        o["refs"] = ref_obs(gfapy, g, memo)
        return ("ok", o)
    except Exception as e:  # noqa
        return ("obs-raises", e.__class__.__name__, str(e).split("\n")[0][:100])


def diff_keys(a, b):
    return [k for k in ("version", "text", "names", "virtual", "back", "owner_ok", "refs") if a.get(k) != b.get(k)]


SHARED = "[orientation-of-a-link-used-by-two-path-steps]"


def only_shared_link_orientation(x, y):
    """True when two reference observations differ only in the orientation, in path.links, of links that are
    the link of two or more path steps of the document (the finding `SHARED` of the docstring)"""
    uses = {}
    for k, ds in x.items():
        for d in ds:
            if isinstance(d.get("links"), list):
                for t in d["links"]:
                    uses[t.rsplit(" ", 1)[0]] = uses.get(t.rsplit(" ", 1)[0], 0) + 1
    for k in set(x) | set(y):
        a, b = x.get(k), y.get(k)
        if a == b:
            continue
        if a is None or b is None or len(a) != len(b):
            return False
        for da, db in zip(a, b):
            if da == db:
                continue
            if set(da) != set(db) or any(da[f] != db[f] for f in da if f != "links"):
                return False
            la, lb = da["links"], db["links"]
            if not (isinstance(la, list) and isinstance(lb, list) and len(la) == len(lb)):
                return False
            for ta, tb in zip(la, lb):
                if ta != tb and (ta.rsplit(" ", 1)[0] != tb.rsplit(" ", 1)[0] or uses.get(ta.rsplit(" ", 1)[0], 0) < 2
                                 or {ta.rsplit(" ", 1)[1], tb.rsplit(" ", 1)[1]} != {"+", "-"}):
                    return False
    return True


def oracle(case, full_upto=None):
    gfapy = lib.import_gfapy()
    if excluded(case):
        return []
    lines = case["lines"]
    if not D.refs_closed(lines, case["version"]):
        return []
    vlevel, ver = case["vlevel"], case["ver_param"]
    full = full_upto if full_upto is not None else case.get("full", 6)
    ref = None
    F = {}
    for p in orders(case, full_upto=full):
        perm = [lines[i] for i in p]
        r = observe(gfapy, perm, vlevel, ver, check=(ref is None))
        if ref is None:
            ref = (p, r)
            if r[0] == "ok" and r[1]["virtual"]:
                F.setdefault("placeholder-left", "placeholder-left: %r remain after loading %r" % (r[1]["virtual"], perm))
            if r[0] == "obs-raises":
                F.setdefault("observation-raises[%s]" % r[1], "observation-raises[%s]: %s for order %r" % (r[1], r[2], perm))
            continue
        r0 = ref[1]
        if r[0] != r0[0] or (r[0] != "ok" and r[1] != r0[1]):
            a = r0[0] if r0[0] == "ok" else "%s %s" % (r0[1], r0[2])
            b = r[0] if r[0] == "ok" else "%s %s" % (r[1], r[2])
            sig = "order-dependent-outcome[%s|%s]" % tuple(sorted([r0[1] if r0[0] != "ok" else "ok",
                                                                 r[1] if r[0] != "ok" else "ok"]))
            F.setdefault(sig, "%s: order %r -> %s, but order %r -> %s" % (sig, [lines[i] for i in ref[0]], a, perm, b))
            continue
        if r[0] != "ok":
            continue
        if r[1]["virtual"]:
            F.setdefault("placeholder-left", "placeholder-left: %r remain after loading %r" % (r[1]["virtual"], perm))
        for k in diff_keys(r0[1], r[1]):
            sig = "order-dependent-" + k
            if k == "refs" and only_shared_link_orientation(r0[1][k], r[1][k]):
                sig += SHARED
            if sig not in F:
                x, y = r0[1][k], r[1][k]
                if isinstance(x, list):
                    dx = [e for e in x if e not in y][:2]
                    dy = [e for e in y if e not in x][:2]
                    det = "only first: %r; only second: %r" % (dx, dy)
                elif isinstance(x, dict):
                    ks = [e for e in sorted(set(x) | set(y)) if x.get(e) != y.get(e)][:1]
                    det = "at %r: %r vs %r" % (ks[0], x.get(ks[0]), y.get(ks[0]))
                else:
                    det = "%r vs %r" % (x, y)
                F[sig] = "%s: order %r vs order %r: %s" % (sig, [lines[i] for i in ref[0]], perm, det)
    return list(F.values())


def shrink(case, failure):
    sig = failure.split(":")[0]
    cur = dict(case)

    def still(c):
        try:
            return any(f.split(":")[0] == sig for f in oracle(c))
        except Exception:  # noqa
            return False

    changed = True
    while changed:
        changed = False
        for i in range(len(cur["lines"]) - 1, -1, -1):
            cand = cur["lines"][:i] + cur["lines"][i + 1:]
            if not cand or not D.refs_closed(cand, cur["version"]):
                continue
            c = dict(cur, lines=cand)
            if not excluded(c) and still(c):
                cur = c
                changed = True
        for i, l in enumerate(cur["lines"]):
            if l.startswith("#"):
                continue
            f = l.split("\t")
            k = D.split_tags(f)
            for j in range(len(f) - 1, k - 1, -1):
                cand = list(cur["lines"])
                g = cand[i].split("\t")
                if j >= len(g):
                    continue
                del g[j]
                cand[i] = "\t".join(g)
                c = dict(cur, lines=cand)
                if D.refs_closed(cand, cur["version"]) and not excluded(c) and still(c):
                    cur = c
                    changed = True
    return cur
