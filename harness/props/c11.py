"""C11 — segment neighbourhoods match the specification's edge semantics.

Oracle: real library only.  The expectation is derived from the TEXT of the edge lines by an independent geometric
rule (e_filing: whole interval on a side = containment, oriented suffix meeting oriented prefix = dovetail filed on
the end the interval touches, anything else internal; L/C/G by their orientations) and compared, for EVERY segment
of the graph, with
  * the seven end-typed collections dovetails_L/R, edges_to_contained/containers, internals, gaps_L/R (multisets of
    written lines: a hairpin `L A + A -` is attached twice to the right end of A and must be listed twice); every
    listed object must be a line OF THE GRAPH (one of Gfa.lines, connected to this Gfa, not virtual): a placeholder, a
    line which was removed or a copy which merely reads the same is not;
  * the answers which follow from them: dovetails_of_end / gaps_of_end / dovetails / gaps / containments / edges
    (concatenations), neighbours_L / neighbours_R / neighbours_of_end / neighbours, containers, contained (the segment
    on the other side of each listed line: first as sets of segments, then with multiplicities - ONE ENTRY FOR EACH LINE
    of the collection(s) asked about; a line which is attached twice to the segment, a hairpin `A + A -` on one end or a
    loop `A + A +` on both ends, is one line and gives one entry, two parallel lines to B give B twice) and the
    connectivity pair (segment._connectivity(), the answer linear_path / is_cut_segment / remove_dead_ends consult; it
    has no public alias): per end 0, 1 or 'M' by the NUMBER OF ATTACHMENTS listed in dovetails_L / dovetails_R;
  * the connectivity answers of the graph, which count dovetails only and follow from the dovetail collections (the
    expectation is a union-find over the lines the geometric rule calls dovetails; ends and orientations do not matter):
    Gfa.connected_components() is the partition of the segments, segment_connected_component(s) the part of s (one
    segment per graph), Gfa.is_cut_segment(s) (every segment, given as line or as name) is true iff the rest of the
    component of s falls into two or more parts when s is taken away - in particular for a segment with a dead end
    and several dovetails on the other end (connectivity (0, M) / (M, 0)) whose branches meet nowhere else.  (Not asked
    again inside the take-out / put-back cycle of the single cases.);
  * per edge: is_dovetail / is_containment / is_internal against the geometric type, membership in Gfa.dovetails and
    Gfa.containments, from_end / to_end / other_end of dovetails, the container/contained roles of containments
    and other(segment) of every edge.
Cases:
  * single (exhaustive): one E line for every (orientation, interval kind)^2 between two segments and as a
    self-edge, every L/C/G orientation pair, in several arrival orders of the three lines (the edge may come before
    its segments: placeholder substitution), every third one followed by a rename.  After the comparison the edge is
    taken out (`cycle`: Gfa.rm / line.disconnect, alternating) and every collection of every segment must be empty;
    then it is put back (a fresh line with the same text / the same object through add_line / connect) and the
    first filing must be there again;
  * single with a path (exhaustive): every L orientation pair between two segments and as a self-link (loops
    `A + A +`, `A - A -` touch BOTH ends of A; hairpins one end twice) together with a two-step GFA1 path which walks
    the link in its own or in the complement direction, in all 24 arrival orders of the four lines: when the path
    arrives first the link is a placeholder (virtual line) in the segments' collections until the L line replaces it;
    followed by the same take-out / put-back cycle (the path goes away with its link);
  * single, taken out before its segments arrive (exhaustive, tag `late`): every L/C/G orientation pair and E lines
    of the three types, between two segments (the S line of the first, of the second or of both still missing) and
    as a self-edge: the edge arrives while the segments `late` are placeholders, it is taken out again (Gfa.rm /
    line.disconnect) and only then the missing S lines arrive (the version of the Gfa is stated, so that no line waits
    in the queue): the real segment must not inherit the line from its placeholder - every collection of every
    segment is empty; then the edge is put back as in `cycle`;
  * multi (random): 2-6 parallel / mixed edges on 3 segments in a shuffled arrival order; about 40% are GFA1 graphs
    (L and C lines only; one third of the links are self-links), most of them with 1-2 paths over their links
    shuffled among the other lines;
  * fork (random, about 15% of the multi / edit graphs, tag `fork`): on 3 or 4 segments (A-C / A-D), GFA1 (L, C) or
    GFA2 (E, G); one segment (the hub) has all its dovetails on ONE end, 1-2 to each of 2-3 other segments, in any
    orientation / either segment written first (GFA2: intervals chosen with the geometric rule); in 45% further
    dovetails join some of the other segments to each other (the hub is then a cut segment only if a branch is left
    out), in 10% a hairpin sits on the busy end of the hub or a loop on a branch; 0-2 lines which do not connect
    (containment, internal alignment, gap) come on top.  Every 4th goes through the editing steps like any other graph;
  * late (random, about 20% of the multi / fork / edit graphs, tag `late`): the S lines of 1-2 of the segments are
    held back to the very end; when everything else has arrived (the edges, gaps and paths which mention those
    segments are attached to placeholders) 1-3 of the edge / gap lines, mostly ones which mention a held-back
    segment, are taken out again (Gfa.rm / line.disconnect; a path over a removed link goes with it), and only then
    the S lines arrive.  The collections are those of the lines which are still in the graph;
  * edit (random, every 4th): a multi graph followed by 1-4 steps through the public editing routes, the whole
    comparison being repeated after every step: an edge instance is taken out (Gfa.rm or line.disconnect), its
    reference fields are changed (other intervals / orientations / segments; given as strings or as
    int / LastPos / OrientedLine values - legal only on a disconnected line) and it is put back (Gfa.add_line,
    line.connect) or replaced by a fresh line with the new text; an edge is removed for good; an edge is added (a
    GFA1 link every second time after a path which needs it, so that the L line replaces a placeholder); a
    segment is renamed.  The filing must always be that of the CURRENT text of the lines.

NOT CHECKED:
  * the order inside a collection and inside neighbours / containers / contained;
  * is_cut_link, remove_dead_ends and the other consumers of the connectivity answers;
  * a step refused with a gfapy.Error ends the history (atomicity of refused steps is C08's business);
  * removal of segments (cascade: C03/C09), fragments and sets (C12/C13); paths are only there to make links arrive
    as placeholders: what the paths themselves refer to is C12's business; a path always walks a link of the graph,
    so no placeholder link is ever expected to stay;
  * segments of length 0.
"""
import itertools
from harness import lib
from harness.lib import op

ID = "C11"
LEAN = {
    "modules": ["GfaProofs.Bridge.Geometry", "GfaProofs.C11"],
    "support": ["GfaModel.Geometry", "GfaModel.GeometrySpec"],
    "theorems": [
        "Gfa.C11.substring_type_spec", "Gfa.C11.substring_type_rejects", "Gfa.C11.refkey_matches_geometry",
        "Gfa.C11.alignment_type_matches_geometry", "Gfa.C11.filing_agrees_with_type", "Gfa.C11.segment_role_spec",
        "Gfa.C11.is_sid1_from_spec", "Gfa.C11.from_defined_iff", "Gfa.C11.link_ends", "Gfa.C11.link_keys",
        "Gfa.C11.gap_keys", "Gfa.C11.edge_link_ends_agree",
        "Gfa.Bridge.Geometry.substringType_eq", "Gfa.Bridge.Geometry.refkey_table", "Gfa.Bridge.Geometry.alnType_table",
        "Gfa.Bridge.Geometry.segmentRole_table", "Gfa.Bridge.Geometry.segmentRole_classes",
        "Gfa.Bridge.Geometry.isSid1From_table", "Gfa.Bridge.Geometry.gapKey_table", "Gfa.Bridge.Geometry.linkKey_table",
        "Gfa.Bridge.Geometry.containment_filing", "Gfa.Bridge.Geometry.link_ends", "Gfa.Bridge.Geometry.invert_table",
    ],
}
RULE = ("exhaustive: every (orientation, interval kind)^2 E line (7 kinds x 2 orientations per side = 196) between two "
        "segments and as a self-edge, every L/C/G orientation pair, each in all 6 arrival orders of its three lines, "
        "optionally followed by a rename, then taken out (rm/disconnect: all collections empty) and put back; every "
        "L orientation pair (two segments / self-link) with a path over the link in all 24 arrival orders (the link "
        "is a placeholder when the path comes first), then the same cycle; every L/C/G orientation pair and E lines of "
        "each type taken out again (rm/disconnect) while the S line of one or both of their segments is still missing: "
        "after the S lines have arrived all collections are empty, then put back; random: graphs with several "
        "parallel/mixed edges on 3 segments (GFA2, or GFA1 with paths over the links), about 15% of them forks on 3-4 segments "
        "(all dovetails of one segment on one end, leading to 2-3 segments which are joined elsewhere or not), in about 20% "
        "the S lines of 1-2 segments arrive last, after 1-3 of the edge/gap lines (mostly ones attached to those "
        "placeholder segments) were taken out again by rm/disconnect, every 4th "
        "followed by 1-4 editing steps (edge taken out by rm/disconnect, reference fields changed, put back by "
        "add_line/connect or as a fresh line; edge removed; edge added, a link also after a path which needs it; "
        "segment renamed) with the comparison after "
        "every step. Collections (texts and identity of the listed lines), derived answers (neighbours, containers, contained "
        "with one entry per listed line, connectivity, other-end), the connectivity of the graph over the dovetails "
        "(connected_components, segment_connected_component, is_cut_segment of every segment against a union-find) and "
        "edge classification are compared for every segment and edge. Non-trivial: every case with at least one "
        "edge (all of them); distinct by case hash.")
ASSUMPTIONS = ["segments of length 0 are outside the theorem (ValidIv needs n>0): run on the real library only"]
TRUSTED = ["GfaModel/Geometry.lean hand-written; tied by T3 translation of _substring_type and T2 tables over complete domains"]

LEN = {"A": 10, "B": 8, "C": 6, "D": 12}      # D only in the fork graphs with four segments


def kinds(n):
    return [(0, 0), (0, n // 2), (2, n - 2), (3, 3), (n - 4, n), (n, n), (0, n)]


def pos(x, n):
    return "%d$" % x if x == n else str(x)


# ------------------------------------------------------------------ independent geometric rule (python)
def touches_start(o, n, b, e):
    return b == 0 if o == "+" else e == n


def touches_end(o, n, b, e):
    return e == n if o == "+" else b == 0


def whole(n, b, e):
    return b == 0 and e == n


def e_filing(o1, n1, b1, e1, o2, n2, b2, e2):
    """-> (type, key on sid1, key on sid2, sid1_is_from or None)"""
    w1, w2 = whole(n1, b1, e1), whole(n2, b2, e2)
    if w1 or w2:
        if w1 and w2:
            return ("C", "edges_to_contained", "edges_to_containers", True)
        if w1:
            return ("C", "edges_to_containers", "edges_to_contained", False)
        return ("C", "edges_to_contained", "edges_to_containers", True)
    s1, t1 = touches_start(o1, n1, b1, e1), touches_end(o1, n1, b1, e1)
    s2, t2 = touches_start(o2, n2, b2, e2), touches_end(o2, n2, b2, e2)
    if (t1 and s2) or (s1 and t2):
        k1 = "dovetails_L" if b1 == 0 else "dovetails_R"
        k2 = "dovetails_L" if b2 == 0 else "dovetails_R"
        frm = None
        if t1 and not s1 and s2 and not t2:
            frm = True
        elif t2 and not s2 and s1 and not t1:
            frm = False
        return ("L", k1, k2, frm)
    return ("I", "internals", "internals", None)


# ------------------------------------------------------------------ cases
def _ex_space():
    sp = []
    for second in ("B", "A"):
        for o1 in "+-":
            for k1 in range(7):
                for o2 in "+-":
                    for k2 in range(7):
                        sp.append(("E", second, o1, k1, o2, k2))
    for rt in "LCG":
        for second in ("B", "A"):
            for o1 in "+-":
                for o2 in "+-":
                    sp.append((rt, second, o1, 0, o2, 0))
    return sp


EX = _ex_space()
# a link and a path which needs it, in every arrival order of the four lines (the path before the link: the link is
# first a placeholder which the L line replaces): (second segment, o1, o2, direction in which the path walks the link)
EXP = [(second, o1, o2, pdir) for second in ("B", "A") for o1 in "+-" for o2 in "+-" for pdir in ("fwd", "rev")]
OFF = ["rm", "disconnect"]
BACK = ["fresh", "add_line", "connect"]
# an edge which is taken out again BEFORE the S line(s) of its segment(s) arrive (`late`): every L/C/G orientation pair
# and E lines of the three types (dovetail on either end, containment either way, internal alignment), between two
# segments (late: the first, the second or both, in turn) and as a self-edge
EXL = ([(rt, second, o1, 0, o2, 0) for rt in "LCG" for second in ("B", "A") for o1 in "+-" for o2 in "+-"] +
       [("E", second, o1, k1, o2, k2) for second in ("B", "A") for o1 in "+-" for o2 in "+-"
        for k1, k2 in ((4, 1), (1, 4), (6, 3), (2, 6), (3, 3))])
LATE = [["A"], ["B"], ["A", "B"]]


def n_exhaustive(tier):
    return len(EX) * (6 if tier == "thorough" else 2) + len(EXP) * 24 + len(EXL)


def exhaustive_case(i, tier):
    nper = 6 if tier == "thorough" else 2
    if i >= len(EX) * nper + len(EXP) * 24:
        i -= len(EX) * nper + len(EXP) * 24
        rt, second, o1, k1, o2, k2 = EXL[i]
        return {"kind": "single", "rt": rt, "second": second, "o1": o1, "k1": k1, "o2": o2, "k2": k2, "perm": 0,
                "late": ["A"] if second == "A" else LATE[i % 3], "cycle": [OFF[(i // 3) % 2], BACK[(i // 2) % 3]]}
    if i >= len(EX) * nper:
        i -= len(EX) * nper
        second, o1, o2, pdir = EXP[i // 24]
        return {"kind": "single", "rt": "L", "second": second, "o1": o1, "k1": 0, "o2": o2, "k2": 0, "perm": i % 24,
                "path": pdir, "rename": (i % 5 == 0), "cycle": [OFF[(i // 24 + i) % 2], BACK[i % 3]]}
    rt, second, o1, k1, o2, k2 = EX[i // nper]
    j = i % nper
    perm = j if tier == "thorough" else (i // nper + j * 3) % 6
    return {"kind": "single", "rt": rt, "second": second, "o1": o1, "k1": k1, "o2": o2, "k2": k2, "perm": perm,
            "rename": (i % 3 == 0), "cycle": [OFF[i % 2], BACK[(i // nper) % 3]]}


def budget(tier):
    return 400 if tier == "quick" else 8000


FRESH = ["Z", "Y", "X"]


def _rand_edge(rng):
    a, b = rng.choice("ABC"), rng.choice("ABC")
    rt = rng.choice("EEELCG")
    return [rt, a, rng.choice("+-"), rng.randrange(7), b, rng.choice("+-"), rng.randrange(7)]


def _dovetail_on(rng, v1, hub, end, other):
    """a random dovetail line (GFA1: L; GFA2: E, chosen with the geometric rule) between hub and other (either may be
    written first) which attaches to the end `end` of hub"""
    while True:
        a, b = (hub, other) if rng.random() < 0.5 else (other, hub)
        spec = ["L" if v1 else "E", a, rng.choice("+-"), rng.randrange(7), b, rng.choice("+-"), rng.randrange(7)]
        txt, filing, typ, frm = edge_line(*spec)
        if typ == "L" and (hub, "dovetails_" + end) in filing and (hub, "dovetails_" + INV_END[end]) not in filing:
            return spec


def _fork_edges(rng, v1, segs):
    """a fork: all the dovetails of the segment `hub` attach to ONE of its ends (the other end is a dead end:
    connectivity (0, M) / (M, 0)) and lead to 2-3 other segments (`branches`; parallel lines to the same branch
    now and then); the branches are joined to each other by further dovetails or not (the hub is a cut segment iff
    some branch is reached through the hub only); lines of the other kinds (containments, internal alignments, gaps:
    no connection) come on top, also between the hub and its branches"""
    others = list(segs); rng.shuffle(others)
    hub = others.pop()
    end = rng.choice("LR")
    branches = others[:rng.randint(2, len(others))]
    edges = []
    for b in branches:
        for _ in range(rng.choice([1, 1, 1, 2])):
            edges.append(_dovetail_on(rng, v1, hub, end, b))
    r = rng.random()
    if r < 0.45:                           # some of the branches joined to each other, on any of their ends
        for _ in range(rng.randint(1, 2)):
            x, y = rng.sample(others, 2)
            edges.append(_dovetail_on(rng, v1, x, rng.choice("LR"), y))
    elif r < 0.55:                         # a hairpin on the busy end of the hub / a loop on a branch
        k = 4 if end == "R" else 1         # (GFA2) suffix / prefix of the hub, once as it is and once reversed
        edges.append(["L" if v1 else "E"] + ([hub, "+" if end == "R" else "-", k, hub, "-" if end == "R" else "+", k]
                                            if rng.random() < 0.5 else [branches[0], "+", 4, branches[0], "+", 1]))
    for _ in range(rng.randint(0, 2)):     # no connection: containment, internal alignment, gap
        e = _rand_edge(rng)
        e[1], e[4] = rng.choice(segs), rng.choice(segs)
        e[0] = "C" if v1 else rng.choice("EEG")
        if e[0] != "E" or edge_line(*e)[2] != "L":
            edges.append(e)
    rng.shuffle(edges)
    return edges


INV_END = {"L": "R", "R": "L"}


def gen_case(rng, tier, i):
    fork = rng.random() < 0.15
    if fork:
        segs = rng.choice(["ABC", "ABCD"])
        v1 = rng.random() < 0.4
        edges = _fork_edges(rng, v1, segs)
    else:
        edges = [_rand_edge(rng) for _ in range(rng.randint(2, 6))]
    case = {"kind": "multi", "edges": edges, "shuffle": rng.randrange(10 ** 6)}
    if fork:
        case["shape"] = "fork"
        if segs != "ABC":
            case["segs"] = segs
        if v1:
            links = [j for j, e in enumerate(edges) if e[0] == "L"]
            case["paths"] = [[rng.choice(links), rng.choice(["fwd", "rev"])] for _ in range(rng.choice([0, 0, 1]))]
    elif rng.random() < 0.35:              # a GFA1 graph (L and C lines only), with paths over some of its links
        for e in edges:
            if e[0] in "EG":
                e[0] = rng.choice("LLC")
        links = [j for j, e in enumerate(edges) if e[0] == "L"]
        case["paths"] = [[rng.choice(links), rng.choice(["fwd", "rev"])] for _ in range(rng.choice([0, 1, 1, 2]))] if links else []
    if rng.random() < 0.2:
        # ---- some S lines arrive last, and before they do 1-3 of the lines which are there already are taken out
        # again (mostly lines which mention a segment that is still a placeholder)
        segs_all = case.get("segs", "ABC")
        late = rng.sample(list(segs_all), rng.choice([1, 1, 2]))
        near = [j for j, e in enumerate(edges) if e[1] in late or e[4] in late]
        rm = []
        for _ in range(rng.randint(1, 3)):
            j = rng.choice(near) if near and rng.random() < 0.8 else rng.randrange(len(edges))
            if j not in [x[0] for x in rm]:
                rm.append([j, rng.choice(OFF)])
        case["late"] = {"segs": sorted(late), "rm": rm}
    if i % 4 != 3:
        return case
    # ---- editing history: the specs of the edges as they will be after each step are tracked by the oracle
    case["kind"] = "edit"
    v2 = any(e[0] in "EG" for e in edges)
    steps = []
    n_edges = len(edges)
    for _ in range(rng.randint(1, 4)):
        r = rng.random()
        if r < 0.70:
            j = rng.randrange(n_edges)
            new = {}
            what = rng.random()
            if what < 0.45:                # other intervals only
                new = {"k1": rng.randrange(7), "k2": rng.randrange(7)}
            elif what < 0.65:              # other orientations only
                new = {"o1": rng.choice("+-"), "o2": rng.choice("+-")}
            elif what < 0.80:              # other segments only
                new = {"a": rng.choice("ABC"), "b": rng.choice("ABC")}
            elif what < 0.95:              # everything
                new = {"k1": rng.randrange(7), "k2": rng.randrange(7), "o1": rng.choice("+-"), "o2": rng.choice("+-"),
                       "a": rng.choice("ABC"), "b": rng.choice("ABC")}
            steps.append(["edit", j, rng.choice(["rm", "disconnect"]), rng.choice(["add_line", "connect", "connect", "fresh"]),
                          rng.choice(["str", "typed"]), new])
        elif r < 0.80:
            steps.append(["rm", rng.randrange(n_edges), rng.choice(["rm", "disconnect"])])
        elif r < 0.90:
            e = _rand_edge(rng)
            if not v2:
                e[0] = rng.choice("LLC")
            # GFA1 links: now and then a path which needs the link is added first (the link is a placeholder until
            # the L line arrives)
            steps.append(["add", e, (not v2) and e[0] == "L" and rng.random() < 0.5])
            n_edges += 1
        else:
            steps.append(["rename", rng.choice("ABC")])
    case["steps"] = steps
    return case


def nontrivial(case):
    return True


def tags(case):
    if case["kind"] == "single":
        return (["single:" + case["rt"], "self" if case["second"] == "A" else "pair"] + (["path"] if case.get("path") else []) +
                (["late"] if case.get("late") else []))
    t = [case["kind"], "n%d" % len(case["edges"]), "gfa%d" % _version(case)]
    if case.get("late"):
        t.append("late")
    if case.get("shape"):
        t.append(case["shape"]); t.append("segs%d" % len(case.get("segs", "ABC")))
    if case.get("paths"):
        t.append("paths")
    for st in case.get("steps", []):
        t.append("step-" + st[0])
        if st[0] == "edit":
            t.append("off-" + st[2]); t.append("on-" + st[3])
    return sorted(set(t))


def signature(case, failure):
    return failure.split(":")[0]


def shrink(case, failure):
    if case["kind"] != "edit":
        return case
    sig = signature(case, failure)
    cur = dict(case)
    changed = True
    while changed:
        changed = False
        for j in reversed(range(len(cur["steps"]))):
            c2 = dict(cur); c2["steps"] = cur["steps"][:j] + cur["steps"][j + 1:]
            try:
                ok = any(signature(c2, f) == sig for f in oracle(c2))
            except Exception:  # noqa
                ok = False
            if ok:
                cur = c2; changed = True
                break
    return cur


def edge_line(rt, a, o1, k1, b, o2, k2, idx=None, nm=None):
    """text of the edge line + expected filing [(segment, key)] (segments by their ORIGINAL names), type, sid1-is-from;
    nm: original name -> current name"""
    na, nb = (nm or {}).get(a, a), (nm or {}).get(b, b)
    if rt == "E":
        n1, n2 = LEN[a], LEN[b]
        b1, e1 = kinds(n1)[k1]; b2, e2 = kinds(n2)[k2]
        txt = "E\t%s\t%s%s\t%s%s\t%s\t%s\t%s\t%s\t*" % ("*" if idx is None else "e%d" % idx, na, o1, nb, o2,
                                                     pos(b1, n1), pos(e1, n1), pos(b2, n2), pos(e2, n2))
        t, ka, kb, frm = e_filing(o1, n1, b1, e1, o2, n2, b2, e2)
        return txt, [(a, ka), (b, kb)], t, frm
    if rt == "L":
        txt = "L\t%s\t%s\t%s\t%s\t*" % (na, o1, nb, o2)
        return txt, [(a, "dovetails_R" if o1 == "+" else "dovetails_L"), (b, "dovetails_L" if o2 == "+" else "dovetails_R")], "L", True
    if rt == "C":
        txt = "C\t%s\t%s\t%s\t%s\t1\t*" % (na, o1, nb, o2)
        return txt, [(a, "edges_to_contained"), (b, "edges_to_containers")], "C", True
    if rt == "G":
        txt = "G\t%s\t%s%s\t%s%s\t50\t*" % ("*" if idx is None else "g%d" % idx, na, o1, nb, o2)
        return txt, [(a, "gaps_R" if o1 == "+" else "gaps_L"), (b, "gaps_L" if o2 == "+" else "gaps_R")], "G", None


def path_line(name, spec, pdir, nm=None):
    """a GFA1 path of two steps which walks the link `spec` from its from-side to its to-side (fwd) or the other way
    round, that is over the complement spelling of the link (rev)"""
    rt, a, o1, k1, b, o2, k2 = spec
    na, nb = (nm or {}).get(a, a), (nm or {}).get(b, b)
    steps = [na + o1, nb + o2] if pdir == "fwd" else [nb + INV[o2], na + INV[o1]]
    return "P\t%s\t%s\t*" % (name, ",".join(steps))


COLLS = ["dovetails_L", "dovetails_R", "edges_to_contained", "edges_to_containers", "internals", "gaps_L", "gaps_R"]
# answers that are plain concatenations of the collections: (how to ask, collections)
CONCAT = [
    (lambda s: s.dovetails_of_end("L"), "dovetails_of_end(L)", ["dovetails_L"]),
    (lambda s: s.dovetails_of_end("R"), "dovetails_of_end(R)", ["dovetails_R"]),
    (lambda s: s.gaps_of_end("L"), "gaps_of_end(L)", ["gaps_L"]),
    (lambda s: s.gaps_of_end("R"), "gaps_of_end(R)", ["gaps_R"]),
    (lambda s: s.dovetails, "dovetails", ["dovetails_L", "dovetails_R"]),
    (lambda s: s.gaps, "gaps", ["gaps_L", "gaps_R"]),
    (lambda s: s.containments, "containments", ["edges_to_contained", "edges_to_containers"]),
    (lambda s: s.edges, "edges", ["dovetails_L", "dovetails_R", "edges_to_contained", "edges_to_containers", "internals"]),
]


def seg_line(name, v):
    return "S\t%s\t*\tLN:i:%d" % (name, LEN[name]) if v == 1 else "S\t%s\t%d\t*" % (name, LEN[name])


INV = {"+": "-", "-": "+"}


def _dupkey(spec):
    """GFA1 lines have no identifier: a C line is the same line if its text is the same, a link also if it is the
    complement of the other (gfapy stores one line for the two spellings); E and G lines carry their own identifier"""
    rt, a, o1, k1, b, o2, k2 = spec
    if rt == "L":
        return ("L",) + min((a, o1, b, o2), (b, INV[o2], a, INV[o1]))
    if rt == "C":
        return ("C", a, o1, b, o2)
    return None


def _clash(spec, edges, but=None):
    k = _dupkey(spec)
    return k is not None and any(x is not None and x is not but and _dupkey(x["spec"]) == k for x in edges)


def _version(case):
    if case["kind"] == "single":
        return 1 if case["rt"] in "LC" else 2
    return 2 if any(e[0] in "EG" for e in case["edges"]) else 1


def build(case):
    """-> g, edges, order; an edge is a dict: spec [rt, a, o1, k1, b, o2, k2], idx (identifier number or None), txt"""
    gfapy = lib.import_gfapy()
    v = _version(case)
    if case["kind"] == "single":
        rt = case["rt"]
        a, b = "A", case["second"]
        spec = [rt, a, case["o1"], case["k1"], b, case["o2"], case["k2"]]
        txt = edge_line(*spec)[0]
        lines = [seg_line(n, v) for n in sorted({a, b})] + [txt]
        if len(lines) == 2:
            lines.append("#c")
        if case.get("path"):
            lines.append(path_line("p", spec, case["path"]))
        perms = list(itertools.permutations(lines))
        order = perms[case["perm"] % len(perms)]
        edges = [{"spec": spec, "idx": None, "txt": txt}]
    else:
        edges = []
        lines = [seg_line(n, v) for n in case.get("segs", "ABC")]
        for i, e in enumerate(case["edges"]):
            spec = list(e)
            if v == 2 and spec[0] in "LC":
                spec[0] = "E"
            txt = edge_line(*spec, idx=i)[0]
            if _clash(spec, edges):
                continue
            edges.append({"spec": spec, "idx": i, "txt": txt})
            lines.append(txt)
        if v == 1:
            # each of these links (or a line with the same meaning) is in the graph: the paths need no other link
            for n, (j, pdir) in enumerate(case.get("paths", [])):
                lines.append(path_line("p%d" % n, case["edges"][j], pdir))
        r = lib.Rng(case["shuffle"]); order = list(lines); r.shuffle(order)
    g = gfapy.Gfa(vlevel=1)
    late = case.get("late") if case["kind"] != "single" else None
    if not late:
        for l in order:
            g.add_line(l)
        return g, edges, order
    # ---- the S lines of late["segs"] arrive last; before they do, the edge lines late["rm"] are taken out again
    # (Gfa.rm / line.disconnect): they are no lines of the graph any more, whatever arrives afterwards
    last = [seg_line(n, v) for n in late["segs"]]
    first = [l for l in order if l not in last]
    for l in first:
        g.add_line(l)
    done = list(first)
    for j, how in late["rm"]:
        e = [x for x in edges if x["idx"] == j]
        if not e:
            continue          # left out: the same GFA1 line as an earlier one
        cand = [l for l in g.lines if str(l) == e[0]["txt"]]
        if len(cand) != 1:
            continue          # cannot happen: compare() reports it (edge-lines-wrong) if the line is not there at the end
        if how == "rm":
            g.rm(cand[0])
        else:
            cand[0].disconnect()
        edges.remove(e[0])
        done.append("<%s %s>" % (how, e[0]["txt"]))
    for l in last:
        g.add_line(l)
    return g, edges, done + last


def compare(g, edges, nm, ctx, graph=True):
    """the whole comparison for the graph g whose edge lines are `edges` (dicts with the CURRENT spec) and whose
    segments A, B, C are currently called nm[...]; graph=False: without the questions about the connectivity of the
    whole graph (components, cut segments)"""
    gfapy = lib.import_gfapy()
    F = []
    inv = {v: k for k, v in nm.items()}
    exp = {}                      # (original segment name, collection) -> [(text, other segment's original name)]
    expn = {}                     # the same attachments as (number of the edge line, other segment's original name)
    info = []
    for n, e in enumerate(edges):
        txt, filing, typ, frm = edge_line(*e["spec"], idx=e["idx"], nm=nm)
        a, b = e["spec"][1], e["spec"][4]
        info.append((e, txt, filing, typ, frm))
        exp.setdefault((a, filing[0][1]), []).append((txt, b))
        exp.setdefault((b, filing[1][1]), []).append((txt, a))
        expn.setdefault((a, filing[0][1]), []).append((n, b))
        expn.setdefault((b, filing[1][1]), []).append((n, a))

    def per_line(o, ks):
        """one segment for each LINE listed in the collections ks of o: a line which is attached twice (hairpin: one
        end twice; loop: both ends) is still one line"""
        seen, out = set(), []
        for k in ks:
            for n, x in expn.get((o, k), []):
                if n not in seen:
                    seen.add(n); out.append(nm[x])
        return sorted(out)
    segs = list(g.segments)
    if sorted(str(s.name) for s in segs) != sorted(nm.values()):
        return ["segments-wrong: %r expected %r (%s)" % (sorted(str(s.name) for s in segs), sorted(nm.values()), ctx)]
    in_graph = set(id(l) for l in g.lines)
    for s in segs:
        o = inv[str(s.name)]
        for k in COLLS:
            got = sorted(str(x) for x in getattr(s, k))
            want = sorted(t for t, _ in exp.get((o, k), []))
            if got != want:
                F.append("collection-wrong: %s.%s has %r expected %r (%s)" % (s.name, k, got, want, ctx))
            else:
                # ... the lines OF THE GRAPH: not a placeholder, a removed line or a copy which reads the same
                for x in getattr(s, k):
                    if id(x) not in in_graph or x.virtual or x.gfa is not g:
                        F.append("collection-wrong: %s.%s lists %r which is not a line of the graph (virtual: %r, in Gfa.lines: "
                                 "%r) (%s)" % (s.name, k, str(x), x.virtual, id(x) in in_graph, ctx))
    if F:
        return F
    # ---------------------------------------------------------------- answers which follow from the collections
    for s in segs:
        o = inv[str(s.name)]
        for ask, label, ks in CONCAT:
            got = sorted(str(x) for x in ask(s))
            want = sorted(t for k in ks for t, _ in exp.get((o, k), []))
            if got != want:
                F.append("derived-collection-wrong: %s.%s has %r expected %r (%s)" % (s.name, label, got, want, ctx))
        nL = set(nm[x] for _, x in exp.get((o, "dovetails_L"), []))
        nR = set(nm[x] for _, x in exp.get((o, "dovetails_R"), []))
        for ask, label, want, ks in (
                (lambda: s.neighbours_L, "neighbours_L", nL, ["dovetails_L"]),
                (lambda: s.neighbours_R, "neighbours_R", nR, ["dovetails_R"]),
                (lambda: s.neighbours_of_end("L"), "neighbours_of_end(L)", nL, ["dovetails_L"]),
                (lambda: s.neighbours_of_end("R"), "neighbours_of_end(R)", nR, ["dovetails_R"]),
                (lambda: s.neighbours, "neighbours", nL | nR, ["dovetails_L", "dovetails_R"]),
                (lambda: s.containers, "containers", set(nm[x] for _, x in exp.get((o, "edges_to_containers"), [])),
                 ["edges_to_containers"]),
                (lambda: s.contained, "contained", set(nm[x] for _, x in exp.get((o, "edges_to_contained"), [])),
                 ["edges_to_contained"])):
            got = ask()
            fam = "neighbours" if label.startswith("neigh") else "containers"
            if not all(isinstance(x, gfapy.Line) and x.gfa is g for x in got) or set(str(x.name) for x in got) != want:
                F.append("%s-wrong: %s.%s is %r expected %r (%s)" % (
                    fam, s.name, label, sorted(str(getattr(x, "name", x)) for x in got), sorted(want), ctx))
            elif sorted(str(x.name) for x in got) != per_line(o, ks):
                # the right segments, but not one entry for each line of the collection(s)
                F.append("%s-count-wrong: %s.%s is %r expected %r: one entry for each of the %d line(s) listed in %s (a line "
                         "attached twice to the segment is one line) (%s)" % (
                             fam, s.name, label, sorted(str(x.name) for x in got), per_line(o, ks), len(per_line(o, ks)),
                             " + ".join(ks), ctx))
        nl, nr = len(exp.get((o, "dovetails_L"), [])), len(exp.get((o, "dovetails_R"), []))
        want = tuple("M" if n > 1 else n for n in (nl, nr))
        r = lib.outcome(s._connectivity)
        if r[0] != "ok" or tuple(r[1]) != want:
            F.append("connectivity-wrong: %s has %r, the lines attach %d time(s) to its left and %d time(s) to its right "
                     "end: expected %r (%s)" % (s.name, r[1], nl, nr, want, ctx))
    # ---------------------------------------------------------------- connectivity of the graph (dovetails only)
    if graph:
        F.extend(_graph_connectivity(g, segs, inv, nm, info, expn, ctx))
    # ---------------------------------------------------------------- per edge
    by_text = {}
    for l in g.lines:
        if l.record_type in "LCEG":
            by_text.setdefault(str(l), []).append(l)
    want_dov = sorted(txt for e, txt, filing, typ, frm in info if typ == "L")
    want_cont = sorted(txt for e, txt, filing, typ, frm in info if typ == "C")
    if sorted(str(x) for x in g.dovetails) != want_dov:
        F.append("gfa-dovetails-wrong: %r expected %r (%s)" % (sorted(str(x) for x in g.dovetails), want_dov, ctx))
    if sorted(str(x) for x in g.containments) != want_cont:
        F.append("gfa-containments-wrong: %r expected %r (%s)" % (sorted(str(x) for x in g.containments), want_cont, ctx))
    for e, txt, filing, typ, frm in info:
        if len(by_text.get(txt, [])) != 1:
            F.append("edge-lines-wrong: %r is %d times in the Gfa (%s)" % (txt, len(by_text.get(txt, [])), ctx))
            continue
        ln = by_text[txt][0]
        rt, a, o1, k1, b, o2, k2 = e["spec"]
        if typ in "LCI":
            flags = (ln.is_dovetail(), ln.is_containment(), ln.is_internal())
            if flags != (typ == "L", typ == "C", typ == "I"):
                F.append("type-wrong: %s classified %r expected %s (%s)" % (txt, flags, typ, ctx))
        A = g.segment(nm[a]); B = g.segment(nm[b])
        if typ == "L" and frm is not None:
            fs, ts = (A, B) if frm else (B, A)
            fo, to = (o1, o2) if frm else (o2, o1)
            fe = gfapy.SegmentEnd(fs, "R" if fo == "+" else "L"); te = gfapy.SegmentEnd(ts, "L" if to == "+" else "R")
            if not (ln.from_end == fe and ln.to_end == te):
                F.append("link-ends-wrong: %s from_end %s to_end %s (%s)" % (txt, ln.from_end, ln.to_end, ctx))
            elif fe != te and (ln.other_end(fe) != te or ln.other_end(te) != fe):
                F.append("other-end-wrong: %s (%s)" % (txt, ctx))
            elif fe == te and ln.other_end(fe) != fe:
                F.append("other-end-wrong: %s (hairpin) (%s)" % (txt, ctx))
            # the ends named by the edge are the ends it is filed on
            ends_spec = sorted([(nm[filing[0][0]], filing[0][1][-1]), (nm[filing[1][0]], filing[1][1][-1])])
            ends_lib = sorted([(str(ln.from_end.name), str(ln.from_end.end_type)), (str(ln.to_end.name), str(ln.to_end.end_type))])
            if ends_spec != ends_lib:
                F.append("link-ends-wrong: %s names the ends %r but is filed on %r (%s)" % (txt, ends_lib, ends_spec, ctx))
        if typ == "C" and frm is not None:
            cont, inner = (A, B) if frm else (B, A)
            if ln.from_segment is not cont or ln.to_segment is not inner:
                F.append("containers-wrong: %s: container %s contained %s (%s)" % (txt, ln.from_segment, ln.to_segment, ctx))
        if typ != "G" and (ln.other(A) is not B or ln.other(B) is not A):
            F.append("other-wrong: %s (%s)" % (txt, ctx))
    return F


def _parts(nodes, links, without=None):
    """the connected parts of the segments `nodes` joined by `links` [(a, b)], the segment `without` taken away"""
    nodes = [x for x in nodes if x != without]
    root = {x: x for x in nodes}

    def find(x):
        while root[x] != x:
            x = root[x]
        return x
    for a, b in links:
        if a in root and b in root:
            ra, rb = find(a), find(b)
            if ra != rb:
                root[ra] = rb
    parts = {}
    for x in nodes:
        parts.setdefault(find(x), set()).add(x)
    return sorted((sorted(p) for p in parts.values()))


def _graph_connectivity(g, segs, inv, nm, info, expn, ctx):
    """the connectivity answers of the graph which follow from the dovetail collections: two segments are connected
    iff a chain of dovetail lines leads from one to the other (ends and orientations do not matter: the walk may
    leave a segment through either end); Gfa.connected_components() is that partition, segment_connected_component(s)
    the part of s (asked for one segment), and is_cut_segment(s) (asked for every segment, given as line or as name)
    tells whether taking s away leaves the rest of its part in two or more parts"""
    F = []
    nodes = sorted(nm)
    links = [(e["spec"][1], e["spec"][4]) for e, txt, filing, typ, frm in info if typ == "L"]
    whole_parts = _parts(nodes, links)
    want_cc = sorted(sorted(nm[x] for x in p) for p in whole_parts)
    r = lib.outcome(lambda: sorted(sorted(str(x.name) for x in c) for c in g.connected_components()))
    if r[0] != "ok" or r[1] != want_cc:
        F.append("components-wrong: connected_components() is %r, the dovetail lines %r join the segments into %r (%s)" % (
            r[1], sorted(txt for e, txt, filing, typ, frm in info if typ == "L"), want_cc, ctx))
    for j, s in enumerate(segs):
        o = inv[str(s.name)]
        mine = [p for p in whole_parts if o in p][0]
        if j == len(info) % len(segs):     # one segment of the graph, a different one from graph to graph
            r = lib.outcome(lambda: sorted(str(x.name) for x in g.segment_connected_component(s)))
            if r[0] != "ok" or r[1] != sorted(nm[x] for x in mine):
                F.append("components-wrong: segment_connected_component(%s) is %r expected %r (%s)" % (
                    s.name, r[1], sorted(nm[x] for x in mine), ctx))
        rest = _parts(mine, links, without=o)
        want = len(rest) > 1
        how, arg = (("segment", s), ("name", str(s.name)))[(j + len(info)) % 2]
        r = lib.outcome(lambda: g.is_cut_segment(arg))
        if r[0] != "ok" or r[1] is not want:
            att = dict((k[-1], sorted(nm[x] for _, x in expn.get((o, k), []))) for k in ("dovetails_L", "dovetails_R"))
            F.append("cut-segment-wrong: is_cut_segment(%s, given as %s) is %r expected %r: the dovetails attach %r to "
                     "its left and %r to its right end (connectivity %r); without %s the rest of its component is %r "
                     "(%s)" % (s.name, how, r[1], want, att["L"], att["R"], lib.outcome(s._connectivity)[1], s.name,
                               [[nm[x] for x in p] for p in rest], ctx))
    return F


def _set_fields(gfapy, ln, old_txt, new_txt, how):
    """change the reference fields of the (disconnected) edge line so that it reads new_txt"""
    fo, fn = old_txt.split("\t"), new_txt.split("\t")
    rt = fn[0]
    names = {"E": [None, None, "sid1", "sid2", "beg1", "end1", "beg2", "end2"],
             "G": [None, None, "sid1", "sid2"],
             "L": [None, "from_segment", "from_orient", "to_segment", "to_orient"],
             "C": [None, "from_segment", "from_orient", "to_segment", "to_orient"]}[rt]
    for i, fname in enumerate(names):
        if fname is None or fo[i] == fn[i]:
            continue
        val = fn[i]
        if how == "typed":
            if fname.startswith("sid"):
                val = gfapy.OrientedLine(val[:-1], val[-1])
            elif fname[:3] in ("beg", "end"):
                val = gfapy.LastPos(int(val[:-1])) if val.endswith("$") else int(val)
        if how == "typed":
            setattr(ln, fname, val)
        else:
            ln.set(fname, val)


def single_cycle(g, e, nm, cycle, order):
    """the only edge of the graph is taken out (Gfa.rm / line.disconnect): no collection lists it any more; it is put
    back (a fresh line with the same text / the same line object through add_line / connect): the filing is the
    first one again"""
    gfapy = lib.import_gfapy()
    off, back = cycle
    txt = edge_line(*e["spec"], idx=e["idx"], nm=nm)[0]
    cand = [l for l in g.lines if str(l) == txt]
    if len(cand) != 1:
        return ["edge-lines-wrong: %r is %d times in the Gfa (order %r)" % (txt, len(cand), list(order))]
    ln = cand[0]
    ctx = "order %r, after %s of the edge" % (list(order), off)
    try:
        if off == "rm":
            g.rm(ln)
        else:
            ln.disconnect()
    except gfapy.Error:
        return []         # a refused step: not this property's business
    F = compare(g, [], nm, ctx, graph=False)
    if F:
        return F
    ctx += ", put back (%s)" % back
    try:
        if back == "fresh":
            g.add_line(txt)
        elif back == "add_line":
            g.add_line(ln)
        else:
            ln.connect(g)
    except gfapy.Error:
        return []
    return compare(g, [e], nm, ctx, graph=False)


def single_late(case):
    """the only edge arrives while the segments case["late"] have no S line yet (they are placeholders), it is taken out
    again (Gfa.rm / line.disconnect) and only then the missing S lines arrive: no collection of any segment lists
    the line; it is put back: the filing is that of its text"""
    gfapy = lib.import_gfapy()
    v = _version(case)
    a, b = "A", case["second"]
    spec = [case["rt"], a, case["o1"], case["k1"], b, case["o2"], case["k2"]]
    e = {"spec": spec, "idx": None, "txt": edge_line(*spec)[0]}
    nm = {n: n for n in sorted({a, b})}
    off, back = case["cycle"]
    first = [seg_line(n, v) for n in sorted(nm) if n not in case["late"]]
    last = [seg_line(n, v) for n in sorted(nm) if n in case["late"]]
    order = first + [e["txt"], "<%s of the edge>" % off] + last
    # the version is stated: an L or C line which comes before every S line would wait in the queue of the Gfa
    g = gfapy.Gfa(vlevel=1, version="gfa%d" % v)
    try:
        for l in first + [e["txt"]]:
            g.add_line(l)
    except gfapy.Error as err:
        return ["build-raises: %s %s" % (err.__class__.__name__, case)]
    cand = [l for l in g.lines if str(l) == e["txt"]]
    if len(cand) != 1:
        return ["edge-lines-wrong: %r is %d times in the Gfa (order %r)" % (e["txt"], len(cand), order[:len(first) + 1])]
    ln = cand[0]
    try:
        if off == "rm":
            g.rm(ln)
        else:
            ln.disconnect()
    except gfapy.Error:
        return []         # a refused step: not this property's business
    try:
        for l in last:
            g.add_line(l)
    except gfapy.Error as err:
        return ["build-raises: %s after the edge was taken out (order %r)" % (err.__class__.__name__, order)]
    ctx = "order %r" % (order,)
    F = compare(g, [], nm, ctx)
    if F:
        return F
    ctx += ", put back (%s)" % back
    try:
        if back == "fresh":
            g.add_line(e["txt"])
        elif back == "add_line":
            g.add_line(ln)
        else:
            ln.connect(g)
    except gfapy.Error:
        return []
    return compare(g, [e], nm, ctx)


def oracle(case):
    gfapy = lib.import_gfapy()
    F = []
    if case["kind"] == "single" and case.get("late"):
        return single_late(case)
    try:
        g, edges, order = build(case)
    except gfapy.Error as e:
        if case["kind"] != "single":
            return F  # e.g. duplicate link in random multi graph: not this property's business
        return ["build-raises: %s %s" % (e.__class__.__name__, case)]
    nm = {n: n for n in case.get("segs", "ABC")}
    if case["kind"] == "single":
        nm = {n: n for n in sorted({"A", case["second"]})}
    if case.get("rename"):
        g.segment("A").name = "Z"; nm["A"] = "Z"
    F = compare(g, edges, nm, "order %r" % (list(order),))
    if F:
        return F
    if case["kind"] == "single" and case.get("cycle"):
        return single_cycle(g, edges[0], nm, case["cycle"], order)
    if case["kind"] != "edit":
        return F
    # ------------------------------------------------------------------ editing history
    v2 = _version(case) == 2
    fresh = list(FRESH)
    done = []
    for st in case["steps"]:
        done.append(st)
        ctx = "order %r, after steps %r" % (list(order), done)
        try:
            if st[0] in ("edit", "rm"):
                if st[1] >= len(edges) or edges[st[1]] is None:
                    continue
                e = edges[st[1]]
                old_txt = edge_line(*e["spec"], idx=e["idx"], nm=nm)[0]
                cand = [l for l in g.lines if str(l) == old_txt]
                if len(cand) != 1:
                    return ["edge-lines-wrong: %r is %d times in the Gfa (%s)" % (old_txt, len(cand), ctx)]
                ln = cand[0]
                if st[2] == "rm":
                    g.rm(ln)
                else:
                    ln.disconnect()
                if st[0] == "rm":
                    edges[st[1]] = None
                else:
                    off, on, how, new = st[2], st[3], st[4], st[5]
                    spec = list(e["spec"])
                    for key, j in (("a", 1), ("o1", 2), ("k1", 3), ("b", 4), ("o2", 5), ("k2", 6)):
                        if key in new:
                            spec[j] = new[key]
                    new_txt = edge_line(*spec, idx=e["idx"], nm=nm)[0]
                    if _clash(spec, edges, but=e):
                        edges[st[1]] = None      # would be the same GFA1 line twice: leave the edge out
                    else:
                        if on == "fresh":
                            g.add_line(new_txt)
                        else:
                            _set_fields(gfapy, ln, old_txt, new_txt, how)
                            if str(ln) != new_txt:
                                return ["edit-not-applied: the disconnected line reads %r after setting its fields for %r (%s)" % (
                                    str(ln), new_txt, ctx)]
                            if on == "add_line":
                                g.add_line(ln)
                            else:
                                ln.connect(g)
                        e["spec"] = spec
            elif st[0] == "add":
                spec = list(st[1])
                if v2 and spec[0] in "LC":
                    spec[0] = "E"
                if not v2 and spec[0] in "EG":
                    continue
                idx = len(edges)
                txt = edge_line(*spec, idx=idx, nm=nm)[0]
                if _clash(spec, edges):
                    edges.append(None)
                    continue
                if len(st) > 2 and st[2] and spec[0] == "L":
                    g.add_line(path_line("q%d" % len(done), spec, ["fwd", "rev"][len(done) % 2], nm=nm))
                g.add_line(txt)
                edges.append({"spec": spec, "idx": idx, "txt": txt})
            elif st[0] == "rename":
                if not fresh:
                    continue
                new = fresh.pop(0)
                g.segment(nm[st[1]]).name = new
                nm[st[1]] = new
        except gfapy.Error:
            return F      # a refused step: not this property's business
        F = compare(g, [x for x in edges if x is not None], nm, ctx)
        if F:
            return F
    return F


def model_ops(case):
    ops, exp = [], []
    if case["kind"] != "single" or case["rt"] != "E":
        return ops, exp
    gfapy = lib.import_gfapy()
    a, b = "A", case["second"]
    n1, n2 = LEN[a], LEN[b]
    b1, e1 = kinds(n1)[case["k1"]]; b2, e2 = kinds(n2)[case["k2"]]
    g, edges, order = build(case)
    e = [l for l in g.lines if l.record_type == "E"][0]
    A, B = g.segment(a), g.segment(b)

    def keyof(s, other_keys=None):
        return [k for k in COLLS if any(x is e for x in getattr(s, k))]
    ka, kb = keyof(A), keyof(B)
    if a == b:
        # self edge: the two filings of one edge on one segment, as a sorted pair
        both = sorted(k for k in COLLS for x in getattr(A, k) if x is e)
        impl_keys = ",".join(both)
    else:
        impl_keys = ",".join(sorted(ka + kb))
    typ = "L" if e.is_dovetail() else ("C" if e.is_containment() else "I")
    r = lib.outcome(lambda: e._is_sid1_from())
    frm = {True: "1", False: "0"}[r[1]] if r[0] == "ok" else "err"
    ops.append(op("geo.edge", case["o1"], n1, b1, e1, case["o2"], n2, b2, e2))
    exp.append("ok keys=%s type=%s from=%s" % (impl_keys, typ, frm))
    return ops, exp
