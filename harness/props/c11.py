"""C11 — segment neighbourhoods match the specification's edge semantics."""
import itertools
from harness import lib
from harness.lib import op

ID = "C11"
LEAN = {
    "modules": ["GfaProofs.Bridge.Geometry", "GfaProofs.C11"],
    "support": ["GfaModel.Geometry", "GfaModel.GeometrySpec"],
    "theorems": [
        "Gfa.C11.substring_type_spec", "Gfa.C11.substring_type_rejects", "Gfa.C11.refkey_matches_geometry",
        "Gfa.C11.alignment_type_matches_geometry", "Gfa.C11.filing_agrees_with_type", "Gfa.C11.segment_role_spec",
        "Gfa.C11.is_sid1_from_spec", "Gfa.C11.from_defined_iff", "Gfa.C11.link_ends", "Gfa.C11.link_keys",
        "Gfa.C11.gap_keys", "Gfa.C11.edge_link_ends_agree",
        "Gfa.Bridge.Geometry.substringType_eq", "Gfa.Bridge.Geometry.refkey_table", "Gfa.Bridge.Geometry.alnType_table",
        "Gfa.Bridge.Geometry.segmentRole_table", "Gfa.Bridge.Geometry.segmentRole_classes",
        "Gfa.Bridge.Geometry.isSid1From_table", "Gfa.Bridge.Geometry.gapKey_table", "Gfa.Bridge.Geometry.linkKey_table",
        "Gfa.Bridge.Geometry.containment_filing", "Gfa.Bridge.Geometry.link_ends", "Gfa.Bridge.Geometry.invert_table",
    ],
}
RULE = ("exhaustive: every (orientation, interval kind)^2 E line (7 kinds x 2 orientations per side = 196) between two "
        "segments and as a self-edge, every L/C/G orientation pair, each in all 6 arrival orders of its three lines, "
        "optionally followed by a rename; random: graphs with several parallel/mixed edges on 3 segments. Non-trivial: "
        "every case with at least one edge (all of them); distinct by case hash.")
ASSUMPTIONS = ["segments of length 0 are outside the theorem (ValidIv needs n>0): run on the real library only"]
TRUSTED = ["GfaModel/Geometry.lean hand-written; tied by T3 translation of _substring_type and T2 tables over complete domains"]

LEN = {"A": 10, "B": 8, "C": 6}


def kinds(n):
    return [(0, 0), (0, n // 2), (2, n - 2), (3, 3), (n - 4, n), (n, n), (0, n)]


def pos(x, n):
    return "%d$" % x if x == n else str(x)


# ------------------------------------------------------------------ independent geometric rule (python)
def touches_start(o, n, b, e):
    return b == 0 if o == "+" else e == n


def touches_end(o, n, b, e):
    return e == n if o == "+" else b == 0


def whole(n, b, e):
    return b == 0 and e == n


def e_filing(o1, n1, b1, e1, o2, n2, b2, e2):
    """-> (type, key on sid1, key on sid2, sid1_is_from or None)"""
    w1, w2 = whole(n1, b1, e1), whole(n2, b2, e2)
    if w1 or w2:
        if w1 and w2:
            return ("C", "edges_to_contained", "edges_to_containers", True)
        if w1:
            return ("C", "edges_to_containers", "edges_to_contained", False)
        return ("C", "edges_to_contained", "edges_to_containers", True)
    s1, t1 = touches_start(o1, n1, b1, e1), touches_end(o1, n1, b1, e1)
    s2, t2 = touches_start(o2, n2, b2, e2), touches_end(o2, n2, b2, e2)
    if (t1 and s2) or (s1 and t2):
        k1 = "dovetails_L" if b1 == 0 else "dovetails_R"
        k2 = "dovetails_L" if b2 == 0 else "dovetails_R"
        frm = None
        if t1 and not s1 and s2 and not t2:
            frm = True
        elif t2 and not s2 and s1 and not t1:
            frm = False
        return ("L", k1, k2, frm)
    return ("I", "internals", "internals", None)


# ------------------------------------------------------------------ cases
def _ex_space():
    sp = []
    for second in ("B", "A"):
        for o1 in "+-":
            for k1 in range(7):
                for o2 in "+-":
                    for k2 in range(7):
                        sp.append(("E", second, o1, k1, o2, k2))
    for rt in "LCG":
        for second in ("B", "A"):
            for o1 in "+-":
                for o2 in "+-":
                    sp.append((rt, second, o1, 0, o2, 0))
    return sp


EX = _ex_space()


def n_exhaustive(tier):
    return len(EX) * (6 if tier == "thorough" else 2)


def exhaustive_case(i, tier):
    nper = 6 if tier == "thorough" else 2
    rt, second, o1, k1, o2, k2 = EX[i // nper]
    j = i % nper
    perm = j if tier == "thorough" else (i // nper + j * 3) % 6
    return {"kind": "single", "rt": rt, "second": second, "o1": o1, "k1": k1, "o2": o2, "k2": k2, "perm": perm,
            "rename": (i % 3 == 0)}


def budget(tier):
    return 300 if tier == "quick" else 8000


def gen_case(rng, tier, i):
    edges = []
    for _ in range(rng.randint(2, 6)):
        a, b = rng.choice("ABC"), rng.choice("ABC")
        rt = rng.choice("EEELCG")
        edges.append([rt, a, rng.choice("+-"), rng.randrange(7), b, rng.choice("+-"), rng.randrange(7)])
    return {"kind": "multi", "edges": edges, "shuffle": rng.randrange(10 ** 6)}


def nontrivial(case):
    return True


def tags(case):
    if case["kind"] == "single":
        return ["single:" + case["rt"], "self" if case["second"] == "A" else "pair"]
    return ["multi", "n%d" % len(case["edges"])]


def signature(case, failure):
    return failure.split(":")[0]


def edge_line(rt, a, o1, k1, b, o2, k2, idx=None):
    """text of the edge line + expected filing [(segment, key)], version"""
    if rt == "E":
        n1, n2 = LEN[a], LEN[b]
        b1, e1 = kinds(n1)[k1]; b2, e2 = kinds(n2)[k2]
        txt = "E\t%s\t%s%s\t%s%s\t%s\t%s\t%s\t%s\t*" % ("*" if idx is None else "e%d" % idx, a, o1, b, o2,
                                                     pos(b1, n1), pos(e1, n1), pos(b2, n2), pos(e2, n2))
        t, ka, kb, frm = e_filing(o1, n1, b1, e1, o2, n2, b2, e2)
        return txt, [(a, ka), (b, kb)], t, frm
    if rt == "L":
        txt = "L\t%s\t%s\t%s\t%s\t*" % (a, o1, b, o2)
        return txt, [(a, "dovetails_R" if o1 == "+" else "dovetails_L"), (b, "dovetails_L" if o2 == "+" else "dovetails_R")], "L", True
    if rt == "C":
        txt = "C\t%s\t%s\t%s\t%s\t1\t*" % (a, o1, b, o2)
        return txt, [(a, "edges_to_contained"), (b, "edges_to_containers")], "C", True
    if rt == "G":
        txt = "G\t%s\t%s%s\t%s%s\t50\t*" % ("*" if idx is None else "g%d" % idx, a, o1, b, o2)
        return txt, [(a, "gaps_R" if o1 == "+" else "gaps_L"), (b, "gaps_L" if o2 == "+" else "gaps_R")], "G", None


COLLS = ["dovetails_L", "dovetails_R", "edges_to_contained", "edges_to_containers", "internals", "gaps_L", "gaps_R"]


def seg_line(name, v):
    return "S\t%s\t*\tLN:i:%d" % (name, LEN[name]) if v == 1 else "S\t%s\t%d\t*" % (name, LEN[name])


def build(case):
    gfapy = lib.import_gfapy()
    if case["kind"] == "single":
        rt = case["rt"]
        a, b = "A", case["second"]
        v = 1 if rt in "LC" else 2
        txt, filing, typ, frm = edge_line(rt, a, case["o1"], case["k1"], b, case["o2"], case["k2"])
        lines = [seg_line(n, v) for n in sorted({a, b})] + [txt]
        if len(lines) == 2:
            lines.append("#c")
        order = list(itertools.permutations(lines))[case["perm"] % 6]
        edges = [(txt, filing, typ, frm, a, b, case["o1"], case["o2"])]
    else:
        v = 2 if any(e[0] in "EG" for e in case["edges"]) else 1
        edges = []
        lines = [seg_line(n, v) for n in "ABC"]
        for i, e in enumerate(case["edges"]):
            rt = e[0]
            if v == 2 and rt in "LC":
                rt = "E"
            txt, filing, typ, frm = edge_line(rt, e[1], e[2], e[3], e[4], e[5], e[6], idx=i)
            if rt in "LC" and any(x[0] == txt for x in edges):
                continue
            edges.append((txt, filing, typ, frm, e[1], e[4], e[2], e[5]))
            lines.append(txt)
        r = lib.Rng(case["shuffle"]); order = list(lines); r.shuffle(order)
    g = gfapy.Gfa(vlevel=1)
    for l in order:
        g.add_line(l)
    return g, edges, order


def oracle(case):
    gfapy = lib.import_gfapy()
    F = []
    try:
        g, edges, order = build(case)
    except gfapy.Error as e:
        if case["kind"] == "multi":
            return F  # e.g. duplicate link in random multi graph: not this property's business
        return ["build-raises: %s %s" % (e.__class__.__name__, case)]
    ren = {}
    if case.get("rename"):
        g.segment("A").name = "Z"; ren = {"A": "Z"}
    exp = {}
    for txt, filing, typ, frm, a, b, o1, o2 in edges:
        for (s, k) in filing:
            exp.setdefault((ren.get(s, s), k), []).append(txt.split("\t")[0:1] + [txt])
    for s in g.segments:
        for k in COLLS:
            got = sorted(str(x) for x in getattr(s, k))
            want = sorted(t[1].replace("\tA", "\t" + ren["A"]) if ren else t[1] for t in exp.get((s.name, k), []))
            if got != want:
                F.append("collection-wrong: %s.%s has %r expected %r (order %r)" % (s.name, k, got, want, list(order)))
    if case["kind"] == "single" and not F:
        txt, filing, typ, frm, a, b, o1, o2 = edges[0]
        e = [l for l in g.lines if l.record_type == case["rt"]][0]
        if typ in "LCI":
            flags = (e.is_dovetail(), e.is_containment(), e.is_internal())
            if flags != (typ == "L", typ == "C", typ == "I"):
                F.append("type-wrong: %s classified %r expected %s" % (txt, flags, typ))
        A = g.segment(ren.get(a, a)); B = g.segment(ren.get(b, b))
        if typ == "L" and frm is not None:
            fs, ts = (A, B) if frm else (B, A)
            fo, to = (o1, o2) if frm else (o2, o1)
            fe = gfapy.SegmentEnd(fs, "R" if fo == "+" else "L"); te = gfapy.SegmentEnd(ts, "L" if to == "+" else "R")
            if not (e.from_end == fe and e.to_end == te):
                F.append("link-ends-wrong: %s from_end %s to_end %s" % (txt, e.from_end, e.to_end))
            elif fe != te and (e.other_end(fe) != te or e.other_end(te) != fe):
                F.append("other-end-wrong: %s" % txt)
            if B not in A.neighbours or A not in B.neighbours:
                F.append("neighbours-wrong: %s" % txt)
            kA = [k for (s, k) in filing if s == a][0]
            if B not in getattr(A, "neighbours_" + kA[-1]):
                F.append("neighbours-of-end-wrong: %s" % txt)
        if typ == "C" and frm is not None:
            cont, inner = (A, B) if frm else (B, A)
            if inner not in cont.contained or cont not in inner.containers:
                F.append("containers-wrong: %s: contained=%r containers=%r" % (txt, [x.name for x in cont.contained], [x.name for x in inner.containers]))
        if typ != "G" and (e.other(A) is not B or e.other(B) is not A):
            F.append("other-wrong: %s" % txt)
    return F


def model_ops(case):
    ops, exp = [], []
    if case["kind"] != "single" or case["rt"] != "E":
        return ops, exp
    gfapy = lib.import_gfapy()
    a, b = "A", case["second"]
    n1, n2 = LEN[a], LEN[b]
    b1, e1 = kinds(n1)[case["k1"]]; b2, e2 = kinds(n2)[case["k2"]]
    g, edges, order = build(case)
    e = [l for l in g.lines if l.record_type == "E"][0]
    A, B = g.segment(a), g.segment(b)

    def keyof(s, other_keys=None):
        return [k for k in COLLS if any(x is e for x in getattr(s, k))]
    ka, kb = keyof(A), keyof(B)
    if a == b:
        # self edge: the two filings of one edge on one segment, as a sorted pair
        both = sorted(k for k in COLLS for x in getattr(A, k) if x is e)
        impl_keys = ",".join(both)
    else:
        impl_keys = ",".join(sorted(ka + kb))
    typ = "L" if e.is_dovetail() else ("C" if e.is_containment() else "I")
    r = lib.outcome(lambda: e._is_sid1_from())
    frm = {True: "1", False: "0"}[r[1]] if r[0] == "ok" else "err"
    ops.append(op("geo.edge", case["o1"], n1, b1, e1, case["o2"], n2, b2, e2))
    exp.append("ok keys=%s type=%s from=%s" % (impl_keys, typ, frm))
    return ops, exp
