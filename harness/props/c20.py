"""C20 — tag values set through the API are written and read back unchanged.

Three kinds of cases:

 single assignment   (the cases of c20_oracle.py, unchanged: one value, one tag of a fresh line, declared datatype or none,
                     set / attribute, 3 records x levels 0-3; see the docstring there for the two halves of the verdict and
                     for what is NOT CHECKED);

 sequences           (`"seq"` in the case; this file) several steps on ONE line and ONE tag name, on one of the 3 records at
                     levels 0-3.  The line may start with the tag already written in its text (`init`).  Steps:
                       set v (set / attribute) | delete | write (str + field_to_s) | validate | get |
                       edit: the list object returned by line.get(tag) is modified in place (append, extend, +=, insert,
                             pop, remove, del a[i], del a[i:], a[i] = x, a[i:i+1] = [..], sort, reverse, clear, *= 2).
                     A model walks along: (tag present?, datatype, value).
                       - a set on an absent tag (never there, or removed by delete()) creates a NEW tag: the documented
                         default datatype of the value applies, whatever the tag held before it was deleted;
                       - a set on a present tag keeps the datatype of the tag (natural pairs of c20_oracle.NATURAL only);
                       - an edit of a B array keeps the datatype B; the value is the list as it is after the edit
                         (only judged when line.get(tag) shows the edited contents, i.e. the line shares the object).
                     After a state-changing step (every one of them - mode "all" - or only the last - mode "last", so that
                     explicit write / validate / get steps are the only earlier readers of the value) the state is judged
                     exactly like a single assignment: representable -> datatype, validate(), grammar of field_to_s,
                     str(line) carries that tag, smallest integer subtype FOR THE ELEMENTS THE ARRAY HAS NOW, re-parsed
                     value and datatype equal; unrepresentable (mixed / out-of-range / empty / non-finite array after
                     an edit, value foreign to the kept datatype) -> refused or reported by validate(), and at level >= 2
                     not written.  The walk stops at the first state that is not representable (judged, then stop) or
                     debatable (stop without verdict).
                     Not judged for sequences: that delete() removed the tag (a tag still listed in `tagnames` after
                     delete() ends the walk without verdict); a declared datatype (set_datatype) surviving delete();
                     set(tag, None); edits of J lists; NaN elements; whether the line shares the list object at all.

 values of other classes   (`"obj"` in the case; this file; every 8th random case + ~250 fixed ones) one assignment as in the
                     first kind (declared datatype or none, declared before or after, set / attribute, 3 records x levels 0-3),
                     of a value that is no instance of the plain builtin classes:
                     (a) `"t": "sub"`: an instance of a SUBCLASS of a supported builtin -- collections.OrderedDict, defaultdict,
                       Counter, a user subclass of dict / list / int / float / str, an enum.IntEnum member.  It IS a dict /
                       list / integer / float / string, so the verdict is the one of the plain value: as a new tag it gets the
                       documented default of the builtin (J; J or B for a list, by its elements; i; f; Z), is written in that
                       syntax and read back equal (`==`); under a declared datatype (J / B / i / f / Z) likewise; a list
                       subclass with mixed or out-of-range numbers under B is reported.  Labels `<dt>.sub-<builtin>` (J.sub-dict,
                       J.sub-list, B.sub-list, i.sub-int, f.sub-int, f.sub-float, Z.sub-str; the class is in the message).
                     (b) `"t": "jbad"`: a list / dict for a J tag (declared J, or new: the default of a dict or of a list that
                       is not all-int / all-float is J) with, somewhere inside (first level, in a dict, three levels deep,
                       twice), an element that JSON has no form for: bytes, bytearray, gfapy.ByteArray, set, frozenset,
                       decimal.Decimal, fractions.Fraction, complex, gfapy.Placeholder, object(), range, datetime.date, a
                       class, Ellipsis, a gfapy.Line.  No JSON text reads back as such a value, so the J datatype cannot
                       represent it: the reporting half applies (refused by set, or reported by validate() at every level
                       and at level >= 2 not written by field_to_s / str).  Label `J.json-with-foreign-element` (the class of
                       the element is in the message).
                     Not judged here: tuples and NumericArrays inside a JSON value (written as JSON lists), containers that are
                     no dict / list subclasses (UserDict, ChainMap, deque, tuple), IntFlag, subclasses that override
                     __str__ / __repr__ / __eq__, circular structures.

Failure signatures of sequences carry the label `seq.<datatype>.<kind>.<situation>` (situation: new / recreated / overwrite /
edit-<method>), e.g. `wrong-datatype[seq.i.int.recreated]`, `subtype-not-smallest[seq.B.ints.edit-pop]`.  Verdicts on a tag that
was created again after a delete() and is then overwritten or edited (situation `...-recreated`) have the signature prefix
`recreated-tag-changed/`: on the pinned tree a tag created again through ATTRIBUTE assignment (`line.xx = v` after
`line.delete("xx")`) does not get its datatype recorded (the setter defined by the first creation goes straight to
_set_existing_field), so that until somebody reads the datatype a later assignment / edit silently changes it
(`xx=1.5; delete; xx=12; xx="b"` -> `xx:Z:b`, validate() passes; without the delete, or with `set("xx", 12)`, or with a
get_datatype("xx") in between: datatype i, the string is reported).
"""
import json, math, struct
import collections, datetime, decimal, enum, fractions
from harness import lib
from harness.props import _misc as M
from harness.props.c20_oracle import *  # noqa
from harness.props import c20_oracle as _o

ID = "C20"
RULE = (getattr(_o, "RULE", "") +
        " Sequences (every 4th random case + ~140 fixed ones): steps set / delete / write / validate / get / in-place edit "
        "(append, extend, +=, insert, pop, remove, del, item and slice assignment, sort, reverse, clear, *=) on one tag of "
        "one line (tag new, written in the parsed text, or deleted and created again with a value of another kind: all "
        "ordered pairs of i, f, Z, J, B-int, B-float, H), arrays edited around the subtype boundaries / to mixed / empty "
        "contents after the line was written or validated. Non-trivial: at least one state of the walk is judged "
        "(representable or not). Values of other classes (every 8th random case + ~250 fixed ones): instances of subclasses "
        "of the supported builtins (OrderedDict, defaultdict, Counter, user subclasses of dict/list/int/float/str, IntEnum "
        "members) as new tags (default datatype of the builtin: J, B, i, f, Z) and under the natural declared datatypes, "
        "round trip or report exactly as for the plain value; lists/dicts holding an element JSON cannot represent (bytes, "
        "ByteArray, set, Decimal, Fraction, complex, Placeholder, object, range, date, class, Ellipsis, Line; at the first "
        "level, in a dict, nested, twice) as new or declared J tags: reporting half.")

SEQ_EVERY = 4          # random case i is a sequence when i % SEQ_EVERY == SEQ_EVERY - 1
OBJ_EVERY = 8          # random case i holds a value of another class when i % OBJ_EVERY == 1 (the others are exactly those of c20_oracle)


# ---------------------------------------------------------------------------------------------------- generators
def _num(s):
    try:
        return int(s)
    except ValueError:
        return float(s)


def _finite_float(rng):
    for _ in range(20):
        f = struct.unpack("<d", struct.pack("<Q", rng.getrandbits(64)))[0]
        if math.isfinite(f):
            return f
    return 1.5


def _int_elem(rng, lo=-2 ** 31, hi=2 ** 32 - 1):
    for _ in range(20):
        x = rng.pick(_o.BOUNDS) + rng.pick([0, 0, 1, -1])
        if lo <= x <= hi:
            return x
    return 1


def _int_array(rng):
    """elements of a representable integer array, around the subtype boundaries"""
    n = rng.pick([1, 2, 3, 5])
    if rng.chance(0.5):
        a = [_int_elem(rng, 0, 2 ** 32 - 1) for _ in range(n)]
    else:
        a = [_int_elem(rng, -2 ** 31, 2 ** 31 - 1) for _ in range(n)]
    if rng.chance(0.4):            # small arrays leave room to grow
        a = [rng.pick([0, 1, 2, 3, 100, 127, 200, 255]) for _ in range(n)]
    return a


def _nice_value(rng, kind=None):
    """a value spec that is representable under its default datatype (i, f, Z, J, B, B, H)"""
    kind = kind or rng.pick(["int", "float", "str", "json", "ints", "ints", "floats", "bytes"])
    if kind == "int":
        e = rng.pick([0, 3, 7, 8, 15, 16, 31, 32, 40])
        return {"t": "int", "v": str(rng.pick([1, -1]) * (2 ** e + rng.pick([-1, 0, 1])))}
    if kind == "float":
        return {"t": "float", "v": repr(rng.pick([1.5, -2.25, 0.1, 3.0, 1e16, 5e-324, _finite_float(rng)]))}
    if kind == "str":
        alpha = rng.pick(["abc XYZ09~!", "ab", "".join(chr(c) for c in range(32, 127)), "0123456789", "0123456789ABCDEF"])
        return {"t": "str", "v": "".join(rng.pick(alpha) for _ in range(rng.pick([1, 2, 3, 8])))}
    if kind == "json":
        j = rng.pick([{"a": 1}, [1, "a"], {"k": None, "l": [1, 2]}, ["a", "b"], [1, 2.5], [[1]], {}, [None]])
        return {"t": "json", "v": j}
    if kind == "ints":
        return {"t": rng.pick(["ilist", "inarr", "inarr"]), "v": [str(x) for x in _int_array(rng)]}
    if kind == "floats":
        return {"t": rng.pick(["flist", "fnarr", "fnarr"]), "v": [repr(_finite_float(rng)) for _ in range(rng.pick([1, 2, 3]))]}
    return {"t": "bytearr", "v": "".join("%02x" % rng.randrange(256) for _ in range(rng.pick([1, 2, 5])))}


def _rnd_elem(rng, floats):
    k = rng.random()
    if floats:
        return repr(_finite_float(rng)) if k < 0.85 else (rng.pick(["1", "300"]) if k < 0.95 else "inf")
    if k < 0.86:
        return str(_int_elem(rng, -2 ** 31 - 1, 2 ** 32))
    return rng.pick(["2.5", "2.5", "1.0", "inf"]) if k < 0.96 else rng.pick([str(10 ** 30), str(-2 ** 40)])


def _rnd_edit(rng, floats):
    x = lambda: _rnd_elem(rng, floats)
    k = rng.randrange(8)
    m = rng.pick(["append", "append", "extend", "iadd", "insert", "pop", "pop", "popfirst", "remove", "delitem", "delslice", "setitem",
                  "setslice", "sort", "reverse", "clear", "imul"])
    if m in ("append",):
        return {"op": "edit", "m": m, "x": x()}
    if m in ("extend", "iadd"):
        return {"op": "edit", "m": m, "xs": [x() for _ in range(rng.pick([1, 2, 2, 3]))]}
    if m in ("insert", "setitem"):
        return {"op": "edit", "m": m, "k": k, "x": x()}
    if m == "setslice":
        return {"op": "edit", "m": m, "k": k, "xs": [x() for _ in range(rng.pick([0, 1, 2]))]}
    if m in ("remove", "delitem", "delslice"):
        return {"op": "edit", "m": m, "k": k}
    return {"op": "edit", "m": m}


def _primers(rng, p=0.6):
    out = []
    while rng.chance(p) and len(out) < 3:
        out.append({"op": rng.pick(["write", "write", "validate", "get"])})
    return out


def _set(rng, val):
    return {"op": "set", "value": val, "how": rng.pick(["set", "attr"])}


KINDS = ["int", "float", "str", "json", "ints", "floats", "bytes"]


def gen_seq(rng):
    """one random sequence case"""
    case = {"seq": [], "tag": rng.pick(_o.TAGNAMES), "rec": rng.randrange(len(_o.CTX)), "mode": rng.pick(["all", "all", "last"]),
            "init": None}
    S = case["seq"]
    flavour = rng.random()
    if flavour < 0.4:
        # a tag is deleted and created again with a value of another (sometimes the same) kind
        k1 = rng.pick(KINDS)
        k2 = rng.pick([k for k in KINDS if k != k1] * 4 + [k1])
        v1 = _nice_value(rng, k1)
        if rng.chance(0.35):
            case["init"] = v1
        else:
            S.append(_set(rng, v1))
        S.extend(_primers(rng))
        S.append({"op": "delete"})
        S.extend(_primers(rng, 0.2))
        v2 = _nice_value(rng, k2) if rng.chance(0.85) else _o.gen_case(rng, "quick", 0)["value"]
        S.append(_set(rng, v2))
        if rng.chance(0.25):       # ... and once more
            S.extend(_primers(rng, 0.3))
            S.append({"op": "delete"})
            S.append(_set(rng, _nice_value(rng)))
        elif rng.chance(0.2):      # ... or overwritten: the (new) datatype is kept
            S.append(_set(rng, _nice_value(rng, k2)))
    elif flavour < 0.9:
        # an array is edited in place after it was written / validated
        floats = rng.chance(0.2)
        v1 = _nice_value(rng, "floats" if floats else "ints")
        if rng.chance(0.3):
            case["init"] = v1
        else:
            S.append(_set(rng, v1))
        for _ in range(rng.pick([1, 1, 2, 3])):
            S.extend(_primers(rng, 0.7))
            S.append(_rnd_edit(rng, floats))
        if rng.chance(0.15):
            S.append({"op": "delete"})
            S.append(_set(rng, _nice_value(rng)))
    else:
        # free mixture
        if rng.chance(0.3):
            case["init"] = _nice_value(rng)
        for _ in range(rng.pick([2, 3, 4, 6])):
            k = rng.random()
            if k < 0.4:
                S.append(_set(rng, _nice_value(rng) if rng.chance(0.8) else _o.gen_case(rng, "quick", 0)["value"]))
            elif k < 0.55:
                S.append({"op": "delete"})
            elif k < 0.75:
                S.append({"op": rng.pick(["write", "validate", "get"])})
            else:
                S.append(_rnd_edit(rng, rng.chance(0.2)))
    return case


def gen_case(rng, tier, i):
    if i % SEQ_EVERY == SEQ_EVERY - 1:
        return gen_seq(rng)
    if i % OBJ_EVERY == 1:
        return gen_obj(rng)
    return _o.gen_case(rng, tier, i)


# ---------------------------------------------------------------------------------------------------- values of other classes
class DictSub(dict):
    pass


class ListSub(list):
    pass


class IntSub(int):
    pass


class FloatSub(float):
    pass


class StrSub(str):
    pass


# class name -> (kind of the builtin it derives from, natural declared datatypes)
SUBCLASSES = {"OrderedDict": "dict", "defaultdict": "dict", "Counter": "dict", "DictSub": "dict", "ListSub": "list",
              "IntSub": "int", "IntEnum": "int", "FloatSub": "float", "StrSub": "str"}
SUB_DECLS = {"dict": ["J"], "list": ["J", "B"], "int": ["i", "f"], "float": ["f"], "str": ["Z"]}
# elements that JSON cannot represent: kind -> JSON-able argument
JBAD = {"bytes": "6162", "bytearray": "00ff", "ByteArray": "0a0b0c", "set": [2], "frozenset": ["a"], "Decimal": "1.5", "Fraction": [1, 3],
        "complex": [0, 1], "Placeholder": None, "object": None, "range": 3, "date": [2020, 1, 2], "type": None, "Ellipsis": None,
        "Line": "S\t2\t*"}
# the place(s) of the element(s): "$" is replaced by the element
JBAD_SHAPES = [[1, "$"], ["$"], {"k": "$"}, {"a": {"b": ["s", "$"]}}, [["$"], "x"], {"k": [1, 2], "m": "$"}, ["$", "$"], {"md5": "$", "n": 1.5}]


def sub_base_spec(spec):
    """the spec of the plain value (for the predicates of c20_oracle)"""
    return {"t": {"dict": "json", "list": "json"}.get(SUBCLASSES[spec["cls"]], SUBCLASSES[spec["cls"]]), "v": spec["v"]}


def build_sub(spec):
    cls, v = spec["cls"], spec["v"]
    if SUBCLASSES[cls] in ("dict", "list"):
        v = json.loads(json.dumps(v))
    if cls == "OrderedDict":
        return collections.OrderedDict(v)
    if cls == "defaultdict":
        return collections.defaultdict(list, v)
    if cls == "Counter":
        return collections.Counter(v)
    if cls == "DictSub":
        return DictSub(v)
    if cls == "ListSub":
        return ListSub(v)
    if cls == "IntSub":
        return IntSub(int(v))
    if cls == "IntEnum":
        return enum.IntEnum("Colour", {"M": int(v)})["M"]
    if cls == "FloatSub":
        return FloatSub(float(v))
    if cls == "StrSub":
        return StrSub(v)
    raise AssertionError(cls)


def build_bad_element(kind, arg):
    gfapy = lib.import_gfapy()
    if kind == "bytes":
        return bytes.fromhex(arg)
    if kind == "bytearray":
        return bytearray(bytes.fromhex(arg))
    if kind == "ByteArray":
        return gfapy.ByteArray(bytes.fromhex(arg))
    if kind == "set":
        return set(arg)
    if kind == "frozenset":
        return frozenset(arg)
    if kind == "Decimal":
        return decimal.Decimal(arg)
    if kind == "Fraction":
        return fractions.Fraction(arg[0], arg[1])
    if kind == "complex":
        return complex(arg[0], arg[1])
    if kind == "Placeholder":
        return gfapy.Placeholder()
    if kind == "object":
        return object()
    if kind == "range":
        return range(arg)
    if kind == "date":
        return datetime.date(*arg)
    if kind == "type":
        return int
    if kind == "Ellipsis":
        return Ellipsis
    if kind == "Line":
        return gfapy.Line(arg)
    raise AssertionError(kind)


def build_jbad(spec):
    def fill(x):
        if x == "$":
            return build_bad_element(spec["elem"], spec["arg"])
        if isinstance(x, list):
            return [fill(y) for y in x]
        if isinstance(x, dict):
            return {k: fill(y) for k, y in x.items()}
        return x
    return fill(spec["v"])


def _sub_value(rng, cls):
    base = SUBCLASSES[cls]
    if cls == "Counter":
        return {k: rng.pick([1, 2, 3, 70000]) for k in rng.pick(["ACGT", "AC", "a", "xyz"])}
    if cls == "defaultdict":
        return {k: [rng.pick(["r1", "r2", 5])] * rng.pick([1, 2]) for k in rng.pick([["reads"], ["a", "b"], ["k k"]])}
    if base == "dict":
        j = _o.rnd_json(rng, rng.pick([1, 2, 3]))
        return j if isinstance(j, dict) and j else rng.pick([{"name": "chr1", "parts": [1, 2, 3]}, {"a": 1}, {"k": None, "l": [1, 2.5]}])
    if base == "list":
        return rng.pick([["a", "b"], [1, "a"], [1, 2.5], [[1]], [None], [{"a": 1}, "x"],
                         [_int_elem(rng) for _ in range(rng.pick([1, 2, 3]))], [rng.pick([0, 1, 200, 255, 256, -1, 70000]) for _ in range(rng.pick([1, 3]))],
                         [_finite_float(rng) for _ in range(rng.pick([1, 2]))], [1.5, -2.0], [2 ** 32, 1], [-1, 2 ** 31]])
    if base == "int":
        e = rng.pick([0, 3, 7, 8, 15, 16, 31, 32, 40, 64])
        return str(rng.pick([1, -1]) * (2 ** e + rng.pick([-1, 0, 1])))
    if base == "float":
        return repr(rng.pick([0.25, 1.5, -2.25, 0.1, 3.0, 1e16, 5e-324, _finite_float(rng)]))
    return _nice_value(rng, "str")["v"]


def gen_obj(rng):
    """one random case with a value of another class"""
    if rng.chance(0.5):
        cls = rng.pick(sorted(SUBCLASSES))
        spec = {"t": "sub", "cls": cls, "v": _sub_value(rng, cls)}
        decl = rng.pick([None, None, None] + SUB_DECLS[SUBCLASSES[cls]])
    else:
        kind = rng.pick(sorted(JBAD))
        spec = {"t": "jbad", "elem": kind, "arg": JBAD[kind], "v": rng.pick(JBAD_SHAPES)}
        decl = rng.pick([None, None, "J"])
    return {"obj": spec, "decl": decl, "how": rng.pick(["set", "attr"]), "tag": rng.pick(_o.TAGNAMES), "when": rng.pick(["before", "after"])}


def _fixed_objs():
    out = []
    reps = {"OrderedDict": [{"name": "chr1", "parts": [1, 2, 3]}, {"z": 1, "a": [None, True, 2.5]}],
            "defaultdict": [{"reads": ["r1"]}], "Counter": [{"A": 2, "C": 2, "G": 1, "T": 1}], "DictSub": [{"a": 1}, {"k": {"l": []}}],
            "ListSub": [["a", "b"], [1, "a", 2.5], [1, 2, 300], [1.5, -2.0], [-1, 255], [1, 2.5], [2 ** 32, -1]],
            "IntSub": ["7", "-129", str(2 ** 40)], "IntEnum": ["7", "0", "-3"], "FloatSub": ["0.25", "-1e-07", "1e+16"], "StrSub": ["hello world", "a"]}
    n = 0
    for cls in sorted(reps):
        for v in reps[cls]:
            for decl in [None] + SUB_DECLS[SUBCLASSES[cls]]:
                for how in ("set", "attr"):
                    n += 1
                    out.append({"obj": {"t": "sub", "cls": cls, "v": v}, "decl": decl, "how": how, "tag": _o.TAGNAMES[n % 4],
                                "when": ["before", "after"][(n // 2) % 2]})
    for kind in sorted(JBAD):
        for shape in JBAD_SHAPES:
            n += 1
            out.append({"obj": {"t": "jbad", "elem": kind, "arg": JBAD[kind], "v": shape}, "decl": [None, "J", None][n % 3], "how": ["set", "attr"][n % 2],
                        "tag": _o.TAGNAMES[n % 4], "when": ["before", "after"][(n // 2) % 2]})
    return out


OBJ_FIXED = _fixed_objs()


def obj_plan(case):
    """-> None (nothing to judge) | (value, datatype, 'rep'|'unrep', label, datatype before a later declaration)"""
    gfapy = lib.import_gfapy()
    spec, decl = case["obj"], case["decl"]
    if spec["t"] == "sub":
        try:
            v = build_sub(spec)
        except gfapy.Error:
            return None
        base = sub_base_spec(spec)
        d0 = _o.default_datatype(base, v)
        dt = decl or d0
        if dt is None:
            return None
        rep = _o.representable(dt, base, v)
        if rep is None:
            return None
        if decl and case["when"] == "after" and (d0 is None or _o.representable(d0, base, v) is not True):
            return None          # stored under the default datatype of its class first: only judged when that is possible
        return v, dt, "rep" if rep else "unrep", "%s.sub-%s" % (dt, SUBCLASSES[spec["cls"]]), d0
    v = build_jbad(spec)
    # the default datatype of a dict is J, of a list J unless all elements are int or all are float: never the case here
    return v, "J", "unrep", "J.json-with-foreign-element", "J"


def run_obj(F, case, ver, base, vlevel):
    gfapy = lib.import_gfapy()
    pl = obj_plan(case)
    if pl is None:
        return
    v, dt, verdict, lab, _ = pl
    tag, decl, how, when = case["tag"], case["decl"], case["how"], case["when"]
    spec = case["obj"]
    shown = "%s(%r)" % (spec["cls"], spec["v"]) if spec["t"] == "sub" else "%r with $ = %s" % (spec["v"], spec["elem"])
    where = "%s vlevel=%d tag=%s decl=%s%s %s value=%s" % (base.split("\t")[0], vlevel, tag, decl, ("/" + when) if decl else "", how, shown[:120])

    def fail(sig, msg):
        F.append("%s[%s]: %s: %s" % (sig, lab, where, msg))

    line = gfapy.Line(base, vlevel=vlevel, version=ver)
    refused = False
    try:
        if decl and when == "before":
            line.set_datatype(tag, decl)
        if how == "set":
            line.set(tag, v)
        else:
            setattr(line, tag, v)
        if decl and when == "after":
            line.set_datatype(tag, decl)
    except gfapy.Error as e:
        refused = e.__class__.__name__
    except Exception as e:
        fail("foreign-exception", "assignment raised %s@%s" % (e.__class__.__name__, M.innermost_gfapy_frame(e)))
        return
    if verdict == "rep":
        if refused:
            fail("representable-refused", "assignment raised %s" % refused)
            return
        judge_rep(fail, line, tag, dt, v, ver)
    elif not refused:
        judge_unrep(fail, line, tag, dt, vlevel)


def _fixed_sequences():
    out = []
    rep = {"int": {"t": "int", "v": "3"}, "float": {"t": "float", "v": "1.5"}, "str": {"t": "str", "v": "abc"},
           "json": {"t": "json", "v": [1, "a"]}, "ints": {"t": "inarr", "v": ["1", "2", "300"]},
           "floats": {"t": "flist", "v": ["1.5", "-2.0"]}, "bytes": {"t": "bytearr", "v": "00ff10"}}
    n = 0
    for k1 in KINDS:
        for k2 in KINDS:
            if k1 == k2:
                continue
            n += 1
            seq = [{"op": "set", "value": rep[k1], "how": ["set", "attr"][n % 2]}]
            if n % 3:
                seq.append({"op": "write"})
            seq += [{"op": "delete"}, {"op": "set", "value": rep[k2], "how": ["attr", "set"][n % 2]}]
            out.append({"seq": seq, "tag": _o.TAGNAMES[n % 4], "rec": n % 3, "mode": ["all", "last"][n % 2], "init": None})
            if n % 2:
                out.append({"seq": seq[1:], "tag": _o.TAGNAMES[n % 4], "rec": (n + 1) % 3, "mode": "all", "init": rep[k1]})
    E = lambda m, **kw: dict({"op": "edit", "m": m}, **kw)
    W, V, G = {"op": "write"}, {"op": "validate"}, {"op": "get"}
    arr = lambda t, *xs: {"t": t, "v": [str(x) for x in xs]}
    edits = [
        (arr("inarr", 1, 2, 3), [W, E("append", x="300"), E("append", x="-1")]),
        (arr("inarr", 1, 70000), [W, E("pop")]),
        (arr("inarr", 1, 2), [V, E("extend", xs=["5", "-5"])]),
        (arr("inarr", 1, 2), [V, E("append", x="2.5")]),
        (arr("inarr", 1, 2), [G, E("iadd", xs=["65536"])]),
        (arr("inarr", 255, 1), [W, E("insert", k=0, x="256")]),
        (arr("inarr", -1, 5), [W, E("remove", k=0)]),
        (arr("inarr", 1, 2 ** 32 - 1), [W, E("delitem", k=1)]),
        (arr("inarr", 1, 2, 65535), [V, E("delslice", k=1)]),
        (arr("inarr", 3, 2, -200), [W, E("popfirst"), W, E("popfirst"), E("sort")]),
        (arr("inarr", 1, 2), [W, E("clear")]),
        (arr("inarr", 1, 2), [W, E("append", x=str(2 ** 32))]),
        (arr("inarr", 1, 2), [W, E("setitem", k=0, x="-70000")]),
        (arr("inarr", 1, 2), [W, E("setslice", k=0, xs=["-1", "300"])]),
        (arr("inarr", 200), [W, E("imul"), E("reverse")]),
        (arr("ilist", 1, 2, 3), [W, E("append", x="300")]),
        (arr("ilist", 1, 70000), [V, E("pop")]),
        (arr("fnarr", 1.5, 2.5), [W, E("append", x="1")]),
        (arr("fnarr", 1.5, 2.5), [V, E("append", x="inf")]),
        (arr("fnarr", 1.5), [W, E("pop"), E("append", x="7")]),
    ]
    for n, (v, steps) in enumerate(edits):
        for mode in ("all", "last"):
            out.append({"seq": [{"op": "set", "value": v, "how": "set"}] + steps, "tag": _o.TAGNAMES[n % 4], "rec": n % 3, "mode": mode,
                        "init": None})
        out.append({"seq": steps, "tag": _o.TAGNAMES[(n + 1) % 4], "rec": (n + 1) % 3, "mode": "last", "init": v})
    # a tag created again after delete() is then overwritten / edited: it keeps the datatype it was created with
    D = {"op": "delete"}
    S = lambda how, v: {"op": "set", "value": v, "how": how}
    again = [
        [rep["float"], D, rep["int"], rep["str"]],                    # i tag, then a string: reported
        [rep["int"], D, rep["float"], {"t": "int", "v": "3"}],        # f tag, then 3: xx:f:3
        [rep["str"], D, arr("inarr", 1, 2), E("append", x="2.5")],    # B tag, mixed after the edit: reported
        [rep["json"], D, arr("ilist", 1, 2), E("append", x="300")],   # B tag, S after the edit
    ]
    n = 0
    for steps in again:
        for how1 in ("attr", "set"):
            for how2 in ("attr", "set"):
                n += 1
                seq = [S("set", steps[0]), D, S(how1, steps[2]), steps[3] if "op" in steps[3] else S(how2, steps[3])]
                out.append({"seq": seq, "tag": _o.TAGNAMES[n % 4], "rec": n % 3, "mode": "last", "init": None})
    return out


SEQ_FIXED = _fixed_sequences()


def n_exhaustive(tier):
    return _o.n_exhaustive(tier) + len(SEQ_FIXED) + len(OBJ_FIXED)


def exhaustive_case(i, tier):
    n0 = _o.n_exhaustive(tier)
    if i < n0:
        return _o.exhaustive_case(i, tier)
    if i < n0 + len(SEQ_FIXED):
        return SEQ_FIXED[i - n0]
    return OBJ_FIXED[i - n0 - len(SEQ_FIXED)]


# ---------------------------------------------------------------------------------------------------- model of a sequence
KIND_LABEL = {"ilist": "ints", "inarr": "ints", "flist": "floats", "fnarr": "floats", "emptylist": "empty", "emptynarr": "empty",
              "hexstr": "str"}


def _is_int(x):
    return isinstance(x, int) and not isinstance(x, bool)


def b_representable(lst):
    """a list as the value of a B tag: non-empty, all integers within one subtype or all finite floats"""
    if len(lst) == 0:
        return False
    if all(_is_int(x) for x in lst):
        return _o.int_subtype(lst) is not None
    if all(isinstance(x, float) for x in lst):
        return all(math.isfinite(x) for x in lst)
    return False


def init_text(spec, v, dt):
    """written form of the initial tag value (the harness writes it, gfapy parses it); None = not usable as init"""
    if dt == "i":
        return str(v)
    if dt == "f":
        s = repr(v)
        return s if M.RE_FLOAT.match(s) else None
    if dt == "Z":
        return v
    if dt == "J":
        return json.dumps(v)
    if dt == "H":
        return bytes(v).hex().upper()
    if dt == "B":
        if all(_is_int(x) for x in v):
            return ",".join([_o.int_subtype(list(v))] + [str(x) for x in v])
        s = ",".join(["f"] + [repr(x) for x in v])
        return s if M.tag_value("B", s) is True else None
    return None


def apply_edit(lst, st):
    """apply the edit step to a list (the model's or gfapy's); returns False when the step does not apply (index into an
    empty list): it is then skipped on both sides"""
    m, n = st["m"], len(lst)
    k = st.get("k", 0)
    if m == "append":
        lst.append(_num(st["x"]))
    elif m == "extend":
        lst.extend([_num(x) for x in st["xs"]])
    elif m == "iadd":
        r = lst.__iadd__([_num(x) for x in st["xs"]])
        assert r is lst
    elif m == "imul":
        r = lst.__imul__(2)
        assert r is lst
    elif m == "insert":
        lst.insert(k % (n + 1), _num(st["x"]))
    elif m == "sort":
        lst.sort()
    elif m == "reverse":
        lst.reverse()
    elif m == "clear":
        lst.clear()
    elif n == 0:
        return False
    elif m == "pop":
        lst.pop()
    elif m == "popfirst":
        lst.pop(0)
    elif m == "remove":
        lst.remove(list(lst)[k % n])
    elif m == "delitem":
        del lst[k % n]
    elif m == "delslice":
        del lst[k % n:]
    elif m == "setitem":
        lst[k % n] = _num(st["x"])
    elif m == "setslice":
        lst[k % n:k % n + 1] = [_num(x) for x in st["xs"]]
    else:
        raise AssertionError(m)
    return True


class State:
    def __init__(self):
        self.present = False
        self.dt = None
        self.spec = None      # spec of the value last assigned
        self.v = None         # the object given to gfapy (or built for init)
        self.mv = None        # model of the current value: a plain list for lists, else the value itself
        self.was = False      # the tag existed before on this line (and was deleted)
        self.recreated = False  # the present tag was created after a delete() of the same tag name


def plan(case):
    """walk of the model, without a line: list of (step, verdict) with verdict in
         None                              nothing to judge (reader steps, delete, skipped edit)
         ("rep"|"unrep", dt, label, model value, spec or None)
         ("stop",)                         debatable: the walk ends here without verdict
       preceded by the initial state (text or None)."""
    gfapy = lib.import_gfapy()
    st = State()
    init = None
    if case.get("init"):
        spec = case["init"]
        try:
            v = _o.build_value(spec)
            dt = _o.default_datatype(spec, v)
            ok = dt is not None and _o.representable(dt, spec, v) is True
        except gfapy.Error:
            ok = False
        text = init_text(spec, v, dt) if ok else None
        if text is None:
            return None, []
        init = "%s:%s:%s" % (case["tag"], dt, text)
        st.present, st.dt, st.spec, st.v, st.was = True, dt, spec, None, True
        st.mv = list(v) if isinstance(v, list) and dt in ("B", "J") and not isinstance(v, gfapy.ByteArray) else v
    out = []
    for step in case["seq"]:
        op = step["op"]
        if op in ("write", "validate", "get"):
            out.append((step, None))
        elif op == "delete":
            if st.present:
                st.present, st.dt, st.v, st.mv, st.recreated = False, None, None, None, False
            out.append((step, None))
        elif op == "set":
            spec = step["value"]
            try:
                v = _o.build_value(spec)
            except gfapy.Error:
                out.append((step, ("stop",)))
                break
            created = not st.present
            if st.present:
                dt, sit = st.dt, "overwrite" + ("-recreated" if st.recreated else "")
            else:
                dt, sit = _o.default_datatype(spec, v), ("recreated" if st.was else "new")
            if dt is None:
                out.append((step, ("stop",)))
                break
            rep = _o.representable(dt, spec, v)
            if rep is None:
                out.append((step, ("stop",)))
                break
            lab = "seq.%s.%s.%s" % (dt, KIND_LABEL.get(spec["t"], spec["t"]), sit)
            mv = list(v) if isinstance(v, list) and not isinstance(v, gfapy.ByteArray) and dt == "B" else v
            out.append((step, ("rep" if rep else "unrep", dt, lab, mv, spec, v)))
            if not rep:
                break
            if created:
                st.recreated = st.was
            st.present, st.dt, st.spec, st.v, st.mv, st.was = True, dt, spec, v, mv, True
        elif op == "edit":
            if not st.present or st.dt != "B" or not isinstance(st.mv, list) or isinstance(st.mv, gfapy.ByteArray):
                out.append((step, None))           # nothing to edit: the step is skipped
                continue
            mv = list(st.mv)
            if not apply_edit(mv, step):
                out.append((step, None))
                continue
            rep = b_representable(mv)
            knd = "floats" if mv and all(isinstance(x, float) for x in mv) else ("ints" if mv and all(_is_int(x) for x in mv)
                                                                                 else ("empty" if not mv else "mixed"))
            lab = "seq.B.%s.edit-%s%s" % (knd, step["m"], "-recreated" if st.recreated else "")
            out.append((step, ("rep" if rep else "unrep", "B", lab, mv, None, None)))
            if not rep:
                break
            st.mv = mv
        else:
            raise AssertionError(op)
    return init, out


# ---------------------------------------------------------------------------------------------------- verdicts on a line
def judge_rep(fail, line, tag, dt, v, ver):
    """the round-trip half (same demands as c20_oracle.one)"""
    gfapy = lib.import_gfapy()
    try:
        got_dt = line.get_datatype(tag)
    except Exception as e:
        fail("foreign-exception" if not isinstance(e, gfapy.Error) else "representable-refused", "get_datatype raised %s" % e.__class__.__name__)
        return False
    if got_dt != dt:
        fail("wrong-datatype", "get_datatype gives %r, expected %r" % (got_dt, dt))
        return False
    try:
        line.validate()
    except gfapy.Error as e:
        fail("representable-fails-validate", "validate() raised %s" % e.__class__.__name__)
    except Exception as e:
        fail("foreign-exception", "validate() raised %s@%s" % (e.__class__.__name__, M.innermost_gfapy_frame(e)))
    try:
        text = line.field_to_s(tag, tag=True)
        whole = str(line)
    except gfapy.Error as e:
        fail("representable-refused", "writing raised %s" % e.__class__.__name__)
        return False
    except Exception as e:
        fail("foreign-exception", "writing raised %s@%s" % (e.__class__.__name__, M.innermost_gfapy_frame(e)))
        return False
    pre = "%s:%s:" % (tag, dt)
    if not text.startswith(pre) or M.tag_value(dt, text[len(pre):]) is not True:
        fail("malformed-text-written", "field_to_s gives %r" % text)
        return False
    if text not in whole.split("\t"):
        fail("str-differs-from-field_to_s", "str(line) is %r, field_to_s %r" % (whole, text))
        return False
    ok = True
    if dt == "B" and not isinstance(v, str) and all(isinstance(x, int) for x in v):
        want = _o.int_subtype(list(v))
        if text[len(pre)] != want:
            fail("subtype-not-smallest", "written %r, smallest subtype is %r" % (text, want))
            ok = False
    try:
        back = gfapy.Line(whole, vlevel=1, version=ver)
        bv = back.get(tag)
        bdt = back.get_datatype(tag)
    except gfapy.Error as e:
        fail("written-line-does-not-parse", "%r: %s" % (whole, e.__class__.__name__))
        return False
    except Exception as e:
        fail("foreign-exception", "re-parsing %r raised %s@%s" % (whole, e.__class__.__name__, M.innermost_gfapy_frame(e)))
        return False
    if bdt != dt:
        fail("datatype-changed-on-reparse", "%r reads back as %r" % (text, bdt))
        ok = False
    if _o.equal_back(dt, v, bv) is False:
        fail("value-changed", "wrote %r, read back %r" % (text, bv))
        ok = False
    try:
        own = line.get(tag)
        if _o.equal_back(dt, v, own) is False:
            fail("value-changed", "line.get gives %r, the value is %r" % (own, v))
            ok = False
    except gfapy.Error as e:
        fail("representable-refused", "get raised %s" % e.__class__.__name__)
        ok = False
    except Exception as e:
        fail("foreign-exception", "get raised %s@%s" % (e.__class__.__name__, M.innermost_gfapy_frame(e)))
        ok = False
    return ok


def judge_unrep(fail, line, tag, dt, vlevel):
    """the reporting half (same demands as c20_oracle.one)"""
    gfapy = lib.import_gfapy()
    reported = False
    try:
        line.validate()
    except gfapy.Error:
        reported = True
    except Exception as e:
        fail("foreign-exception", "validate() raised %s@%s" % (e.__class__.__name__, M.innermost_gfapy_frame(e)))
        reported = True
    if not reported:
        fail("unrepresentable-not-reported-by-validate", "validate() passes")
    if vlevel >= 2:
        pre = "%s:" % tag
        try:
            text = line.field_to_s(tag, tag=True)
            p = M.split_tag(text)
            if p is None or p[1] not in "AifZJHB" or M.tag_value(p[1], p[2]) is not True or p[1] != dt:
                fail("malformed-text-written", "field_to_s returns %r" % text)
            else:
                fail("unrepresentable-written", "field_to_s returns %r without an error" % text)
        except gfapy.Error:
            pass
        except Exception as e:
            fail("foreign-exception", "field_to_s raised %s@%s" % (e.__class__.__name__, M.innermost_gfapy_frame(e)))
        try:
            whole = str(line)
            if "# INVALID" not in whole:
                tg = [f for f in whole.split("\t")[1:] if f.startswith(pre)]
                fail("malformed-text-written", "str(line) returns %r" % (tg or whole))
        except gfapy.Error:
            pass
        except Exception as e:
            fail("foreign-exception", "str(line) raised %s@%s" % (e.__class__.__name__, M.innermost_gfapy_frame(e)))


def short_step(st):
    op = st["op"]
    if op == "set":
        return "%s(%s)" % (st["how"], _o.short(st["value"]))
    if op == "edit":
        return "%s(%s)" % (st["m"], ",".join(str(st[k]) for k in ("k", "x", "xs") if k in st))
    return op


def run_seq(F, case, ver, base, vlevel):
    gfapy = lib.import_gfapy()
    tag = case["tag"]
    init, steps = plan(case)
    if not steps:
        return
    last_judged = max([i for i, (_, vd) in enumerate(steps) if vd is not None and vd[0] != "stop"] or [-1])
    text0 = base + ("\t" + init if init else "")
    done = []
    lab = "seq"

    def fail(sig, msg):
        if lab.endswith("-recreated"):
            sig = "recreated-tag-changed/" + sig         # defect family of the pinned tree: see the module docstring
        F.append("%s[%s]: %s vlevel=%d tag=%s: %s%s: %s" % (sig, lab, base.split("\t")[0], vlevel, tag,
                                                      ("line %r; " % text0) if init else "", " > ".join(done), msg))

    try:
        line = gfapy.Line(text0, vlevel=vlevel, version=ver)
    except gfapy.Error:
        return                               # the initial text is not the subject
    for i, (step, vd) in enumerate(steps):
        op = step["op"]
        done.append(short_step(step))
        if vd is not None and vd[0] == "stop":
            return
        if op in ("write", "validate", "get"):
            # readers between the judged states: their outcome is judged by the state checks, here they only read
            try:
                if op == "write":
                    str(line)
                    if tag in line.tagnames:
                        line.field_to_s(tag, tag=True)
                elif op == "validate":
                    line.validate()
                else:
                    line.get(tag)
            except Exception:
                pass
            continue
        if op == "delete":
            try:
                line.delete(tag)
                gone = tag not in line.tagnames
            except Exception:
                gone = False
            if not gone:
                return                       # not the subject of C20: without the deletion the rest is not judged
            continue
        if vd is None:
            continue                         # an edit that does not apply
        verdict, dt, lab, mv, spec, v = vd
        judged = case.get("mode") == "all" or i == last_judged or verdict == "unrep"
        if op == "set":
            refused = False
            try:
                if step["how"] == "set":
                    line.set(tag, v)
                else:
                    setattr(line, tag, v)
            except gfapy.Error as e:
                refused = e.__class__.__name__
            except Exception as e:
                fail("foreign-exception", "assignment raised %s@%s" % (e.__class__.__name__, M.innermost_gfapy_frame(e)))
                return
            if verdict == "rep":
                if refused:
                    fail("representable-refused", "assignment raised %s" % refused)
                    return
                if judged and not judge_rep(fail, line, tag, dt, mv, ver):
                    return
            else:
                if not refused:
                    judge_unrep(fail, line, tag, dt, vlevel)
                return
        else:  # edit
            try:
                obj = line.get(tag)
            except Exception:
                return
            if not isinstance(obj, list) or isinstance(obj, gfapy.ByteArray):
                return
            try:
                apply_edit(obj, step)
            except gfapy.Error:
                return                       # an array class that refuses the edit itself: nothing is written
            # is the edited object the value of the tag?  (at level 3 get validates: a refusal of an unrepresentable
            # value there is a report; the sharing is then taken from the identity seen before the edit)
            try:
                now = line.get(tag)
                if now is not obj or list(now) != list(mv) or [type(x) for x in now] != [type(x) for x in mv]:
                    return
            except gfapy.Error as e:
                if verdict == "rep":
                    fail("representable-refused", "get raised %s after the edit" % e.__class__.__name__)
                    return
            except Exception as e:
                fail("foreign-exception", "get raised %s@%s after the edit" % (e.__class__.__name__, M.innermost_gfapy_frame(e)))
                return
            if verdict == "rep":
                if judged and not judge_rep(fail, line, tag, dt, mv, ver):
                    return
            else:
                judge_unrep(fail, line, tag, dt, vlevel)
                return


# ---------------------------------------------------------------------------------------------------- oracle
def oracle(case):
    if "seq" not in case and "obj" not in case:
        return _o.oracle(case)
    F = []
    if "obj" in case:
        for ver, base in _o.CTX:
            for vlevel in (0, 1, 2, 3):
                run_obj(F, case, ver, base, vlevel)
    else:
        ver, base = _o.CTX[case.get("rec", 0) % len(_o.CTX)]
        for vlevel in (0, 1, 2, 3):
            run_seq(F, case, ver, base, vlevel)
    seen = set(); out = []
    for f in F:
        s = signature(case, f)
        if s not in seen:
            seen.add(s); out.append(f)
    return out


def classify(case):
    if "obj" in case:
        pl = obj_plan(case)
        return "skip" if pl is None else pl[2]
    if "seq" not in case:
        return _o.classify(case)
    _, steps = plan(case)
    vs = [vd[0] for _, vd in steps if vd is not None and vd[0] != "stop"]
    if not vs:
        return "skip"
    return "unrep" if "unrep" in vs else "rep"


def nontrivial(case):
    return classify(case) != "skip"


def tags(case):
    if "obj" in case:
        spec = case["obj"]
        return ["obj", "obj-" + classify(case), "decl=%s" % case["decl"], case["how"],
                "t=sub-" + spec["cls"] if spec["t"] == "sub" else "t=json-with-" + spec["elem"]]
    if "seq" not in case:
        return _o.tags(case)
    _, steps = plan(case)
    t = ["seq", "seq-" + classify(case), "mode=" + str(case.get("mode")), "init" if case.get("init") else "noinit"]
    for _, vd in steps:
        if vd is not None and vd[0] != "stop":
            t.append("sit=" + vd[2].split(".")[-1].split("-")[0])
    return sorted(set(t))


def signature(case, failure):
    return failure.split(": ")[0]
