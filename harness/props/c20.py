"""C20 — wrapper: generator and oracle of c20_oracle."""
from harness.props.c20_oracle import *  # noqa
from harness.props import c20_oracle as _o
ID = "C20"
RULE = getattr(_o, "RULE", "")
