"""C06 — GFA1<->GFA2 conversion preserves the graph and emits valid output.

Text-level oracle.  The source document is generated as text; the converted document is taken as text
(Gfa.to_gfaN_s(), str(Gfa.to_gfaN()), line.to_gfaN_s()); both are parsed HERE (tab splitting, no gfapy) into

  segment   (name, length, sequence, tags)
  edge      canonical form of  ((seg1, orient1, beg1, end1), (seg2, orient2, beg2, end2), alignment read 1->2)
            under the two meaning-preserving rewritings
               swap roles            (X, Y, aln) -> (Y, X, aln with I<->D)
               reverse-complement    (Xo, Yo', aln) -> (X-o, Y-o', aln reversed)
            A GFA1 link `L A oa B ob c` IS the edge (oriented suffix of A of length reflen(c), oriented prefix of B of
            length querylen(c), c); its complement link is the same edge by swap+reverse.  A containment
            `C A oa B ob pos c` IS ((A, oa, pos, pos+reflen(c)), (B, ob, 0, |B|), c).
  path      the closed or open walk: oriented segments and, between them, the canonical edge used

and compared: segments keep id/length/sequence, edges are the same set (same oriented pair, same intervals, same
alignment in the same direction), `$` is written exactly on positions equal to the segment length, paths are the
same walks, tags are carried over (LN<->slen, ID<->eid, VN aside); the converted text is accepted by
gfapy.Gfa(text, vlevel=3) + validate() and by the independent recogniser of _misc.py; there-and-back gives an
equivalent document; records without counterpart (F, G, U, custom records, internal edges, trace-aligned edges)
are absent from the whole-graph conversion and their line.to_gfa1() raises a gfapy.Error; in the other direction GFA1
links and containments whose CIGAR GFA2 cannot hold are refused or dropped (section below).

NAMES WITHOUT A GFA1 SPELLING.  A GFA2 identifier is any printable string, a GFA1 segment name does not start with `*`
or `=` and holds no `+,` / `-,` (the segment list of a P line is split at its commas: a path over `x+,y` written
`x+,y+,z+` visits x, y and z).  Segments with such a name (NO_GFA1_NAMES; some are spelled with the names of other
segments of the same graph, so that the misreading is a valid walk), their edges and the ordered groups that visit
them - one-segment, explicit, implicit, reversed, circular, with `*` and with CIGAR edges - are generated next to
unusual names that both versions accept (ODD_NAMES: full comparison as for any other name).  They are records
without a counterpart (unnameable()):
  * line level: S.to_gfa1()/to_gfa1_s(), E.…, O.… must raise a gfapy.Error      signature unnameable-translated[S|E|O]
  * whole graph: Gfa.to_gfa1_s()/to_gfa1() may raise; if it returns a text, no S/L/C line may name such a segment and
    no P line may carry the name of such a group                     signature unnameable-translated[Gfa:S|L|C|P]
    (a text with such lines is not offered to the validity check again: it is already reported);
    everything else in the text is compared with the source as usual.
  On the unmodified tree the S and E conversions (to_gfa1_s() at every level, to_gfa1() at vlevel 0, hence also
  Gfa.to_gfa1_s()) write the name unchecked: signatures unnameable-translated[S], [E], [Gfa:S], [Gfa:L], [Gfa:C] are
  a finding of the unmodified tree; [O] and [Gfa:P] are refused there (Ordered._to_gfa1_a checks each captured
  segment's name).

SEGMENTS WHOSE DECLARED LENGTH IS NOT THE LENGTH OF THEIR SEQUENCE.  In GFA2 `S a 12 ACGTACGT` is legal (slen is the
length the coordinates of edges and fragments count in; the sequence string may be shorter or longer) and gfapy accepts
it at every level.  GFA1 has one length per segment: LN must equal the length of the sequence when both are given
(Segment.validate_length).  Such a segment (mismatched(): exhaustive cases with a shorter / longer sequence, alone, under
a dovetail at its begin / at its end, under a containment, in a group; random: a fifth of the GFA2 cases get one) is a
record without a counterpart:
  * whole graph: Gfa.to_gfa1_s()/to_gfa1() may raise a gfapy.Error.  If a text comes back, every segment in it is
    compared with the source as usual: a segment written with another length (`S a ACGTACGT LN:i:8`: the length of the
    string taken for the declared one - links on it then lie elsewhere) or another sequence is
    segment-length-changed / segment-sequence-changed.  An S line for such a segment at all is
    slen-mismatch-translated[Gfa:S] (with the length kept, `S a ACGTACGT LN:i:12` is not a valid GFA1 line; the text is
    not offered to the validity check again).  If the segment is dropped, its edges and the groups over it are expected
    to be dropped with it.
  * line level: S.to_gfa1()/to_gfa1_s() may raise a gfapy.Error; a line that comes back is compared with the source
    (segment-length-changed / segment-sequence-changed) and is slen-mismatch-translated[S].
  On the unmodified tree to_gfa1() refuses such a segment at vlevel >= 1 (the GFA1 line is built and validated) but
  to_gfa1_s() at every level, to_gfa1() at vlevel 0 and hence Gfa.to_gfa1_s() write `S a ACGTACGT LN:i:12`:
  signatures slen-mismatch-translated[S] and [Gfa:S] are a finding of the unmodified tree (listed last among the
  failures of a case).
  gfapy checks the `$` of a position against the length of the sequence string, not against slen (validate_positions):
  at vlevel >= 1 it refuses a source in which an edge ends at the declared end of such a segment; the generator puts
  such edges into documents parsed at vlevel 0 and otherwise prefers segments on which no position carries a `$`.

GFA1 EDGES WHOSE CIGAR USES AN OPERATION THAT GFA2 DOES NOT HAVE.  A GFA1 CIGAR may use M I D N S H P X =, a GFA2
alignment M I D P only.  A link or containment with `=`, `X`, `N`, `S` or `H` in its overlap (legal GFA1, accepted by gfapy
at every level; gfa1_only_edges()) is a record without a counterpart.  Exhaustive: 11 link CIGARs x 2 orientation pairs
and 8 containment CIGARs, alone, next to a convertible link, under a path that spells the overlap out / uses `*`, half of
them read at vlevel 0 first; random: in a sixth of the GFA1 graphs one link or containment (a containment half of the
time, if there is one) gets such a CIGAR with the same query length and the same or a shorter reference length
(gfa1_only_one(): M -> = / X, an H inserted, I -> S, D -> N, a soft clip at an end), path steps over it re-spelled.
  * line level: L.to_gfa2()/to_gfa2_s(), C.… must raise a gfapy.Error       signature gfa1-only-cigar-translated[L|C]
  * whole graph: Gfa.to_gfa2_s()/to_gfa2() may raise; if a text comes back, no E line in it carries a CIGAR with such
    an operation                                                        signature gfa1-only-cigar-translated[Gfa:E]
    (a text with such lines is not offered to the validity check again: it is already reported); the rest of the text
    is valid GFA2 and is compared with the source as usual (the edge and the paths over it left out).
  The unmodified tree refuses all of them (ToGFA2._to_gfa2_a validates the overlap for GFA2): the whole-graph
  conversions and the line conversions raise gfapy.RuntimeError at every level.

NOT CHECKED
  * links whose overlap covers a whole segment (reflen >= |from| or querylen >= |to|): in GFA2 they look like
    containments (DESIGN §7, note after the table) -- such links, and paths through them, are skipped;
  * GFA1 input with `*` overlaps or segments without length (outside the quantifier), zero-length overlaps;
  * for a GFA1 edge with an S/N/H/=/X operation: an E line that stands for it with another, GFA2-legal alignment
    (it is not compared with anything; only an E line that carries the GFA1-only CIGAR is flagged), and whether the
    paths over it are dropped with it; there-and-back is not run on such graphs;
  * containments whose container is reverse (`C A - ...`): what `pos` counts from is not said by GFA1 -- they are
    generated, and compared under the reading "pos is a forward coordinate of the container", signature suffix [C-];
  * what the sign of an edge reference inside an O group means (gfapy reads `e-` as "both orientations flipped"; the
    generator writes O groups in that reading) and one-segment circular paths (`P p A+ 1M` over a self-link);
  * trace-aligned edges towards GFA1: refused, dropped, or written with a `*` overlap are all accepted;
  * the identifier invented for an unnamed edge, the order of lines and of tags, the spelling of numbers;
  * trace alignments beyond "refused or dropped towards GFA1"; O groups that nest groups or use unnamed/internal
    edges; U groups (no GFA1 counterpart);
  * whether a whole-graph conversion may *raise* a gfapy.Error because of a record without counterpart (the property
    allows "dropped or refused"): such an outcome is tagged, not flagged.
"""
import re
from harness import lib
from harness.props import _misc as M

ID = "C06"
RULE = ("exhaustive: every single-link GFA1 graph over 4 orientation pairs x 14 CIGARs (symmetric, I/D-asymmetric, order-"
        "asymmetric, with P) x {two segments, self-link} x {named, unnamed}, every containment over 4 orientation pairs x offset "
        "classes 0/inner/flush right x 4 CIGARs, every single-edge GFA2 graph over 4 orientation pairs x both role orders x "
        "{dovetail, containment of sid2, containment of sid1, internal} x 8 alignments (CIGAR, `*`, trace), each with linear / "
        "circular / one-segment paths; random: graphs of 2-4 segments (lengths 4-12) with 1-5 edges, parallel edges, self-links, "
        "paths walking 1-3 edges in either direction, F/G/U/custom records, tags; segment names that are unusual in both "
        "versions, and GFA2 identifiers without a GFA1 spelling (leading `*`/`=`, `+,`/`-,` inside) on segments, under edges "
        "and under ordered groups (exhaustive: 10 names x {`*`, CIGAR} x 7 group shapes; random: 15% of the cases): "
        "refused or dropped, never written; GFA2 segments whose sequence string is shorter or longer than the declared length "
        "(exhaustive: 2 x 6 shapes; random: a fifth of the GFA2 cases): refused or dropped, never written with another length; "
        "GFA1 links and containments whose CIGAR uses an operation GFA2 does not have (= X N S H; exhaustive: 11 link CIGARs "
        "x 2 orientation pairs x {alone, beside a convertible link, under a path} and 8 containment CIGARs; random: a sixth "
        "of the GFA1 cases, path overlaps re-spelled): refused by line.to_gfa2()/to_gfa2_s(), refused or dropped by the "
        "whole-graph conversion, never written as an E line with that CIGAR. "
        "Non-trivial: the graph has an edge whose "
        "alignment is asymmetric (not equal to its own complement), a path, a segment without a GFA1 name, a segment "
        "whose declared length differs from the length of its sequence, or a GFA1 edge with a GFA1-only CIGAR operation.")

INV = {"+": "-", "-": "+"}


# ---------------------------------------------------------------------------------------------------- text algebra
def ops_of(c):
    return [(int(n), k) for n, k in re.findall(r"([0-9]+)([MIDNSHPX=])", c)]


def reflen(ops):
    return sum(n for n, k in ops if k in "MD=XN")


def qlen(ops):
    return sum(n for n, k in ops if k in "MI=XS")


def swap_id(ops):
    return [(n, {"I": "D", "D": "I"}.get(k, k)) for n, k in ops]


def canon_edge(a, b, aln):
    """a, b: (seg, orient, beg, end) ; aln: list of ops, None for `*`, ('trace', text) for a trace"""
    forms = []
    for sw in (False, True):
        for rc in (False, True):
            x, y, z = a, b, aln
            if sw:
                x, y = y, x
                z = swap_id(z) if isinstance(z, list) else z
            if rc:
                x = (x[0], INV[x[1]], x[2], x[3])
                y = (y[0], INV[y[1]], y[2], y[3])
                z = list(reversed(z)) if isinstance(z, list) else z
            forms.append((x, y, tuple(z) if isinstance(z, list) else (("*",) if z is None else tuple(z))))
    return min(forms, key=repr)


def link_edge(a, oa, b, ob, cig, lens):
    ops = ops_of(cig)
    r, q = reflen(ops), qlen(ops)
    na, nb = lens[a], lens[b]
    ia = (na - r, na) if oa == "+" else (0, r)
    ib = (0, q) if ob == "+" else (nb - q, nb)
    return (a, oa, ia[0], ia[1]), (b, ob, ib[0], ib[1]), ops


def cont_edge(a, oa, b, ob, pos, cig, lens):
    ops = ops_of(cig)
    return (a, oa, pos, pos + reflen(ops)), (b, ob, 0, lens[b]), ops


def tagset(fields, drop=()):
    return sorted(t for t in fields if t[:2] not in drop)


def parse1(lines):
    D = {"S": {}, "L": [], "C": [], "P": [], "H": [], "other": []}
    for ln in lines:
        f = ln.split("\t")
        rt = f[0]
        if rt == "S":
            tags = f[3:]
            ln_ = [int(t[5:]) for t in tags if t.startswith("LN:i:")]
            length = ln_[0] if ln_ else (len(f[2]) if f[2] != "*" else None)
            D["S"][f[1]] = {"len": length, "seq": f[2], "tags": tagset(tags, ("LN",))}
        elif rt == "L":
            idt = [t[5:] for t in f[6:] if t.startswith("ID:Z:")]
            D["L"].append({"a": f[1], "oa": f[2], "b": f[3], "ob": f[4], "cig": f[5], "id": idt[0] if idt else None, "tags": tagset(f[6:], ("ID",))})
        elif rt == "C":
            idt = [t[5:] for t in f[7:] if t.startswith("ID:Z:")]
            D["C"].append({"a": f[1], "oa": f[2], "b": f[3], "ob": f[4], "pos": int(f[5]), "cig": f[6], "id": idt[0] if idt else None,
                           "tags": tagset(f[7:], ("ID",))})
        elif rt == "P":
            D["P"].append({"name": f[1], "segs": [(e[:-1], e[-1]) for e in f[2].split(",")], "ov": f[3].split(","), "tags": tagset(f[4:])})
        elif rt == "H":
            D["H"].append(f[1:])
        elif not rt.startswith("#"):
            D["other"].append(ln)
    return D


def parse2(lines):
    D = {"S": {}, "E": [], "O": [], "H": [], "F": [], "G": [], "U": [], "other": []}
    for ln in lines:
        f = ln.split("\t")
        rt = f[0]
        if rt == "S":
            D["S"][f[1]] = {"len": int(f[2]), "seq": f[3], "tags": tagset(f[4:])}
        elif rt == "E":
            D["E"].append({"id": None if f[1] == "*" else f[1], "s1": f[2][:-1], "o1": f[2][-1], "s2": f[3][:-1], "o2": f[3][-1],
                           "pos": f[4:8], "aln": f[8], "tags": tagset(f[9:]), "text": ln})
        elif rt == "O":
            D["O"].append({"name": f[1], "items": [(e[:-1], e[-1]) for e in f[2].split(" ")], "tags": tagset(f[3:])})
        elif rt == "H":
            D["H"].append(f[1:])
        elif rt in ("F", "G", "U"):
            D[rt].append(ln)
        elif not rt.startswith("#"):
            D["other"].append(ln)
    return D


def aln_of(text):
    if text == "*":
        return None
    if re.match(r"([0-9]+[MIDP])+\Z", text):
        return ops_of(text)
    return ("trace", text)


def e_tuple(e):
    p = [int(x.rstrip("$")) for x in e["pos"]]
    return (e["s1"], e["o1"], p[0], p[1]), (e["s2"], e["o2"], p[2], p[3]), aln_of(e["aln"])


def e_kind(e, lens):
    """independent classification of a GFA2 edge: 'L' dovetail, 'C' containment, 'I' internal"""
    (s1, o1, b1, e1), (s2, o2, b2, e2), _ = e_tuple(e)
    n1, n2 = lens[s1], lens[s2]
    w1, w2 = (b1 == 0 and e1 == n1), (b2 == 0 and e2 == n2)
    if w1 or w2:
        return "C"

    def ends(o, n, b, e_):
        start = (b == 0) if o == "+" else (e_ == n)
        end = (e_ == n) if o == "+" else (b == 0)
        return start, end
    st1, en1 = ends(o1, n1, b1, e1)
    st2, en2 = ends(o2, n2, b2, e2)
    if (en1 and st2) or (st1 and en2):
        return "L"
    return "I"


def sid1_is_from(e, lens):
    """independent reading of which side of a GFA2 edge is the GFA1 `from` / container side.  None: both readings fit"""
    (s1, o1, b1, e1), (s2, o2, b2, e2), _ = e_tuple(e)
    n1, n2 = lens[s1], lens[s2]
    w1, w2 = (b1 == 0 and e1 == n1), (b2 == 0 and e2 == n2)
    if w1 or w2:
        return None if (w1 and w2) else (not w1)

    def ends(o, n, b, e_):
        return ((b == 0) if o == "+" else (e_ == n)), ((e_ == n) if o == "+" else (b == 0))
    st1, en1 = ends(o1, n1, b1, e1)
    st2, en2 = ends(o2, n2, b2, e2)
    d, r = (en1 and st2), (st1 and en2)
    return None if d == r else d


def walk1(p, links_by_step, lens):
    """GFA1 path -> (segments, edges, closed)"""
    segs = list(p["segs"])
    n = len(segs)
    ov = p["ov"]
    closed = (ov != ["*"] and len(ov) == n) and n >= 1
    steps = list(zip(segs, segs[1:])) + ([(segs[-1], segs[0])] if closed else [])
    edges = []
    for k, (x, y) in enumerate(steps):
        want = None if ov == ["*"] or ov[k] == "*" else ops_of(ov[k])
        cands = links_by_step.get((x[0], x[1], y[0], y[1]), [])
        if want is not None:
            c2 = [c for c in cands if c[1] == want]
            cands = c2 or cands
        edges.append(cands[0][0] if len(cands) == 1 else (None if not cands else "ambiguous"))
    return segs + ([segs[0]] if closed else []), edges


def steps_index1(D, lens):
    """(from, orient, to, orient) -> [(canonical edge, cigar ops as read in that direction)] for every link, both directions"""
    idx = {}
    for l in D["L"]:
        if l["cig"] == "*":
            continue
        ops = ops_of(l["cig"])
        ce = canon_edge(*link_edge(l["a"], l["oa"], l["b"], l["ob"], l["cig"], lens))
        idx.setdefault((l["a"], l["oa"], l["b"], l["ob"]), []).append((ce, ops))
        idx.setdefault((l["b"], INV[l["ob"]], l["a"], INV[l["oa"]]), []).append((ce, list(reversed(swap_id(ops)))))
    return idx


def walk2(o, D2, lens):
    """GFA2 O group (segments and named edges only) -> (segments, edges, sign problems)"""
    byname = {e["id"]: e for e in D2["E"] if e["id"]}
    segs, edges, bad = [], [], []
    items = o["items"]
    for i, (n, s) in enumerate(items):
        if n in D2["S"]:
            segs.append((n, s))
        elif n in byname:
            e = byname[n]
            edges.append(canon_edge(*e_tuple(e)))
        else:
            edges.append(None)
    return segs, edges, bad


# ---------------------------------------------------------------------------------------------------- generators
# segment names: the plain ones, unusual ones that are names in both versions, and GFA2 identifiers that have NO GFA1
# spelling (a GFA1 name does not start with `*` or `=` and holds no `+,` / `-,`, because the segment list of a P line
# is split at the commas that follow an orientation); `A+,B` and `B-,C+,D` are built from other names of the pool, so
# that a list which spells them out reads as a walk over *other* segments of the same graph
ODD_NAMES = ["x+y", "s-", "a=b", "7"]
NO_GFA1_NAMES = ["A+,B", "B-,C+,D", "x+,y", "a-,b", "*x", "=y"]


def name_pool(rng):
    return NAMES + rng.sample(ODD_NAMES, 1) + rng.sample(NO_GFA1_NAMES, 2) + (["A+,B"] if rng.chance(0.5) else [])


# CIGARs with operations that only GFA1 has (`=` `X` match / mismatch, `N` skipped region of the reference, `S` soft
# and `H` hard clipping); LINK_*: reference and query length 1-4 (segments have 6-12 bases); CONT_*: query length 5
GFA1_ONLY_OPS = "=XNSH"
LINK_CIGS_GFA1_ONLY = ["3=", "2=1X1M", "2X", "1M1N1M", "2M1S", "1S2M", "1H2M", "1M1H1M1H", "2M1I1=", "1=1D1X1M", "1M1P1="]
CONT_CIGS_GFA1_ONLY = ["5=", "3=1X1M", "4M1S", "1S4M", "2M1N3M", "5M2H", "1X1I1D3M", "2=1P3="]
CIGS = ["1M", "3M", "1M1I", "1M1D", "2M1D1M", "1M1I2M", "1I2M", "2M1D", "1M2I1D1M", "1M1P2M", "2D1M", "1M1I1D", "3M1I", "1D1M1I"]
NAMES = ["A", "B", "C", "D"]


def seg1(name, n, with_seq, tags=""):
    seq = ("ACGTTGCAACGT" * 2)[:n]
    return ("S\t%s\t%s" % (name, seq) if with_seq else "S\t%s\t*\tLN:i:%d" % (name, n)) + tags


def seg2(name, n, with_seq, tags=""):
    seq = ("ACGTTGCAACGT" * 2)[:n]
    return "S\t%s\t%d\t%s" % (name, n, seq if with_seq else "*") + tags


def pos2(x, n):
    return "%d$" % x if x == n else "%d" % x


def cont_cigar(nb, shape):
    """a CIGAR whose query length is nb"""
    if shape == 0 or nb < 3:
        return "%dM" % nb
    if shape == 1:
        return "1M1D%dM" % (nb - 1)
    if shape == 2:
        return "%dM1I1M" % (nb - 2)
    return "1M1I1D%dM" % (nb - 2)


def _ex():
    X = []
    # GFA1 single links
    for oa in "+-":
        for ob in "+-":
            for ci, c in enumerate(CIGS):
                for selfl in (False, True):
                    named = (ci + (oa == "+") + (ob == "+")) % 2 == 0
                    b = "A" if selfl else "B"
                    L = [seg1("A", 9, ci % 2 == 0), seg1("B", 8, ci % 3 == 0, "\txx:i:5")][:1 if selfl else 2]
                    L.append("L\tA\t%s\t%s\t%s\t%s%s" % (oa, b, ob, c, "\tID:Z:lk1\tab:Z:t" if named else ""))
                    pmode = ci % 4
                    if pmode == 0:
                        L.append("P\tp\tA%s,%s%s\t%s" % (oa, b, ob, c))
                    elif pmode == 1:
                        L.append("P\tp\t%s%s,A%s\t%s\tzz:i:1" % (b, INV[ob], INV[oa], "".join("%d%s" % o for o in reversed(swap_id(ops_of(c))))))
                    elif pmode == 2:
                        L.append("P\tp\tA+\t*")
                    X.append({"dir": "1to2", "lines": L})
    # GFA1 containments
    for oa in "+-":
        for ob in "+-":
            for off in (0, 2, "flush"):
                for shape in range(4):
                    nb = 5
                    c = cont_cigar(nb, shape)
                    r = reflen(ops_of(c))
                    na = 11
                    pos = off if off != "flush" else na - r
                    L = [seg1("A", na, shape % 2 == 0), seg1("B", nb, True), "C\tA\t%s\tB\t%s\t%d\t%s%s" % (oa, ob, pos, c, "\tID:Z:c1" if shape % 2 else "")]
                    X.append({"dir": "1to2", "lines": L})
    # a circular two-segment path
    for c1, c2 in (("2M", "1M"), ("1M1I", "2M1D"), ("1M1D1M", "1I2M")):
        X.append({"dir": "1to2", "lines": [seg1("A", 8, True), seg1("B", 7, False), "L\tA\t+\tB\t+\t%s" % c1, "L\tB\t+\tA\t+\t%s\tID:Z:x9" % c2,
                                           "P\tp\tA+,B+\t%s,%s" % (c1, c2)]})
    # GFA2 single edges
    alns = ["2M", "1M1I1M", "2M1D1M", "1I2M", "1M1P1D1M", "*", "3,2", "1M1I"]
    for o1 in "+-":
        for o2 in "+-":
            for order in (0, 1):
                for kind in ("dove", "cont2", "cont1", "int"):
                    for ai, a in enumerate(alns):
                        n1, n2 = 12, 6
                        ops = ops_of(a) if re.match(r"([0-9]+[MIDP])+\Z", a) else [(2, "M")]
                        r, q = max(1, reflen(ops)), max(1, qlen(ops))

                        def iv(n, o, k, suffix):
                            at_end = (suffix and o == "+") or (not suffix and o == "-")
                            return (n - k, n) if at_end else (0, k)
                        if kind == "dove":
                            i1, i2 = iv(n1, o1, r, order == 0), iv(n2, o2, q, order == 1)
                        elif kind == "cont2":
                            i1, i2 = (1, 1 + r), (0, n2)
                            if a not in ("*", "3,2"):
                                a_ = cont_cigar(n2, ai % 4); r = reflen(ops_of(a_)); i1 = (1, 1 + r)
                            else:
                                a_ = a
                        elif kind == "cont1":
                            i1, i2 = (0, n1), (2, 2 + q)
                        else:
                            i1, i2 = (1, 1 + r), (2, 2 + q)
                        al = a_ if kind == "cont2" else a
                        named = (ai % 2 == 0)
                        L = [seg2("A", n1, ai % 2 == 0), seg2("B", n2, True, "\txx:i:5"),
                             "E\t%s\tA%s\tB%s\t%s\t%s\t%s\t%s\t%s%s" % ("e1" if named else "*", o1, o2, pos2(i1[0], n1), pos2(i1[1], n1),
                                                                     pos2(i2[0], n2), pos2(i2[1], n2), al, "\tab:Z:t" if named else "")]
                        if named and kind == "dove":
                            if order == 0:
                                L.append("O\tp\tA%s e1+ B%s" % (o1, o2) if ai % 4 == 0 else "O\tp\tB%s e1- A%s" % (INV[o2], INV[o1]))
                            else:
                                L.append("O\tp\tB%s e1+ A%s" % (o2, o1) if ai % 4 == 0 else "O\tp\tA%s e1- B%s" % (INV[o1], INV[o2]))
                        if ai == 3:
                            L += ["G\tg1\tA+\tB-\t10\t*", "F\tA\tread+\t0\t%d$\t0\t4\t*" % n1, "U\tu1\tA B", "X\tcustom\trecord"]
                        X.append({"dir": "2to1", "lines": L})
    X.append({"dir": "2to1", "lines": [seg2("A", 5, True), "O\tp\tA+"]})
    # segments whose name is unusual / has no GFA1 spelling, alone, under an edge, and visited by an ordered group:
    # one-segment group, explicit and implicit two-segment group over a `*` or CIGAR edge, circular group
    for ni, n in enumerate(ODD_NAMES + NO_GFA1_NAMES):
        S = [seg2(n, 12, ni % 2 == 0), seg2("A", 8, True), seg2("B", 8, False), seg2("C", 6, True), seg2("D", 6, True)]
        for al in ("*", "2M"):
            # one edge per pair of segments: n->C, C->D, D->n (a cycle), A->B, B->C
            E = ["E\te1\t%s+\tC+\t10\t12$\t0\t2\t%s" % (n, al), "E\te2\tD+\t%s+\t4\t6$\t0\t2\t%s" % (n, al),
                 "E\te3\tA+\tB+\t6\t8$\t0\t2\t%s" % al, "E\te4\tB+\tC+\t6\t8$\t0\t2\t%s" % al,
                 "E\te6\tC+\tD+\t4\t6$\t0\t2\t%s" % al]
            X.append({"dir": "2to1", "lines": S + E[:1]})
            for items in ("%s+" % n, "%s+ e1+ C+" % n, "%s+ C+" % n, "C- e1- %s-" % n, "%s+ e1+ C+ e6+ D+ e2+ %s+" % (n, n),
                          "%s+ C+ D+" % n, "A+ e3+ B+ e4+ C+ e6+ D+ e2+ %s+" % n):
                X.append({"dir": "2to1", "lines": S + E + ["O\tp\t" + items]})
    # a segment whose sequence string is shorter / longer than its declared length: alone, under a dovetail at its
    # begin (accepted by gfapy at every level), under a dovetail at its declared end and as the contained segment of a
    # containment (`$` at slen: accepted at vlevel 0 only), in a group
    for seq in ("ACGTACGT", "ACGTTGCAACGTAC"):
        A = "S\tA\t12\t%s\txx:i:5" % seq
        B = seg2("B", 10, False)
        for vls, rest in (((1, 3, 0, 2), []),
                          ((1, 3, 0, 2), [B, "E\te1\tB+\tA+\t5\t10$\t0\t4\t3M1D1M"]),
                          ((3, 1, 0, 2), [B, "E\te1\tB+\tA+\t5\t10$\t0\t4\t3M1D1M", "O\tp\tB+ e1+ A+"]),
                          ((0, 0, 0, 0), [B, "E\te1\tA+\tB+\t8\t12$\t0\t4\t4M", "O\tp\tA+ e1+ B+"]),
                          ((0, 0, 0, 0), [B, "E\t*\tA-\tB+\t8\t12$\t6\t10$\t1M1I1D2M"]),
                          ((0, 0, 0, 0), [seg2("C", 20, True), "E\te1\tC+\tA+\t2\t14\t0\t12$\t12M"])):
            X.append({"dir": "2to1", "lines": [A] + rest, "vlevels": vls})
    X.append({"dir": "1to2", "lines": ["H\tVN:Z:1.0\txx:i:1", seg1("A", 5, True), "# comment"]})
    X.append({"dir": "2to1", "lines": ["H\tVN:Z:2.0\tTS:i:5", seg2("A", 5, True), "# comment"]})
    # GFA1 links and containments whose CIGAR uses an operation that GFA2 does not have (= X N S H): alone, next to a
    # link that GFA2 can hold, under a path (forward, backward, `*` overlaps), named and unnamed.  Half of them are read
    # at vlevel 0 first (there the object conversion does not re-parse what it wrote)
    for ci, c in enumerate(LINK_CIGS_GFA1_ONLY):
        for oi, (oa, ob) in enumerate((("+", "+"), ("+", "-"), ("-", "+"), ("-", "-"))):
            if (ci + oi) % 2:
                continue
            named = (ci + oi) % 4 == 0
            L = [seg1("A", 9, ci % 2 == 0), seg1("B", 8, ci % 3 == 0, "\txx:i:5"), seg1("C", 7, True),
                 "L\tA\t%s\tB\t%s\t%s%s" % (oa, ob, c, "\tID:Z:lk1\tab:Z:t" if named else "")]
            shape = (ci + oi // 2) % 4
            if shape >= 1:
                L.append("L\tB\t%s\tC\t+\t2M1D\tID:Z:ok1" % ob)
            if shape == 2:
                L.append("P\tp\tA%s,B%s,C+\t%s,2M1D" % (oa, ob, c))
            elif shape == 3:
                L.append("P\tp\tA%s,B%s\t*" % (oa, ob))
                L.append("P\tq\tB%s,C+\t2M1D" % ob)
            X.append({"dir": "1to2", "lines": L, "vlevels": (0, 3, 1, 2) if ci % 2 == 0 else (1, 3, 0, 2)})
    for ci, c in enumerate(CONT_CIGS_GFA1_ONLY):
        oa, ob = ("+", "+-"[ci % 2])
        r = reflen(ops_of(c))
        L = [seg1("A", 11, ci % 2 == 0), seg1("B", 5, True), seg1("C", 7, False),
             "C\tA\t%s\tB\t%s\t%d\t%s%s" % (oa, ob, (0, 2, 11 - r)[ci % 3], c, "\tID:Z:c1" if ci % 2 else "")]
        if ci % 3 == 0:
            L.append("L\tA\t+\tC\t+\t1M1I2M")
        X.append({"dir": "1to2", "lines": L, "vlevels": (0, 2, 1, 3) if ci % 2 else (3, 0, 1, 2)})
    return X


EX = _ex()


def n_exhaustive(tier):
    return len(EX) * (2 if tier != "thorough" else 4)


def exhaustive_case(i, tier):
    k = 2 if tier != "thorough" else 4
    c = dict(EX[i // k])
    c["vlevel"] = c.pop("vlevels", [1, 3, 0, 2])[i % k]
    return c


def budget(tier):
    return 2000 if tier == "quick" else 80000


def rnd_tags(rng):
    return rng.pick(["", "", "\txx:i:5", "\tab:Z:a b\tj1:J:[1, 2]", "\tnb:B:c,-1,2"])


def gen_gfa1(rng, names=NAMES):
    segs = rng.sample(names, rng.pick([2, 3, 4]))
    lens = {s: rng.pick([6, 8, 10, 12]) for s in segs}
    L = ["H\tVN:Z:1.0"] if rng.chance(0.3) else []
    for s in segs:
        L.append(seg1(s, lens[s], rng.chance(0.5), rnd_tags(rng)))
    links = []
    seen = set()
    nid = 0
    for _ in range(rng.pick([1, 2, 3, 4])):
        a, b = rng.pick(segs), rng.pick(segs)
        oa, ob = rng.pick("+-"), rng.pick("+-")
        c = rng.pick(CIGS) if rng.chance(0.8) else "".join("%d%s" % (rng.pick([1, 2, 3]), k) for k in ["M"] + [rng.pick("MIDP") for _ in range(rng.pick([0, 1, 2]))])
        ops = ops_of(c)
        if reflen(ops) >= lens[a] or qlen(ops) >= lens[b] or reflen(ops) == 0 or qlen(ops) == 0:
            continue
        key = min((a, oa, b, ob), (b, INV[ob], a, INV[oa]))
        if key in seen and rng.chance(0.7):
            continue          # some parallel links are kept on purpose
        seen.add(key)
        nid += 1
        named = rng.chance(0.4)
        links.append((a, oa, b, ob, c))
        L.append("L\t%s\t%s\t%s\t%s\t%s%s%s" % (a, oa, b, ob, c, "\tID:Z:k%d" % nid if named else "", rnd_tags(rng)))
    if rng.chance(0.4) and len(segs) >= 2:
        a, b = rng.sample(segs, 2)
        if lens[b] < lens[a]:
            c = cont_cigar(lens[b] if lens[b] <= 6 else 4, rng.randrange(4))
            # the contained segment's length must equal the query length
            qb = qlen(ops_of(c))
            if qb == lens[b]:
                r = reflen(ops_of(c))
                if r <= lens[a]:
                    pos = rng.pick([0, (lens[a] - r) // 2, lens[a] - r])
                    L.append("C\t%s\t%s\t%s\t%s\t%d\t%s%s" % (a, rng.pick("+++-"), b, rng.pick("+-"), pos, c, "\tID:Z:cc" if rng.chance(0.5) else ""))
    # paths: walk the links in either direction
    if links and rng.chance(0.8):
        for pi in range(rng.pick([1, 1, 2])):
            steps = []
            cur = None
            for _ in range(rng.pick([1, 2, 3])):
                cands = []
                for (a, oa, b, ob, c) in links:
                    for (x, ox, y, oy, cc) in ((a, oa, b, ob, c), (b, INV[ob], a, INV[oa], "".join("%d%s" % o for o in reversed(swap_id(ops_of(c)))))):
                        if cur is None or (x, ox) == cur:
                            cands.append((x, ox, y, oy, cc))
                if not cands:
                    break
                st = rng.pick(cands)
                steps.append(st)
                cur = (st[2], st[3])
            if steps:
                seglist = [(steps[0][0], steps[0][1])] + [(s[2], s[3]) for s in steps]
                ovs = [s[4] for s in steps]
                if seglist[0] == seglist[-1] and len(seglist) > 2 and rng.chance(0.7):
                    seglist = seglist[:-1]            # circular spelling: as many overlaps as segments
                L.append("P\tp%d\t%s\t%s%s" % (pi, ",".join(a + o for a, o in seglist), rng.pick(["*", ",".join(ovs), ",".join(ovs)])
                                              if len(ovs) == len(seglist) - 1 else ",".join(ovs), rnd_tags(rng)))
    if rng.chance(0.2):
        L.append("P\tq\t%s+\t*" % segs[0])
    if rng.chance(0.2):
        L.append("# comment")
    return L


def gen_gfa2(rng, names=NAMES):
    segs = rng.sample(names, rng.pick([2, 3, 4]))
    lens = {s: rng.pick([6, 8, 10, 12]) for s in segs}
    L = ["H\tVN:Z:2.0"] if rng.chance(0.3) else []
    for s in segs:
        L.append(seg2(s, lens[s], rng.chance(0.5), rnd_tags(rng)))
    doves = []
    nondoves = []
    used = set()
    for i in range(rng.pick([1, 2, 3, 4])):
        a, b = rng.pick(segs), rng.pick(segs)
        if frozenset((a, b)) in used:
            continue          # GFA1 cannot hold two links between the same segment ends: parallel edges are not generated
        used.add(frozenset((a, b)))
        o1, o2 = rng.pick("+-"), rng.pick("+-")
        kind = rng.pick(["dove", "dove", "dove", "cont2", "cont1", "int"])
        al = rng.pick(CIGS + ["*", "2,3"])
        ops = ops_of(al) if re.match(r"([0-9]+[MIDP])+\Z", al) else [(2, "M")]
        r, q = reflen(ops), qlen(ops)
        if r == 0 or q == 0 or r >= lens[a] - 1 or q >= lens[b] - 1:
            continue
        order = rng.pick([0, 1])

        def iv(n, o, k, suffix):
            at_end = (suffix and o == "+") or (not suffix and o == "-")
            return (n - k, n) if at_end else (0, k)
        if kind == "dove":
            i1, i2 = iv(lens[a], o1, r, order == 0), iv(lens[b], o2, q, order == 1)
        elif kind == "cont2":
            if a == b:
                continue
            al = cont_cigar(lens[b], rng.randrange(4)) if lens[b] <= 8 else "*"
            r = reflen(ops_of(al)) if al != "*" else 3
            if r + 1 > lens[a]:
                continue
            i1, i2 = (1, 1 + r), (0, lens[b])
        elif kind == "cont1":
            if a == b:
                continue
            i1, i2 = (0, lens[a]), (1, 1 + q)
            if al not in ("*", "2,3"):
                al = "*"
        else:
            i1, i2 = (1, 1 + r), (1, 1 + q)
        named = rng.chance(0.6)
        nm = "e%d" % i if named else "*"
        if named and kind == "dove" and al not in ("2,3",):
            doves.append((nm, a, o1, b, o2, order))
        if named and kind != "dove":
            nondoves.append(["E", nm, a + o1, b + o2])
        L.append("E\t%s\t%s%s\t%s%s\t%s\t%s\t%s\t%s\t%s%s" % (nm, a, o1, b, o2, pos2(i1[0], lens[a]), pos2(i1[1], lens[a]), pos2(i2[0], lens[b]),
                                                          pos2(i2[1], lens[b]), al, rnd_tags(rng)))
    conts = [f for f in nondoves if f[2][:-1] != f[3][:-1]]
    if conts and rng.chance(0.35):
        # an ordered group over an edge that is not a dovetail: no GFA1 path can stand for it
        f = rng.pick(conts)
        L.append("O\tpc\t%s %s+ %s" % (f[2], f[1], f[3]) + rnd_tags(rng))
    if doves and rng.chance(0.7):
        nm, a, o1, b, o2, order = rng.pick(doves)
        if order == 0:
            items = rng.pick(["%s%s %s+ %s%s" % (a, o1, nm, b, o2), "%s%s %s- %s%s" % (b, INV[o2], nm, a, INV[o1])])
        else:
            items = rng.pick(["%s%s %s+ %s%s" % (b, o2, nm, a, o1), "%s%s %s- %s%s" % (a, INV[o1], nm, b, INV[o2])] +
                             (["%s%s %s%s" % (b, o2, a, o1)] if a != b else []))
        L.append("O\tp1\t" + items + rnd_tags(rng))
    if rng.chance(0.2):
        L.append("O\tq\t%s+" % segs[0])
    if rng.chance(0.3):
        L.append("G\t%s\t%s+\t%s-\t7\t*" % (rng.pick(["g1", "*"]), segs[0], segs[1]))
    if rng.chance(0.3):
        L.append("F\t%s\tread%s\t0\t%d$\t0\t3\t*" % (segs[0], rng.pick("+-"), lens[segs[0]]))
    if rng.chance(0.3):
        L.append("U\tu1\t%s %s" % (segs[0], segs[1]))
    if rng.chance(0.15):
        L.append("X\tcustom\trecord")
    return L


def gen_case(rng, tier, i):
    k = rng.random()
    if k < 0.55:
        if k < 0.5:
            c = {"dir": "1to2", "lines": gen_gfa1(rng), "vlevel": rng.pick([0, 1, 1, 2, 3])}
        else:
            c = {"dir": "1to2", "lines": gen_gfa1(rng, NAMES + ODD_NAMES), "vlevel": rng.pick([0, 1, 1, 2, 3])}
        # a sixth of the GFA1 graphs: one link or containment gets a CIGAR with an operation GFA2 does not have
        # (drawn after everything else: the other cases are the ones generated before)
        if rng.chance(0.17):
            gfa1_only_one(rng, c)
        return c
    if k < 0.85:
        c = {"dir": "2to1", "lines": gen_gfa2(rng), "vlevel": rng.pick([0, 1, 1, 2, 3])}
    else:
        # GFA2 graphs some of whose segment names are unusual or have no GFA1 spelling
        c = {"dir": "2to1", "lines": gen_gfa2(rng, name_pool(rng)), "vlevel": rng.pick([0, 1, 1, 2, 3])}
    # a fifth of the GFA2 graphs: one segment gets a sequence string that is shorter or longer than its declared length
    # (drawn after everything else: the other cases are the ones generated before)
    if rng.chance(0.2):
        mismatch_one(rng, c)
    return c


def cig_str(ops):
    return "".join("%d%s" % o for o in ops)


def revcomp_cig(ops):
    """the same alignment written for the complement link (read backwards, roles swapped)"""
    return list(reversed(swap_id(ops)))


def has_gfa1_only(cig):
    return any(k in GFA1_ONLY_OPS for _, k in ops_of(cig))


def gfa1_only_one(rng, case):
    """rewrite the CIGAR of one link or containment of a GFA1 case so that it uses an operation which only GFA1 has.
    M becomes = / X (all of them, or split into a match and a mismatch part), an H is inserted, and - for containments and
    for links that no path walks - I becomes S, D becomes N or the last base of a final M becomes a soft clip.  The
    query length is kept and the reference length is kept or shortened (never to zero), so segments, positions and
    the other lines stay what they were.  Path steps over the link that spell its overlap out are re-spelled (forward:
    the new CIGAR, backward: the new CIGAR read backwards with I and D exchanged), so the path still names this link."""
    L = case["lines"]
    cand = [j for j, l in enumerate(L) if l.split("\t")[0] in ("L", "C") and l.split("\t")[{"L": 5, "C": 6}[l.split("\t")[0]]] != "*"]
    if not cand:
        return
    conts = [j for j in cand if L[j].startswith("C\t")]
    j = rng.pick(conts) if conts and rng.chance(0.5) else rng.pick(cand)
    f = L[j].split("\t")
    ci = 5 if f[0] == "L" else 6
    old = ops_of(f[ci])
    a, oa, b, ob = f[1], f[2], f[3], f[4]
    # the path steps over this link: (line index, step index, forward?)
    steps = []
    for pj, l in enumerate(L):
        g = l.split("\t")
        if g[0] != "P" or f[0] != "L":
            continue
        segs = [(e[:-1], e[-1]) for e in g[2].split(",")]
        ov = g[3].split(",")
        closed = ov != ["*"] and len(ov) == len(segs)
        for k, (x, y) in enumerate(list(zip(segs, segs[1:])) + ([(segs[-1], segs[0])] if closed else [])):
            # (a hairpin `L A + A -` is spelled like its own complement: a step over it may use either reading)
            if (x[0], x[1], y[0], y[1]) == (a, oa, b, ob):
                steps.append((pj, k, True))
            if (x[0], x[1], y[0], y[1]) == (b, INV[ob], a, INV[oa]):
                steps.append((pj, k, False))
    modes = ["eq", "x", "mix", "H"]
    if not steps:
        modes += ["S", "N", "clip"]
    mode = rng.pick(modes)
    new = [tuple(o) for o in old]
    if mode in ("eq", "x"):
        new = [(n, {"eq": "=", "x": "X"}[mode]) if k == "M" else (n, k) for n, k in new]
    elif mode == "mix":
        out = []
        for n, k in new:
            if k == "M" and n >= 2:
                out += [(n - 1, "="), (1, "X")]
            elif k == "M":
                out.append((n, "="))
            else:
                out.append((n, k))
        new = out
    elif mode == "H":
        new.insert(rng.pick([0, len(new), rng.randrange(len(new) + 1)]), (rng.pick([1, 2]), "H"))
    elif mode == "S" and any(k == "I" for _, k in new):
        new = [(n, "S") if k == "I" else (n, k) for n, k in new]
    elif mode == "N" and any(k == "D" for _, k in new):
        new = [(n, "N") if k == "D" else (n, k) for n, k in new]
    else:
        # soft clip at the end (or, instead, at the begin) of the query: one base of the last / first M
        at = [i for i, (n, k) in enumerate(new) if k == "M"]
        if not at:
            return
        i = at[-1] if rng.chance(0.6) else at[0]
        n = new[i][0]
        head = rng.chance(0.5)
        piece = ([(1, "S")] if head else []) + ([(n - 1, "M")] if n > 1 else []) + ([] if head else [(1, "S")])
        new = new[:i] + piece + new[i + 1:]
        if reflen(new) == 0:
            new = [(n, "=") if k == "M" else (n, k) for n, k in [tuple(o) for o in old]]
    if not has_gfa1_only(cig_str(new)):
        new = [(n, "=") if k == "M" else (n, k) for n, k in new]
    if not has_gfa1_only(cig_str(new)) or qlen(new) != qlen(old) or not (0 < reflen(new) <= reflen(old)):
        return
    f[ci] = cig_str(new)
    L[j] = "\t".join(f)
    done = set()
    for pj, k, fwd in steps:
        g = L[pj].split("\t")
        ov = g[3].split(",")
        if ov == ["*"] or k >= len(ov) or (pj, k) in done:
            continue
        if ov[k] == cig_str(old if fwd else revcomp_cig(old)):
            ov[k] = cig_str(new if fwd else revcomp_cig(new))
            g[3] = ",".join(ov)
            L[pj] = "\t".join(g)
            done.add((pj, k))


def mismatch_one(rng, case):
    """give one segment of a GFA2 case a sequence string whose length is not slen.  slen and every position stay as they
    are.  gfapy wants the `$` of a position at the end of the *string* (validate_positions), so at vlevel >= 1 a segment
    is preferred on which no position carries a `$`; if there is none the document is parsed at vlevel 0"""
    L = case["lines"]
    cand = [j for j, l in enumerate(L) if l.startswith("S\t") and M.name1_ok(l.split("\t")[1])] or \
           [j for j, l in enumerate(L) if l.startswith("S\t")]
    if not cand:
        return

    def dollar_on(name):
        for l in L:
            f = l.split("\t")
            if f[0] == "E" and ((f[2][:-1] == name and "$" in f[4] + f[5]) or (f[3][:-1] == name and "$" in f[6] + f[7])):
                return True
            if f[0] == "F" and f[1] == name and "$" in f[3] + f[4]:
                return True
        return False
    free = [j for j in cand if not dollar_on(L[j].split("\t")[1])]
    if case["vlevel"] >= 1 and not free and rng.chance(0.8):
        case["vlevel"] = 0
    j = rng.pick(free if (free and (case["vlevel"] >= 1 or rng.chance(0.3))) else cand)
    f = L[j].split("\t")
    n = int(f[2])
    m = rng.pick([x for x in (n - 4, n - 2, n - 1, n + 1, n + 2, n + 5) if x >= 1])
    f[3] = ("ACGTTGCAACGT" * 3)[:m]
    L[j] = "\t".join(f)


def asym(c):
    if not re.match(r"([0-9]+[MIDP])+\Z", c):
        return False
    ops = ops_of(c)
    return list(reversed(swap_id(ops))) != ops


def nontrivial(case):
    for l in case["lines"]:
        f = l.split("\t")
        if f[0] in ("P", "O"):
            return True
        if f[0] == "L" and asym(f[5]):
            return True
        if f[0] == "C" and asym(f[6]):
            return True
        if case["dir"] == "1to2" and ((f[0] == "L" and has_gfa1_only(f[5])) or (f[0] == "C" and has_gfa1_only(f[6]))):
            return True
        if f[0] == "E" and asym(f[8]):
            return True
        if f[0] == "S" and case["dir"] == "2to1" and not M.name1_ok(f[1]):
            return True
        if f[0] == "S" and case["dir"] == "2to1" and f[3] != "*" and len(f[3]) != int(f[2]):
            return True
    return False


def tags(case):
    t = [case["dir"], "v%d" % case.get("vlevel", 1)]
    rts = sorted({l.split("\t")[0] for l in case["lines"]})
    t += ["rt:" + r for r in rts if not r.startswith("#")]
    for l in case["lines"]:
        f = l.split("\t")
        if f[0] == "L":
            t.append("L:" + f[2] + f[4] + (":self" if f[1] == f[3] else "") + (":named" if "ID:Z:" in l else ""))
        if f[0] in ("L", "C") and case["dir"] == "1to2" and has_gfa1_only(f[5 if f[0] == "L" else 6]):
            t.append(f[0] + ":gfa1-only-cigar")
            t += ["cigar-op:" + k for _, k in ops_of(f[5 if f[0] == "L" else 6]) if k in GFA1_ONLY_OPS]
        if f[0] == "P":
            n, k = len(f[2].split(",")), (0 if f[3] == "*" else len(f[3].split(",")))
            t.append("P:" + ("one" if n == 1 and k == 0 else "circular" if n == k else "linear"))
        if f[0] == "S" and f[1] not in NAMES:
            t.append("name:" + ("odd" if M.name1_ok(f[1]) else "no-gfa1"))
        if f[0] == "S" and case["dir"] == "2to1" and f[3] != "*" and len(f[3]) != int(f[2]):
            t.append("S:seq-shorter-than-slen" if len(f[3]) < int(f[2]) else "S:seq-longer-than-slen")
    if case["dir"] == "2to1":
        bad = unnameable(parse2(case["lines"]))
        if bad["O"]:
            t.append("O:over-no-gfa1-name")
    return sorted(set(t))


def signature(case, failure):
    return failure.split(": ")[0]


# ---------------------------------------------------------------------------------------------------- comparisons
def skip_link(l, lens):
    ops = ops_of(l["cig"])
    return l["cig"] == "*" or lens.get(l["a"]) is None or lens.get(l["b"]) is None or reflen(ops) >= lens[l["a"]] or qlen(ops) >= lens[l["b"]] \
        or reflen(ops) == 0 or qlen(ops) == 0 or any(k not in "MIDP" for _, k in ops)


def describe_edge_diff(want, have_list):
    """which part of the edge differs from the closest converted one"""
    (wa, wb, wz) = want
    best = None
    for h in have_list:
        (ha, hb, hz) = h
        same_pair = sorted([(wa[0], wb[0])]) == sorted([(ha[0], hb[0])]) or {wa[0], wb[0]} == {ha[0], hb[0]}
        if not same_pair:
            continue
        if (wa, wb) == (ha, hb):
            return "alignment", h
        if (wa[:2], wb[:2]) == (ha[:2], hb[:2]):
            best = best or ("intervals", h)
        else:
            best = best or ("orientation-or-roles", h)
    return best or ("missing", None)


def check_dollars(F, D2, tag):
    lens = {n: s["len"] for n, s in D2["S"].items()}
    for e in D2["E"]:
        for sname, ps in ((e["s1"], e["pos"][:2]), (e["s2"], e["pos"][2:])):
            if sname not in lens:
                continue
            for p in ps:
                v = int(p.rstrip("$"))
                if p.endswith("$") != (v == lens[sname]):
                    F.append("dollar-wrong%s: %r on segment %s of length %d in %r" % (tag, p, sname, lens[sname], e["text"]))
                if v > lens[sname]:
                    F.append("position-beyond-segment%s: %r on segment %s of length %d in %r" % (tag, p, sname, lens[sname], e["text"]))


def check_valid(F, text, version, how):
    gfapy = lib.import_gfapy()
    try:
        g = gfapy.Gfa(text, vlevel=3, version=version)
        g.validate()
        for l in g.lines:
            l.validate()
    except gfapy.Error as e:
        F.append("converted-invalid: %s is refused by gfapy.Gfa(vlevel=3): %s: %r" % (how, e.__class__.__name__, text))
        return None
    except Exception as e:
        F.append("foreign-exception: re-parsing %s raised %s@%s: %r" % (how, e.__class__.__name__, M.innermost_gfapy_frame(e), text))
        return None
    lines = [l for l in text.split("\n")]
    v, rule = M.doc_verdict(lines, version) if all(lines) else (None, "empty")
    if v is False:
        F.append("converted-invalid-grammar[%s]: %s breaks the grammar: %r" % (rule, how, text))
    return g


def compare_segments(F, S_src, S_dst, how):
    for n, s in S_src.items():
        if n not in S_dst:
            F.append("segment-lost: %s: %s" % (how, n))
            continue
        d = S_dst[n]
        if s["len"] != d["len"]:
            F.append("segment-length-changed: %s: %s %r -> %r" % (how, n, s["len"], d["len"]))
        if s["seq"] != d["seq"]:
            F.append("segment-sequence-changed: %s: %s %r -> %r" % (how, n, s["seq"], d["seq"]))
        if s["tags"] != d["tags"]:
            F.append("tags-changed: %s: segment %s %r -> %r" % (how, n, s["tags"], d["tags"]))
    for n in S_dst:
        if n not in S_src:
            F.append("segment-invented: %s: %s" % (how, n))


def edges_of_gfa1(D, lens):
    """-> list of (canonical edge, id, tags, record type, skip?)"""
    out = []
    inv = {"+": "-", "-": "+"}
    seen = {}
    for l in D["L"]:
        if skip_link(l, lens):
            out.append((None, l["id"], l["tags"], "L", True))
        else:
            ce = canon_edge(*link_edge(l["a"], l["oa"], l["b"], l["ob"], l["cig"], lens))
            d = (l["a"], l["oa"], l["b"], l["ob"])
            compl = (d[2], inv[d[3]], d[0], inv[d[1]])
            # (a hairpin is spelled like its own complement: a second identical hairpin line is dropped too)
            if seen.get(ce) == compl and (seen.get(ce) != d or compl == d):
                # the complement of a link already in the document IS that link (Link._process_not_unique):
                # the library keeps the first spelling and drops this line
                continue
            seen.setdefault(ce, d)
            out.append((ce, l["id"], l["tags"], "L", False))
    for c in D["C"]:
        if c["cig"] == "*" or lens.get(c["a"]) is None or lens.get(c["b"]) is None or any(k not in "MIDP" for _, k in ops_of(c["cig"])):
            out.append((None, c["id"], c["tags"], "C", True))
        else:
            out.append((canon_edge(*cont_edge(c["a"], c["oa"], c["b"], c["ob"], c["pos"], c["cig"], lens)), c["id"], c["tags"],
                        "C-" if c["oa"] == "-" else "C", False))
    return out


def roles_swapped(ce_source_text):
    return ""


def compare_edges(F, want, have, how, swapped=None):
    """want/have: lists of (canonical edge, id, tags, kind).  Multiset comparison, ids compared when the source has one."""
    have_left = list(have)
    for (ce, i, tg, kind) in want:
        m = [h for h in have_left if h[0] == ce and (i is None or h[1] == i)]
        sfx = "[C-]" if kind == "C-" else ""
        if m:
            h = m[0]
            have_left.remove(h)
            if h[2] != tg:
                F.append("tags-changed: %s: edge %s tags %r -> %r" % (how, i, tg, h[2]))
            continue
        byid = [h for h in have_left if i is not None and h[1] == i]
        what, close = describe_edge_diff(ce, [h[0] for h in (byid or have_left)])
        if close is not None:
            for h in have_left:
                if h[0] == close:
                    have_left.remove(h)
                    break
        if swapped and ce in swapped:
            sfx += "[roles-swapped]"
        F.append("edge-%s%s: %s: source edge %s %r became %r" % (what, sfx, how, i or "(unnamed)", ce, close))
    for h in have_left:
        F.append("edge-invented: %s: %r (id %s) has no source" % (how, h[0], h[1]))


def compare_walks(F, w_src, w_dst, how, name):
    (s1, e1), (s2, e2) = w_src, w_dst
    if s1 != s2:
        # a closed walk may be written from any... no: same start is expected; compare literally
        F.append("path-segments-changed: %s: path %s %r -> %r" % (how, name, s1, s2))
        return
    for k, (a, b) in enumerate(zip(e1, e2)):
        if a in (None, "ambiguous") or b in (None, "ambiguous"):
            continue
        if a != b:
            F.append("path-edge-changed: %s: path %s step %d uses %r, source uses %r" % (how, name, k, b, a))
    if len(e1) != len(e2):
        F.append("path-edges-changed: %s: path %s has %d edges, source %d" % (how, name, len(e2), len(e1)))


# ---------------------------------------------------------------------------------------------------- oracle
def conv(F, label, fn):
    gfapy = lib.import_gfapy()
    try:
        return "ok", fn()
    except gfapy.Error as e:
        return "gerr", e.__class__.__name__
    except Exception as e:
        F.append("foreign-exception: %s raised %s@%s: %s" % (label, e.__class__.__name__, M.innermost_gfapy_frame(e), str(e)[:100].replace("\n", " ")))
        return "foreign", None


def oracle(case):
    gfapy = lib.import_gfapy()
    F = []
    v = case.get("vlevel", 1)
    src = case["lines"]
    d = case["dir"]
    sv, tv = ("gfa1", "gfa2") if d == "1to2" else ("gfa2", "gfa1")

    def fresh():
        g = gfapy.Gfa(vlevel=v, version=sv)
        for l in src:
            g.add_line(l)
        return g
    try:
        g = fresh()
        if v >= 1:
            g.validate()
    except gfapy.Error:
        return []          # generator made something the library refuses: not this property's business
    except Exception as e:
        return ["foreign-exception: building the source raised %s@%s: %r" % (e.__class__.__name__, M.innermost_gfapy_frame(e), src)]
    Dsrc = parse1(src) if d == "1to2" else parse2(src)
    lens = {n: s["len"] for n, s in Dsrc["S"].items()}
    pairs = [frozenset((e["s1"], e["s2"])) for e in Dsrc["E"]] if d == "2to1" else []
    parallel = len(set(pairs)) != len(pairs)
    bad = unnameable(Dsrc) if d == "2to1" else {"S": set(), "E": set(), "O": set()}
    # segments whose declared length is not the length of their sequence string: no GFA1 segment stands for them
    mism = (mismatched(Dsrc) - bad["S"]) if d == "2to1" else set()
    # GFA1 links / containments whose CIGAR uses an operation GFA2 does not have: no E line stands for them
    only1 = gfa1_only_edges(Dsrc) if d == "1to2" else []
    has_orphans = bool(only1) or \
        (d == "2to1" and (parallel or Dsrc["F"] or Dsrc["G"] or Dsrc["U"] or Dsrc["other"] or bad["S"] or bad["O"] or mism or
                          any(e_kind(e, lens) == "I" or isinstance(aln_of(e["aln"]), tuple) for e in Dsrc["E"])))
    if parallel:
        return []          # two GFA2 edges between the same pair of segments: GFA1 has one link per pair of ends -- not judged
    texts = []
    for how, fn in (("to_%s_s()" % tv, lambda: getattr(fresh(), "to_%s_s" % tv)()), ("str(to_%s())" % tv, lambda: str(getattr(fresh(), "to_" + tv)()))):
        st, T = conv(F, "Gfa." + how, fn)
        if st == "gerr":
            if not has_orphans:
                F.append("conversion-raises: Gfa.%s raised %s on %r" % (how, T, src))
        elif st == "ok":
            texts.append((how, T))
    for how, T in texts:
        tl = [l for l in T.split("\n") if l != ""]
        if bad["S"] or bad["O"] or mism:
            # what has no GFA1 spelling must be absent; the rest is compared as usual
            Dcmp, tl_rest, nbad = Dsrc, tl, 0
            if bad["S"] or bad["O"]:
                tl_rest, nbad = check_unnameable_absent(F, Dsrc, bad, tl, how)
                Dcmp = without_unnameable(Dsrc, bad)
            if mism:
                # a segment whose declared length is not the length of its sequence: if it is written, it is compared
                # like any other (the length and the sequence must be the source's) and reported as translated; if it
                # is dropped, its edges and the groups over them are expected to be dropped with it
                written = {ln.split("\t")[1] for ln in tl_rest if ln.startswith("S\t") and len(ln.split("\t")) > 1} & mism
                for n in sorted(written):
                    nbad += 1
                    F.append("slen-mismatch-translated[Gfa:S]: %s writes %r for %r: the declared length %d is not the length %d "
                             "of the sequence, no GFA1 segment stands for it (dropped or refused)"
                             % (how, [ln for ln in tl_rest if ln.split("\t")[:2] == ["S", n]][0], src_line(src, "S", n),
                                Dsrc["S"][n]["len"], len(Dsrc["S"][n]["seq"])))
                if mism - written:
                    Dcmp = without_unnameable(Dcmp, dependents(Dcmp, mism - written))
            if nbad == 0:
                check_valid(F, "\n".join(tl), tv, how)
            check_2to1(F, Dcmp, lens, tl_rest, how)
            continue
        if only1:
            # the edge is refused (the conversion raises: accepted above) or dropped; an E line that carries a CIGAR
            # with a GFA1-only operation is the link written out unchecked.  Such a text is not offered to the validity
            # check again (it is already reported); the rest is compared with the source as usual (check_1to2 leaves out
            # the links it cannot express, and the paths over them)
            if check_gfa1_only_absent(F, only1, tl, how) == 0:
                check_valid(F, "\n".join(tl), tv, how)
            check_1to2(F, Dsrc, lens, tl, how)
            continue
        check_valid(F, "\n".join(tl), tv, how)
        if d == "1to2":
            check_1to2(F, Dsrc, lens, tl, how)
        else:
            check_2to1(F, Dsrc, lens, tl, how)
    # ---- there and back
    back_ok = (d == "1to2" and not only1) or (d == "2to1" and not (has_orphans or any(aln_of(e["aln"]) is None for e in Dsrc["E"])))
    if texts and back_ok:
        how, T = texts[0]
        tl = [l for l in T.split("\n") if l != ""]
        try:
            g2 = gfapy.Gfa(tl, vlevel=v, version=tv)
            st, B = conv(F, "back conversion", lambda: getattr(g2, "to_%s_s" % sv)())
            if st == "gerr":
                F.append("back-conversion-raises: %s then to_%s_s(): %s on %r" % (how, sv, B, T))
            elif st == "ok":
                bl = [l for l in B.split("\n") if l != ""]
                check_valid(F, "\n".join(bl), sv, "there-and-back")
                if d == "1to2":
                    check_same_gfa1(F, Dsrc, lens, parse1(bl), "there-and-back")
                else:
                    check_same_gfa2(F, Dsrc, lens, parse2(bl), "there-and-back")
        except gfapy.Error:
            pass       # reported by check_valid already
        except Exception as e:
            F.append("foreign-exception: there-and-back raised %s@%s" % (e.__class__.__name__, M.innermost_gfapy_frame(e)))
    # ---- line level: refused, never mistranslated
    if d == "1to2" and only1:
        g = fresh()
        for l in list(g.lines):
            rt = l.record_type
            if rt not in ("L", "C") or getattr(l, "virtual", False):
                continue
            txt = str(l)
            f = txt.split("\t")
            if len(f) <= (5 if rt == "L" else 6) or not has_gfa1_only(f[5 if rt == "L" else 6]):
                continue
            for m in ("to_gfa2", "to_gfa2_s"):
                st, r = conv(F, "%s-line.%s()" % (rt, m), getattr(l, m))
                if st == "ok" and str(r) != "":
                    F.append("gfa1-only-cigar-translated[%s]: %s() of %r gives %r instead of an error (the overlap %s uses %s: GFA2 "
                             "alignments have M, I, D, P only, no E line stands for this %s)"
                             % (rt, m, txt, str(r), f[5 if rt == "L" else 6],
                                ", ".join(sorted({k for _, k in ops_of(f[5 if rt == "L" else 6]) if k in GFA1_ONLY_OPS})),
                                "link" if rt == "L" else "containment"))
    if d == "2to1":
        g = fresh()
        for l in list(g.lines):
            rt = l.record_type
            orphan = rt in ("F", "G", "U") or (rt not in "HSEOU#" and rt != "\n")
            if rt == "E":
                e = [x for x in Dsrc["E"] if x["text"] == str(l)]
                if e and e_kind(e[0], lens) == "I":
                    orphan = True
            # a segment whose name has no GFA1 spelling, an edge of such a segment, an ordered group that visits one
            f = str(l).split("\t")
            noname = (rt == "S" and f[1] in bad["S"]) or (rt == "E" and (f[2][:-1] in bad["S"] or f[3][:-1] in bad["S"])) or \
                     (rt == "O" and group_is_unnameable(f[2].split(" "), bad))
            if rt == "O" and f[1] in bad["O"] and not noname:
                orphan = True       # a group over an edge that is not a dovetail: no GFA1 path stands for it
            if rt == "S" and f[1] in mism:
                # refused, or at least never written with another length or sequence
                for m in ("to_gfa1", "to_gfa1_s"):
                    st, r = conv(F, "S-line.%s()" % m, getattr(l, m))
                    if st == "ok" and str(r) != "":
                        got = parse1([str(r)])["S"] if str(r).split("\t")[0] == "S" and len(str(r).split("\t")) > 2 else {}
                        compare_segments(F, {f[1]: Dsrc["S"][f[1]]}, got, "S-line.%s()" % m)
                        F.append("slen-mismatch-translated[S]: %s() of %r gives %r instead of an error (the declared length %d is "
                                 "not the length %d of the sequence: no GFA1 segment stands for it)"
                                 % (m, str(l), str(r), Dsrc["S"][f[1]]["len"], len(Dsrc["S"][f[1]]["seq"])))
                continue
            if not (orphan or noname):
                continue
            for m in ("to_gfa1", "to_gfa1_s"):
                st, r = conv(F, "%s-line.%s()" % (rt, m), getattr(l, m))
                if st == "ok" and str(r) != "":
                    if noname:
                        F.append("unnameable-translated[%s]: %s() of %r gives %r instead of an error (segment name%s %s: no GFA1 spelling)"
                                 % (rt, m, str(l), str(r), "s" if len(bad["S"]) > 1 else "", ", ".join(repr(x) for x in sorted(bad["S"]))))
                    else:
                        F.append("orphan-translated[%s]: %s() of %r gives %r instead of an error" % (rt, m, str(l), str(r)))
    seen = set(); out = []
    for f in F:
        s = signature(case, f)
        if s not in seen:
            seen.add(s); out.append(f)
    # the S and E conversions that write a name unchecked fire in every case with such a name (finding of the
    # unmodified tree): listed last, so that summaries by first failure show whatever else is wrong
    out.sort(key=lambda f: 1 if re.match(r"(unnameable-translated\[(Gfa:)?[SELC]\]|slen-mismatch-translated\[)", f) else 0)
    return out


def gfa1_only_edges(D1):
    """the links and containments of a GFA1 document whose CIGAR uses an operation that GFA2 does not have -> their texts"""
    out = []
    for l in D1["L"]:
        if l["cig"] != "*" and has_gfa1_only(l["cig"]):
            out.append("L\t%s\t%s\t%s\t%s\t%s" % (l["a"], l["oa"], l["b"], l["ob"], l["cig"]))
    for c in D1["C"]:
        if c["cig"] != "*" and has_gfa1_only(c["cig"]):
            out.append("C\t%s\t%s\t%s\t%s\t%d\t%s" % (c["a"], c["oa"], c["b"], c["ob"], c["pos"], c["cig"]))
    return out


def check_gfa1_only_absent(F, only1, tl, how):
    """whole-graph conversion of a GFA1 graph with links / containments whose CIGAR GFA2 cannot hold: no E line of the
    converted text carries a CIGAR with a GFA1-only operation -> number of offending lines"""
    n = 0
    for ln in tl:
        f = ln.split("\t")
        if f[0] == "E" and len(f) > 8 and re.match(r"([0-9]+[MIDNSHPX=])+\Z", f[8]) and has_gfa1_only(f[8]):
            n += 1
            F.append("gfa1-only-cigar-translated[Gfa:E]: %s writes %r: the alignment %s uses %s, which GFA2 does not have "
                     "(source edge%s without a GFA2 counterpart: %r - dropped or refused)"
                     % (how, ln, f[8], ", ".join(sorted({k for _, k in ops_of(f[8]) if k in GFA1_ONLY_OPS})),
                        "s" if len(only1) > 1 else "", only1))
    return n


def mismatched(D2):
    """names of the GFA2 segments whose sequence string has another length than the one they declare"""
    return {n for n, x in D2["S"].items() if x["seq"] != "*" and len(x["seq"]) != x["len"]}


def dependents(D2, names):
    """what goes when the segments `names` go: their edges, the ordered groups over them (shape of unnameable())"""
    dep = {"S": set(names), "E": {(e["id"] or e["text"]) for e in D2["E"] if e["s1"] in names or e["s2"] in names}, "O": set()}
    dep["O"] = {o["name"] for o in D2["O"] if group_is_unnameable(["%s%s" % it for it in o["items"]], dep)}
    return dep


def src_line(src, rt, name):
    return ([l for l in src if l.split("\t")[:2] == [rt, name]] or [None])[0]


def unnameable(D2):
    """what has no GFA1 counterpart because of a *name*: segments whose identifier is not a GFA1 segment name (it starts
    with `*` or `=`, or contains `+,` / `-,`), the edges of such segments, the ordered groups that visit one (directly or
    through such an edge) -> {"S": names, "E": edge ids / texts, "O": group names}"""
    bs = {n for n in D2["S"] if not M.name1_ok(n)}
    be = {(e["id"] or e["text"]) for e in D2["E"] if e["s1"] in bs or e["s2"] in bs}
    bad = {"S": bs, "E": be, "O": set()}
    bad["O"] = {o["name"] for o in D2["O"] if group_is_unnameable(["%s%s" % it for it in o["items"]], bad)}
    # a GFA1 path is a walk over links: an ordered group that names an edge which is not a dovetail (a containment, an
    # internal alignment) has no counterpart either - written as a P line it would require a link that does not exist
    lens = {n: x["len"] for n, x in D2["S"].items()}
    nondove = set()
    for e in D2["E"]:
        try:
            if e["id"] and e["s1"] in lens and e["s2"] in lens and e_kind(e, lens) != "L":
                nondove.add(e["id"])
        except Exception:
            pass
    bad["O"] |= {o["name"] for o in D2["O"] if any(it[0] in nondove for it in o["items"])}
    return bad


def group_is_unnameable(items, bad):
    return any(it[:-1] in bad["S"] or it[:-1] in bad["E"] for it in items)


def without_unnameable(D2, bad):
    R = dict(D2)
    R["S"] = {n: s for n, s in D2["S"].items() if n not in bad["S"]}
    R["E"] = [e for e in D2["E"] if (e["id"] or e["text"]) not in bad["E"]]
    R["O"] = [o for o in D2["O"] if o["name"] not in bad["O"]]
    return R


def check_unnameable_absent(F, D2, bad, tl, how):
    """whole-graph conversion of a GFA2 graph in which some segment names have no GFA1 spelling: the records that
    depend on such a name are dropped.  A GFA1 reader splits the segment list of a P line at its commas, so a path
    written for a group over `x+,y` would visit x and y: the group's name must not come out as a P line at all.
    -> (the converted lines without the offending ones, number of offending lines)"""
    rest, n = [], 0
    for ln in tl:
        f = ln.split("\t")
        hit = None
        if f[0] == "S" and len(f) > 1 and f[1] in bad["S"]:
            hit = "S"
        elif f[0] in ("L", "C") and any(x in bad["S"] for x in f[1:]):
            hit = f[0]        # any field: at vlevel 0 the whole S line can end up inside the from/to field
        elif f[0] == "P" and len(f) > 1 and f[1] in bad["O"]:
            hit = "P"
        if hit:
            n += 1
            src = ""
            if hit == "P":
                src = "; source group %r" % ["O\t%s\t%s" % (o["name"], " ".join(a + b for a, b in o["items"]))
                                             for o in D2["O"] if o["name"] == f[1]]
            F.append("unnameable-translated[Gfa:%s]: %s writes %r although %s no GFA1 spelling%s"
                     % (hit, how, ln, " and ".join(repr(x) for x in sorted(bad["S"])) + (" have" if len(bad["S"]) > 1 else " has"), src))
        else:
            rest.append(ln)
    return rest, n


def check_1to2(F, D1, lens, tl, how):
    D2 = parse2(tl)
    compare_segments(F, D1["S"], D2["S"], how)
    check_dollars(F, D2, "")
    want = [(ce, i, tg, k) for (ce, i, tg, k, skip) in edges_of_gfa1(D1, lens) if not skip]
    nskip = sum(1 for x in edges_of_gfa1(D1, lens) if x[4])
    have = [(canon_edge(*e_tuple(e)), e["id"], e["tags"], "E") for e in D2["E"]]
    if nskip == 0:
        compare_edges(F, want, have, how)
    else:
        compare_edges(F, want, [h for h in have if any(h[0] == w[0] for w in want)], how)
    for x in ("F", "G", "U", "other"):
        if D2[x]:
            F.append("record-invented: %s: %r" % (how, D2[x]))
    # paths
    idx = steps_index1(D1, lens)
    skipped = {(l["a"], l["b"]) for l in D1["L"] if skip_link(l, lens)} | {(l["b"], l["a"]) for l in D1["L"] if skip_link(l, lens)}
    byname = {o["name"]: o for o in D2["O"]}
    for p in D1["P"]:
        if any((a[0], b[0]) in skipped for a, b in zip(p["segs"], p["segs"][1:] + p["segs"][:1])):
            continue
        if p["name"] not in byname:
            F.append("path-lost: %s: %s" % (how, p["name"]))
            continue
        o = byname[p["name"]]
        s2, e2, bad = walk2(o, D2, {n: s["len"] for n, s in D2["S"].items()})
        compare_walks(F, walk1(p, idx, lens), (s2, e2), how, p["name"])
        for b in bad:
            F.append("path-edge-sign: %s: path %s lists %s" % (how, p["name"], b))
        if p["tags"] != o["tags"]:
            F.append("tags-changed: %s: path %s %r -> %r" % (how, p["name"], p["tags"], o["tags"]))
    for o in D2["O"]:
        if o["name"] not in {p["name"] for p in D1["P"]}:
            F.append("path-invented: %s: %s" % (how, o["name"]))
    check_header(F, D1["H"], D2["H"], "2.0", how)


def check_header(F, H1, H2, vn, how):
    t1 = sorted(t for h in H1 for t in h if not t.startswith("VN:"))
    t2 = sorted(t for h in H2 for t in h if not t.startswith("VN:"))
    if t1 != t2:
        F.append("tags-changed: %s: header %r -> %r" % (how, t1, t2))
    v1 = [t for h in H1 for t in h if t.startswith("VN:")]
    v2 = [t for h in H2 for t in h if t.startswith("VN:")]
    if v1 and v2 != ["VN:Z:" + vn]:
        F.append("header-version-wrong: %s: %r -> %r" % (how, v1, v2))
    if not v1 and v2 and v2 != ["VN:Z:" + vn]:
        F.append("header-version-wrong: %s: %r -> %r" % (how, v1, v2))


def check_2to1(F, D2, lens, tl, how):
    D1 = parse1(tl)
    # segments: slen -> LN
    compare_segments(F, D2["S"], D1["S"], how)
    want = []
    swapped = set()
    ntrace = 0
    for e in D2["E"]:
        k = e_kind(e, lens)
        al = aln_of(e["aln"])
        if k != "I" and isinstance(al, tuple):
            ntrace += 1
        if k == "I" or isinstance(al, tuple):
            continue
        ce = canon_edge(*e_tuple(e)) if al is not None else ("*", e["s1"], e["s2"])
        if al is not None and sid1_is_from(e, lens) is False:
            swapped.add(ce)
        want.append((ce, e["id"], e["tags"], k, al is None))
    lens1 = {n: s["len"] for n, s in D1["S"].items()}
    have = []
    for (ce, i, tg, k, skip) in edges_of_gfa1(D1, lens1):
        have.append((ce, i, tg, k))
    # edges with `*` alignment: only pair and kind can be compared
    starred = [w for w in want if w[4]]
    plain = [(w[0], w[1], w[2], w[3]) for w in want if not w[4]]
    have_plain = [h for h in have if h[0] is not None]
    have_star = [l for l in D1["L"] + D1["C"] if l["cig"] == "*"]
    compare_edges(F, plain, have_plain, how, swapped)
    if not (len(starred) <= len(have_star) <= len(starred) + ntrace):
        F.append("edge-missing: %s: %d edges without alignment, %d links/containments without overlap" % (how, len(starred), len(have_star)))
    for w in starred:
        m = [l for l in have_star if {l["a"], l["b"]} == {w[0][1], w[0][2]} and (w[1] is None or l["id"] == w[1])]
        if not m:
            F.append("edge-missing: %s: edge %s (no alignment) between %s and %s" % (how, w[1], w[0][1], w[0][2]))
    if D1["other"]:
        F.append("record-invented: %s: %r" % (how, D1["other"]))
    # paths
    idx = steps_index1(D1, lens1)
    byname = {p["name"]: p for p in D1["P"]}
    for o in D2["O"]:
        s2, e2, bad = walk2(o, D2, lens)
        if any(e is None for e in e2) or bad:
            continue           # nested / unnamed / wrongly signed groups: not judged
        kinds = []
        for (n, s) in o["items"]:
            ee = [e for e in D2["E"] if e["id"] == n]
            if ee:
                kinds.append(e_kind(ee[0], lens) == "L" and not isinstance(aln_of(ee[0]["aln"]), tuple))
        if not all(kinds):
            continue
        if o["name"] == "*":
            continue
        if o["name"] not in byname:
            F.append("path-lost: %s: %s" % (how, o["name"]))
            continue
        p = byname[o["name"]]
        w1 = walk1(p, idx, lens1)
        if any(aln_of(e["aln"]) is None for e in D2["E"]):
            w1 = (w1[0], [None] * len(w1[1]))
        if not e2:
            w1 = (w1[0], [])          # the group names no edge: only the segments can be compared
        compare_walks(F, (s2, e2), w1, how, o["name"])
        if p["tags"] != o["tags"]:
            F.append("tags-changed: %s: path %s %r -> %r" % (how, o["name"], o["tags"], p["tags"]))
    for p in D1["P"]:
        if p["name"] not in {o["name"] for o in D2["O"]}:
            F.append("path-invented: %s: %s" % (how, p["name"]))
    check_header(F, D2["H"], D1["H"], "1.0", how)


def check_same_gfa1(F, A, lens, Bd, how):
    compare_segments(F, A["S"], Bd["S"], how)
    lensB = {n: s["len"] for n, s in Bd["S"].items()}
    want = [(ce, i, tg, k) for (ce, i, tg, k, skip) in edges_of_gfa1(A, lens) if not skip]
    have = [(ce, i, tg, k) for (ce, i, tg, k, skip) in edges_of_gfa1(Bd, lensB) if not skip]
    if not any(x[4] for x in edges_of_gfa1(A, lens)):
        compare_edges(F, want, have, how)
    ia, ib = steps_index1(A, lens), steps_index1(Bd, lensB)
    skipped = {(l["a"], l["b"]) for l in A["L"] if skip_link(l, lens)} | {(l["b"], l["a"]) for l in A["L"] if skip_link(l, lens)}
    byname = {p["name"]: p for p in Bd["P"]}
    for p in A["P"]:
        if any((a[0], b[0]) in skipped for a, b in zip(p["segs"], p["segs"][1:] + p["segs"][:1])):
            continue
        if p["name"] not in byname:
            F.append("path-lost: %s: %s" % (how, p["name"]))
            continue
        compare_walks(F, walk1(p, ia, lens), walk1(byname[p["name"]], ib, lensB), how, p["name"])
        if p["tags"] != byname[p["name"]]["tags"]:
            F.append("tags-changed: %s: path %s" % (how, p["name"]))


def check_same_gfa2(F, A, lens, Bd, how):
    # only what has a GFA1 counterpart can come back
    compare_segments(F, A["S"], Bd["S"], how)
    want = []
    swapped = set()
    for e in A["E"]:
        al = aln_of(e["aln"])
        if e_kind(e, lens) == "I" or isinstance(al, tuple) or al is None:
            continue
        want.append((canon_edge(*e_tuple(e)), e["id"], e["tags"], "E"))
        if sid1_is_from(e, lens) is False:
            swapped.add(want[-1][0])
    have = [(canon_edge(*e_tuple(e)), e["id"], e["tags"], "E") for e in Bd["E"] if aln_of(e["aln"]) is not None and not isinstance(aln_of(e["aln"]), tuple)]
    compare_edges(F, want, have, how, swapped)
    check_dollars(F, Bd, "[back]")
