"""Shared by c02 / c05 / c08 / c09: random *histories* of public mutations on a Gfa, an independent
text model of what such a history denotes, and helpers (step application, shrinking).

A case is JSON:  {"version": "gfa1"|"gfa2"|None, "flavour": "gfa1"|"gfa2", "vlevel": int,
                  "hist": [step...], "labels": [generator label per step]}
A step is one of
    ["add", text]                      g.add_line(text)
    ["rm", name]                       g.rm(name)                       (by identifier)
    ["rmline", rt, idx]                g.rm(<idx-th non-virtual line of record type rt in g.lines>)
    ["disconnect", target]             line.disconnect()
    ["rename", target, new]            line.name = new
    ["settag", target, tag, value]     line.set(tag, value)
    ["deltag", target, tag]            line.delete(tag)
    ["setfield", target, field, value] line.set(field, value)          (illegal edits of connected lines, C08; with the
                                       optional feature fragment-external also the storage key of an F line)
    ["convert", how]                   getattr(g, how)()     how in to_gfa1_s / to_gfa2_s / to_gfa1 / to_gfa2
    ["convertline", target, how]       getattr(line, how)()  (both only with the optional generator feature convert)
Dropping the identifier of an ID-tagged L/C line (optional generator feature "dropid") is written with the existing
step forms:  ["deltag", t, "ID"]  line.delete("ID");  ["settag", t, "ID", None]  line.set("ID", None);
["setfield", t, "name", None]  line.set("name", None) (what `line.name = None` does).
where target is an identifier ("A") or "@RT:idx" (idx-th non-virtual line of that record type, modulo the
number of such lines).

Giving an L/C line its identifier while it is connected (optional generator feature "giveid") is written
["settag", t, "ID", n]  line.set("ID", n); the text model treats it as a rename (refused when n is in use).
Optional generator features (repeated lines, dropid, giveid, convert, dup-link-over-placeholder, retag = remove a tag and set it again with another type, refused
values for new tags, placeholder-def-bad-positions = an E line with a misplaced $ mark that defines an identifier only groups mention,
fragment-external = a value that is no oriented identifier for the field `external` of a connected fragment, header lines refused next to their VN tag, header-first prelude for a Gfa of unknown version,
seg_lengths = segments of other lengths than 10, the empty segment included) are
switched on per property through profile(); they are listed in the comment above profile().  Without them the
generated histories are what they always were.

Nothing in here looks at gfapy internals; the text model does not use gfapy at all.
"""
import re
from harness import lib

SEGS = ["A", "B", "C", "D"]
INTSEGS = ["1", "12"]
EDGE_IDS = ["e1", "e2", "e3"]
GAP_IDS = ["g1", "g2"]
PATH_IDS = ["p1", "p2"]
O_IDS = ["o1", "o2"]
U_IDS = ["u1", "u2"]
FRESH = ["Z", "Y", "X", "7", "33", "W", "e9"]
MISSING = ["zz", "nope", "q9"]
VIRTUAL_MARK = "co:Z:GFAPY_virtual_line"
UNKNOWN_RT = "?record_type?"

NPOS = {"gfa1": {"H": 1, "S": 3, "L": 6, "C": 7, "P": 4, "#": 1},
        "gfa2": {"H": 1, "S": 4, "E": 9, "G": 6, "F": 8, "O": 3, "U": 3, "#": 1}}


# ------------------------------------------------------------------------------------------------
# text level: records are lists of tab-separated fields
# ------------------------------------------------------------------------------------------------
def split_rec(text):
    if text.startswith("#"):
        return ["#", text[1:]]
    return text.split("\t")


def join_rec(f):
    if f[0] == "#":
        return "#" + f[1]
    return "\t".join(f)


def npos(f, v):
    if f[0] == UNKNOWN_RT:
        return 2
    return NPOS.get(v or "gfa1", NPOS["gfa1"]).get(f[0], len(f))


def rec_tags(f, v):
    return f[npos(f, v):]


def rec_id(f, v):
    """Identifier a record carries in the shared namespace (None if anonymous / not an identified type)."""
    rt = f[0]
    if rt in ("S", "P", UNKNOWN_RT):
        return f[1] if len(f) > 1 else None
    if rt in ("E", "G", "O", "U"):
        return f[1] if len(f) > 1 and f[1] != "*" else None
    if rt in ("L", "C"):
        for t in rec_tags(f, v):
            if t.startswith("ID:Z:"):
                return t[5:] if t[5:] != "*" else None
    return None


def _strip(x):
    return x[:-1] if x and x[-1] in "+-" else x


def mentions(f, v):
    """Identifiers of other lines a record mentions (with repetitions)."""
    rt = f[0]
    try:
        if rt in ("L", "C"):
            return [f[1], f[3]]
        if rt == "P":
            return [_strip(x) for x in f[2].split(",")]
        if rt in ("E", "G"):
            return [_strip(f[2]), _strip(f[3])]
        if rt == "F":
            return [f[1]]
        if rt == "O":
            return [_strip(x) for x in f[2].split(" ")]
        if rt == "U":
            return f[2].split(" ")
    except IndexError:
        pass
    return []


def subst(f, v, old, new):
    """The record with identifier `old` replaced by `new` at record positions (its own id and mentions)."""
    f = list(f)
    rt = f[0]

    def o(x):  # oriented
        return new + x[-1] if x[:-1] == old and x[-1:] in ("+", "-") else x
    try:
        if rt in ("S", "P", UNKNOWN_RT, "E", "G", "O", "U"):
            if f[1] == old:
                f[1] = new
        if rt in ("L", "C"):
            for i in (1, 3):
                if f[i] == old:
                    f[i] = new
            n = npos(f, v)
            f[n:] = ["ID:Z:" + new if t == "ID:Z:" + old else t for t in f[n:]]
        elif rt == "P":
            f[2] = ",".join(o(x) for x in f[2].split(","))
        elif rt in ("E", "G"):
            f[2] = o(f[2]); f[3] = o(f[3])
        elif rt == "F":
            if f[1] == old:
                f[1] = new
        elif rt == "O":
            f[2] = " ".join(o(x) for x in f[2].split(" "))
        elif rt == "U":
            f[2] = " ".join(new if x == old else x for x in f[2].split(" "))
    except IndexError:
        pass
    return f


def inv(o):
    return "-" if o == "+" else "+"


_FLIP = {"I": "D", "D": "I"}


def cigar_ops(c):
    return [(int(n), k) for n, k in re.findall(r"([0-9]+)([MIDNSHPX=])", c)]


def cigar_compl(c):
    if c == "*":
        return "*"
    return "".join("%d%s" % (n, _FLIP.get(k, k)) for n, k in reversed(cigar_ops(c)))


def link_compl(f):
    return ["L", f[3], inv(f[4]), f[1], inv(f[2]), cigar_compl(f[5])] + f[6:]


def link_canon(f):
    c = link_compl(f)
    return f if (f[1:6]) <= (c[1:6]) else c


def norm_rec(f, v):
    """Canonical written form: L in canonical direction, tags sorted."""
    if f[0] == "L" and len(f) >= 6:
        f = link_canon(f)
    n = npos(f, v)
    return join_rec(list(f[:n]) + sorted(f[n:]))


def norm_text(text, v):
    return norm_rec(split_rec(text), v)


def norm_lines(lines, v, drop_h=False):
    out = []
    for t in lines:
        if t == "" or (drop_h and t.startswith("H")):
            continue
        out.append(norm_text(t, v))
    return sorted(out)


def written_id(text, v):
    return rec_id(split_rec(text), v)


# ------------------------------------------------------------------------------------------------
# whitelist grammar of what the generator calls a legal line (anything else is "illegal" for the model)
# ------------------------------------------------------------------------------------------------
_N = r"[A-Za-z0-9_]+"
_CIG = r"(?:[0-9]+M)+"
_POS = r"[0-9]+\$?"
_TAGRE = re.compile(r"^(?:[A-Za-z][A-Za-z0-9]:i:[-+]?[0-9]+|[A-Za-z][A-Za-z0-9]:Z:[ -~]+)$")
_INT_TAGS = {"LN", "KC", "RC", "FC", "TS", "xx", "aa", "NM", "MQ"}
_STR_TAGS = {"ID", "VN", "yy", "ab", "UR", "co"}
_SHAPE = {
    "gfa1": {
        "S": re.compile(r"^S\t%s\t(?:\*|[ACGT]+)$" % _N),
        "L": re.compile(r"^L\t%s\t[+-]\t%s\t[+-]\t(?:\*|%s)$" % (_N, _N, _CIG)),
        "C": re.compile(r"^C\t%s\t[+-]\t%s\t[+-]\t[0-9]+\t(?:\*|%s)$" % (_N, _N, _CIG)),
        "P": re.compile(r"^P\t%s\t%s[+-](?:,%s[+-])*\t(?:\*|%s(?:,%s)*)$" % (_N, _N, _N, _CIG, _CIG)),
        "H": re.compile(r"^H$"),
    },
    "gfa2": {
        "S": re.compile(r"^S\t%s\t[0-9]+\t(?:\*|[ACGT]+)$" % _N),
        "E": re.compile(r"^E\t(?:\*|%s)\t%s[+-]\t%s[+-]\t%s\t%s\t%s\t%s\t(?:\*|%s)$" % (_N, _N, _N, _POS, _POS, _POS, _POS, _CIG)),
        "G": re.compile(r"^G\t(?:\*|%s)\t%s[+-]\t%s[+-]\t[0-9]+\t(?:\*|[0-9]+)$" % (_N, _N, _N)),
        "F": re.compile(r"^F\t%s\t%s[+-]\t%s\t%s\t%s\t%s\t(?:\*|%s)$" % (_N, _N, _POS, _POS, _POS, _POS, _CIG)),
        "O": re.compile(r"^O\t(?:\*|%s)\t%s[+-](?: %s[+-])*$" % (_N, _N, _N)),
        "U": re.compile(r"^U\t(?:\*|%s)\t%s(?: %s)*$" % (_N, _N, _N)),
        "H": re.compile(r"^H$"),
    },
}


def well_formed(text, v):
    """Is text one of the line shapes the generator produces as legal for version v?"""
    if text.startswith("#"):
        return "\t" not in text and "\n" not in text
    f = text.split("\t")
    sh = _SHAPE[v].get(f[0])
    if sh is None:
        return False
    n = NPOS[v][f[0]]
    if len(f) < n or not sh.match("\t".join(f[:n])):
        return False
    seen = set()
    for t in f[n:]:
        if not _TAGRE.match(t) or t[:2] in seen:
            return False
        seen.add(t[:2])
        if t[:2] in _INT_TAGS and t[3] != "i":
            return False
        if t[:2] in _STR_TAGS and t[3] != "Z":
            return False
    if f[0] == "P" and f[3] != "*":
        ns, no = len(f[2].split(",")), len(f[3].split(","))
        if no not in (ns - 1, ns) or ns < 2:
            return False
    if f[0] in ("E", "F"):
        ps = f[4:8] if f[0] == "E" else f[3:7]
        for b, e in ((ps[0], ps[1]), (ps[2], ps[3])):
            if int(b.rstrip("$")) > int(e.rstrip("$")):
                return False
    return True


# ------------------------------------------------------------------------------------------------
# the text model
# ------------------------------------------------------------------------------------------------
class TextModel:
    """A Gfa as a bag of records with identifiers as strings.  Operations return a status:
    'ok' | 'noop' | 'illegal:<why>' | 'ambiguous:<why>' | 'missing'.
    'ambiguous' = the documentation / property text does not pin the result down; callers stop comparing."""

    def __init__(self, v):
        self.v = v
        self.recs = []

    def copy(self):
        m = TextModel(self.v)
        m.recs = [list(r) for r in self.recs]
        return m

    # -- queries
    def ids(self):
        d = {}
        for i, r in enumerate(self.recs):
            n = rec_id(r, self.v)
            if n is not None:
                d.setdefault(n, i)
        return d

    def ids_of(self, rt):
        return [rec_id(r, self.v) for r in self.recs if r[0] == rt and rec_id(r, self.v) is not None]

    def count(self, rt):
        return sum(1 for r in self.recs if r[0] == rt)

    def lines(self, drop_h=False):
        return sorted(norm_rec(r, self.v) for r in self.recs if not (drop_h and r[0] == "H"))

    def text(self):
        return "\n".join(join_rec(r) for r in self.recs)

    def mentioned(self):
        s = set()
        for r in self.recs:
            s.update(mentions(r, self.v))
        return s

    def links_matching(self, a, oa, b, ob, c):
        """indices of L records a path step (a,oa)->(b,ob) with overlap c may run over"""
        out = []
        for i, r in enumerate(self.recs):
            if r[0] != "L":
                continue
            if r[1] == a and r[2] == oa and r[3] == b and r[4] == ob and (c == "*" or r[5] == "*" or cigar_ops(r[5]) == cigar_ops(c)):
                out.append(i)
            elif r[3] == a and inv(r[4]) == oa and r[1] == b and inv(r[2]) == ob and \
                    (c == "*" or r[5] == "*" or cigar_ops(r[5]) == cigar_ops(cigar_compl(c))):
                out.append(i)
        return out

    def path_steps(self, p):
        segs = [(x[:-1], x[-1]) for x in p[2].split(",")]
        if len(segs) < 2:
            return []
        ov = p[3].split(",") if p[3] != "*" else None
        steps = []
        for i in range(len(segs)):
            j = i + 1
            if j == len(segs):
                if ov is not None and len(ov) == len(segs):
                    j = 0
                else:
                    break
            steps.append((segs[i][0], segs[i][1], segs[j][0], segs[j][1], ov[i] if ov else "*"))
        return steps

    def all_defined(self):
        """every mentioned identifier is defined by a line of a fitting type (so no placeholder is needed)"""
        ids = self.ids()
        for r in self.recs:
            for n in mentions(r, self.v):
                if n not in ids:
                    return False
                t = self.recs[ids[n]][0]
                if r[0] in "LCEGFP" and t != "S":
                    return False
                if r[0] == "O" and t not in "SEGO":
                    return False
                if r[0] == "U" and t not in "SEGOU":
                    return False
            if r[0] == "P":
                for st in self.path_steps(r):
                    if not self.links_matching(*st):
                        return False
        return True

    def find(self, target, sel_text=None):
        if sel_text is not None:
            for i, r in enumerate(self.recs):
                if norm_rec(r, self.v) == sel_text:
                    return i
            return None
        if target.startswith("@"):
            rt, idx = target[1:].split(":")
            ix = [i for i, r in enumerate(self.recs) if r[0] == rt]
            return ix[int(idx) % len(ix)] if ix else None
        return self.ids().get(target)

    # -- mutations
    def add(self, text):
        v = self.v
        if text == "" or not well_formed(text, v):
            return "illegal:malformed-or-version"
        f = split_rec(text)
        rt = f[0]
        ids = self.ids()
        if rt == "H":
            for t in f[1:]:
                if t.startswith("VN:Z:") and t[5:] != ("1.0" if v == "gfa1" else "2.0"):
                    return "illegal:header-version"
                if t.startswith("TS:"):
                    for r in self.recs:
                        if r[0] == "H" and any(x.startswith("TS:") and x != t for x in r[1:]):
                            return "illegal:header-conflict"
            self.recs.append(f)
            return "ok"
        n = rec_id(f, v)
        if rt == "L":
            same = [i for i, r in enumerate(self.recs) if r[0] == "L" and
                    (r[1:5] == f[1:5] or link_compl(r)[1:5] == f[1:5])]
            for i in same:
                r = self.recs[i]
                for cand in (r, link_compl(r)):
                    if cand[1:5] == f[1:5]:
                        if cigar_ops(cand[5]) == cigar_ops(f[5]) and (cand[5] == "*") == (f[5] == "*"):
                            # equal to or complement of a stored link: documented as tolerated
                            return "ambiguous:link-repeated" if (n is not None or f[6:]) else "noop"
                        if cand[5] == "*" or f[5] == "*":
                            return "illegal:link-compatible-with-stored"
        if n is not None and n in ids:
            prev = self.recs[ids[n]]
            if rt in "OU" and prev[0] == rt:
                pt, nt = rec_tags(prev, v), rec_tags(f, v)
                for t in nt:
                    for u in pt:
                        if u[:2] == t[:2] and u != t:
                            return "illegal:group-tag-conflict"
                items = mentions(prev, v) + mentions(f, v)
                if n in items:
                    return "ambiguous:group-self"
                prev[2] = prev[2] + " " + f[2]
                prev[3:] = pt + [t for t in nt if t not in pt]
                return "ok"
            return "illegal:id-in-use"
        if rt in "OU" and n is not None and n in mentions(f, v):
            return "ambiguous:group-self"
        self.recs.append(f)
        return "ok"

    def _depends(self, r, d):
        rt, dt = r[0], d[0]
        if dt == "S":
            return rt in "LCPEGFOU" and d[1] in mentions(r, self.v)
        if dt == "L":
            if rt != "P":
                return False
            for st in self.path_steps(r):
                ms = self.links_matching(*st)
                if any(self.recs[i] is d for i in ms):
                    if len(ms) > 1:
                        self._amb = True
                    return True
            return False
        if dt in "EOU":
            n = rec_id(d, self.v)
            return n is not None and rt in "OU" and n in mentions(r, self.v)
        return False

    def rm(self, i):
        self._amb = False
        dead = {i}
        changed = True
        while changed:
            changed = False
            for j, r in enumerate(self.recs):
                if j in dead:
                    continue
                if any(self._depends(r, self.recs[d]) for d in dead):
                    dead.add(j); changed = True
        gaps = {rec_id(self.recs[d], self.v) for d in dead if self.recs[d][0] == "G"} - {None}
        self.recs = [r for j, r in enumerate(self.recs) if j not in dead]
        st = "ok"
        for r in self.recs:
            if r[0] in "OU" and gaps:
                items = [x for x in r[2].split(" ") if (_strip(x) if r[0] == "O" else x) not in gaps]
                if not items:
                    st = "ambiguous:group-left-empty"
                elif r[0] == "O" and len(items) != len(r[2].split(" ")):
                    # the property speaks of a gap listed in a *set*; what the removal of a gap means for a path that
                    # lists it is not pinned down (the library removes the path): callers that compare stop
                    st = "ambiguous:gap-listed-by-path"
                r[2] = " ".join(items)
        if self._amb:
            st = "ambiguous:parallel-links-under-path"
        return st

    def rename(self, i, new):
        v = self.v
        r = self.recs[i]
        old = rec_id(r, v)
        ids = self.ids()
        if (new is None or new == "*") and r[0] in "SP":
            return "illegal:name-required"      # the identifier of a segment or path is not optional
        if new is None:
            return self.dropid(i)
        if new == "*" and r[0] in "EGOU":
            # the line is made anonymous (only generated by the optional features rename_star / dropid): refused
            # while a group lists it; otherwise the state follows, but callers that compare stop
            if old is None:
                return "noop"
            if old in self.mentioned():
                return "illegal:name-mentioned"
            r[1] = "*"
            return "ambiguous:made-anonymous"
        if not re.match("^%s$" % _N, new):
            return "ambiguous:odd-name"
        if new in ids and ids[new] != i:
            if r[0] in "OU" and self.recs[ids[new]][0] == r[0]:
                return "ambiguous:rename-merges-groups"
            return "illegal:id-in-use"
        if new == old:
            return "noop"
        if new in self.mentioned():
            return "ambiguous:rename-onto-placeholder"
        if old is None:
            if r[0] in "EGOU":
                r[1] = new
                return "ok"
            return "ambiguous:rename-unnamed"
        self.recs = [subst(x, v, old, new) for x in self.recs]
        return "ok"

    def dropid(self, i):
        """the ID tag of an L/C record is dropped (the record stays, anonymous); the state follows, but callers that
        compare stop: what else the loss of the identifier means is not pinned down"""
        r = self.recs[i]
        if r[0] not in "LC":
            return "ambiguous:drop-name"
        n = npos(r, self.v)
        r[n:] = [t for t in r[n:] if t[:2] != "ID"]
        return "ambiguous:delete-id-tag"

    def setid(self, i, new):
        """line.set("ID", new) on an L/C record (only generated by the optional feature giveid): a rename when the
        record carries an identifier already, else the record takes the identifier - refused when it is in use"""
        r = self.recs[i]
        if rec_id(r, self.v) is not None:
            return self.rename(i, new)
        if not re.match("^%s$" % _N, new):
            return "ambiguous:odd-name"
        if new in self.ids():
            return "illegal:id-in-use"
        if new in self.mentioned():
            return "ambiguous:rename-onto-placeholder"
        n = npos(r, self.v)
        r[n:] = [t for t in r[n:] if t[:2] != "ID"] + ["ID:Z:" + new]
        return "ok"

    def settag(self, i, tag, val):
        r = self.recs[i]
        if r[0] in "H#":
            return "ambiguous:tag-on-header"
        if val is None:
            return self.deltag(i, tag)
        if tag == "ID" and r[0] in "LC" and isinstance(val, str):
            return self.setid(i, val)
        if not re.match(r"^[A-Za-z][A-Za-z0-9]$", tag):
            return "illegal:tagname"
        t = "%s:i:%d" % (tag, val) if isinstance(val, int) else "%s:Z:%s" % (tag, val)
        n = npos(r, self.v)
        for k in range(n, len(r)):
            if r[k][:2] == tag:
                if r[k][3] != t[3]:
                    return "ambiguous:tag-type-change"
                r[k] = t
                return "ok"
        r.append(t)
        return "ok"

    def deltag(self, i, tag):
        r = self.recs[i]
        if r[0] in "H#":
            return "ambiguous:tag-on-header"
        n = npos(r, self.v)
        if tag == "ID" and r[0] in "LC":
            return self.dropid(i)
        r[n:] = [t for t in r[n:] if t[:2] != tag]
        return "ok"

    def apply(self, step, sel_text=None):
        op = step[0]
        if op == "add":
            return self.add(step[1])
        if op in ("convert", "convertline"):
            # (optional feature convert) the text of the other version is asked for; a GFA1 link / containment without
            # ID tag that is converted is given an identifier the model does not know: callers that compare stop
            return "ambiguous:conversion"
        if op == "rmline":
            target = "@%s:%d" % (step[1], step[2])
        else:
            target = step[1]
        i = self.find(target, sel_text)
        if i is None:
            return "missing"
        if op in ("rm", "rmline", "disconnect"):
            return self.rm(i)
        if op == "rename":
            return self.rename(i, step[2])
        if op == "settag":
            return self.settag(i, step[2], step[3])
        if op == "deltag":
            return self.deltag(i, step[2])
        if op == "setfield":
            if step[2] in ("name", "ID") and step[3] is None and self.recs[i][0] in "LC":
                return self.dropid(i)
            return "illegal:readonly-field"
        return "ambiguous:unknown-op"


# ------------------------------------------------------------------------------------------------
# generator
# ------------------------------------------------------------------------------------------------
PROFILE = {
    "p_fail": 0.10, "fwd": 0.25, "gap_in_o": True, "close": 0.6,
    "ops": {"add": 52, "rm": 10, "rmline": 5, "disconnect": 6, "rename": 10, "settag": 8, "deltag": 4},
    "fails": {"dup-same": 3, "dup-other": 3, "dup-link": 1, "version": 2, "malformed": 2, "header": 2, "grouptag": 2,
              "rename-existing": 3, "rm-missing": 1, "illegal-edit": 0, "empty-line": 0, "mention-nonsegment": 1.5},
    "rename_star": 0.0,
}


# Optional profile entries (absent = off, the default output does not change):
#   copy=p               an addition is, with probability p, a second line with exactly the text of a stored line that
#                        carries no identifier (E/G/O/U '*', F, C without ID)                      label add:<RT>:copy
#   rm_copy=p            an rmline step aims, with probability p, at one of several lines with the same text
#                                                                                                label rmline:<RT>:copy
#   ops["dropid"]=w      a connected line loses its identifier: ID tag of an L/C line deleted (["deltag", n, "ID"],
#                        ["settag", n, "ID", None], ["setfield", n, "name", None]), E/G/O/U renamed to '*'
#                                                                                                label dropid:<RT>
#   fails["rename-placeholder"]=w   a rename to an identifier that is mentioned but not defined
#                                                                                  label fail:rename-placeholder:<RT>
#   ops["retag"]=w       a tag is removed and then set again to a value of another type, as two consecutive steps on the
#                        same line: ["deltag", t, tag] (or, with probability retag_setnone, ["settag", t, tag, None]) then
#                        ["settag", t, tag, v] with v a string where the tag held an integer and vice versa; when no
#                        line carries a tag, a step that creates one comes first
#                                                          labels settag, retag:del | retag:setnone, retag:set:<i|Z>
#   retag_setnone=p      see ops["retag"] (default 0: the tag is always removed with delete())
#   fails["tag-value"]=w (validation level 3 only) a tag that the line does not have is set to a value that is refused
#                        for the datatype its class implies (string with a tab / newline / non-printable character,
#                        empty string, empty list, boolean); 70%: followed, as a second step, by a legal set of the
#                        same tag to a value of another class        labels fail:tag-value, settag:after-refused
#   fails["header-vn-conflict"]=w   a header line that names the version of the history in a VN tag and is refused for
#                        another of its tags: a second TS value, or (validation level >= 2) a second datatype for a tag
#                        defined before                                            label fail:header-vn-conflict
#   header_first=p       with probability p the history starts with a prelude that is meant for a Gfa whose version is
#                        still unknown: an optional comment, one or two header lines without VN (TS and/or custom
#                        tags), optionally (GFA1) one or two L/C/P lines (they wait in the queue of such a Gfa), and
#                        then a refused header line as under fails["header-vn-conflict"] (30%: naming the other
#                        version).  gen_case(..., p_unknown > 0) makes such a case one with the version unknown.
#                                                     labels add:<RT>:prelude ... fail:header-vn-conflict
#   seg_lengths=[n...]  the length of a generated segment is drawn from this list instead of being 10 (GFA2: slen, with a
#                        sequence of that length where one is written; GFA1: the LN tag where one is written); 0 is a
#                        legal length ("S x 0 *" is an empty segment); also used for the segment line of a dup-same /
#                        dup-other call.  Positions of E/F lines stay what they are (nothing ties them to slen)
#                                                                 label add:S:len<n> when n != 10, else add:S as before
#   fails["dup-link-over-placeholder"]=w   (GFA1) a link that runs over a step of a stored path which no stored link
#                        covers (the Gfa holds a placeholder link for that step, which the arriving link replaces), in
#                        the direction of the step or as its complement, with the overlap of the step or '*', and with
#                        an ID tag that is the identifier of another line (half of the time, when there is one, of
#                        another link).  When no stored path has such a step, a two-segment path over an uncovered
#                        step is added first (label add:P)        label fail:dup-link-over-placeholder:<RT of the owner>
#   ops["giveid"]=w      line.set("ID", n) on a connected L/C line, written ["settag", t, "ID", n]: 80% on a line that
#                        has no ID tag yet (it gets its identifier while in the Gfa), else on one that has (a rename
#                        spelled as a tag assignment); n is neither in use nor mentioned            label giveid:<RT>
#   fails["giveid-existing"]=w   the same call with the identifier of another line
#                                                                      label fail:giveid-existing:<RT>/<RT of the owner>
#   ops["convert"]=w     the Gfa (["convert", how]) or one of its lines (["convertline", t, how]; GFA1: 85% an L/C line,
#                        GFA2: 60% an E line) is asked for its form in the other - sometimes its own - version: how is
#                        one of to_gfa1_s / to_gfa2_s (text) / to_gfa1 / to_gfa2 (objects).  The calls are queries, but
#                        gfapy gives every connected GFA1 link / containment without ID tag an identifier (unused_name())
#                        when it is converted to GFA2                               labels convert:gfa, convert:<RT>
#   fails["placeholder-def-bad-positions"]=w   (GFA2, validation level >= 1) an E line that defines an identifier which so
#                        far only O/U lines mention (the Gfa holds a placeholder of unknown record type for it) and whose
#                        positions are refused only when the line is connected: the begin of one interval carries the $
#                        mark, its end does not (BAD_DOLLAR; every field is well-formed and begin <= end).  When no such
#                        identifier is there (and in 20% of the draws anyway) a U or O line that mentions an unused edge
#                        identifier is added first (label add:<U|O>:fwd)        label fail:placeholder-def-bad-positions
#   fails["fragment-external"]=w   (GFA2) line.set("external", x) on a connected F line, written ["setfield", "@F:i",
#                        "external", x] - `external` is the key under which the Gfa keeps a fragment, so the assignment
#                        moves the line in the collections of the Gfa.  Level >= 1: x is no oriented identifier
#                        (EXTERNAL_INVALID: no orientation, blank inside / at the end, empty, '*', an integer, a list);
#                        10%: x is None.  Level 0: x in EXTERNAL_UNVALIDATED.  When there is no F line (and in 15% of the
#                        draws anyway) one is added first (label add:F); at level >= 1, 30%: a legal assignment
#                        ("r3+" ... "r5-") to the same line comes first (label setfield:external; the text model does not
#                        follow it: only for properties that do not compare the written text with the model)
#                                 label fail:fragment-external, fail:fragment-external:unvalidated (x None, or level 0)
# gen_fail / gen_mutation may return a list of (step, label) pairs instead of one pair: the steps follow each other.
def profile(**kw):
    p = dict(PROFILE)
    p["ops"] = dict(PROFILE["ops"]); p["fails"] = dict(PROFILE["fails"])
    for k, val in kw.items():
        if k in ("ops", "fails"):
            p[k].update(val)
        else:
            p[k] = val
    return p


def wchoice(rng, table):
    items = [(k, w) for k, w in table.items() if w > 0]
    tot = sum(w for _, w in items)
    x = rng.random() * tot
    for k, w in items:
        x -= w
        if x < 0:
            return k
    return items[-1][0]


def _unused(rng, m, pool):
    ids = m.ids()
    men = m.mentioned()
    free = [n for n in pool if n not in ids]
    return rng.choice(free) if free else None


def _pick_seg(rng, m, prof):
    d = m.ids_of("S")
    if d and not rng.chance(prof["fwd"]):
        return rng.choice(d)
    return rng.choice(SEGS)


def _tags(rng, p=0.3):
    t = []
    if rng.chance(p):
        t.append("xx:i:%d" % rng.randint(1, 3))
    if rng.chance(p / 2):
        t.append("yy:Z:v%d" % rng.randint(1, 3))
    return t


E_KINDS = [("0", "5"), ("5", "10$"), ("0", "10$"), ("2", "7"), ("5", "10$"), ("0", "5")]


def _gen_path(rng, m, prof):
    segs = m.ids_of("S")
    n = rng.choice([1, 2, 2, 3, 3, 4])
    if not segs or rng.chance(prof["fwd"] / 2):
        segs = SEGS
    cur = (rng.choice(segs), rng.choice("+-"))
    walk = [cur]; ovs = []
    follow = rng.chance(0.7)
    for _ in range(n - 1):
        nxt = []
        if follow:
            for r in m.recs:
                if r[0] == "L":
                    if (r[1], r[2]) == cur:
                        nxt.append(((r[3], r[4]), r[5]))
                    if (r[3], inv(r[4])) == cur:
                        nxt.append(((r[1], inv(r[2])), cigar_compl(r[5])))
        if nxt:
            c, ov = rng.choice(nxt)
        else:
            c, ov = (rng.choice(segs), rng.choice("+-")), "*"
        walk.append(c); ovs.append(ov); cur = c
    ovl = "*"
    if ovs and all(o != "*" for o in ovs) and rng.chance(0.6):
        ovl = ",".join(ovs)
    return ",".join(a + o for a, o in walk), ovl


def _seq_of(n):
    """a sequence of n bases ('*' for the empty segment: an empty sequence field cannot be written)"""
    return ("ACGT" * (n // 4 + 1))[:n] if n > 0 else "*"


def unnamed_recs(m):
    """records that may legally occur twice with the same text (no identifier of their own)"""
    return [r for r in m.recs if (r[0] in "EGOU" and r[1] == "*") or r[0] == "F" or
            (r[0] == "C" and rec_id(r, m.v) is None)]


def gen_add(rng, m, prof):
    """-> (text, label) of an addition meant to be legal in the model's current state (None if none found)"""
    v = m.v
    nseg = m.count("S")
    if v == "gfa1":
        w = {"S": 30 if nseg < 3 else 10, "L": 30, "C": 10, "P": 16, "H": 4, "#": 3}
    else:
        w = {"S": 30 if nseg < 3 else 10, "E": 24, "G": 10, "F": 6, "O": 14, "U": 14, "H": 4, "#": 3}
    if prof.get("copy") and rng.chance(prof["copy"]):
        # optional (default off): a second line with exactly the text of a stored line that carries no identifier
        # (only record types without a mandatory unique name can be repeated: E/G/O/U '*', F, C without ID)
        un = unnamed_recs(m)
        if un:
            r = rng.choice(un)
            return join_rec(r), "add:%s:copy" % r[0]
    for _ in range(8):
        rt = wchoice(rng, w)
        ids = m.ids()
        if rt == "#":
            return "# c%d" % rng.randint(1, 9), "add:#"
        if rt == "H":
            ts = [t for r in m.recs if r[0] == "H" for t in r[1:] if t.startswith("TS:")]
            c = ["H\tVN:Z:%s" % ("1.0" if v == "gfa1" else "2.0"), "H\taa:i:%d" % rng.randint(1, 3), "H\tab:Z:hi",
                 "H\t" + (ts[0] if ts else "TS:i:3"), "H\taa:i:1\tab:Z:x"]
            return rng.choice(c), "add:H"
        if rt == "S":
            n = _unused(rng, m, SEGS + (INTSEGS if rng.chance(0.3) else []))
            if n is None:
                continue
            seq = "ACGT" if rng.chance(0.1) else "*"
            if prof.get("seg_lengths"):
                # optional (default off): segments of other lengths than 10, the empty segment included
                ln = rng.choice(list(prof["seg_lengths"]))
                lab = "add:S" if ln == 10 else "add:S:len%d" % ln
                if v == "gfa1":
                    t = ["LN:i:%d" % ln] if seq == "*" and rng.chance(0.4) else []
                    return "\t".join(["S", n, seq] + t + _tags(rng)), (lab if t else "add:S")
                return "\t".join(["S", n, str(ln), _seq_of(ln) if seq != "*" else "*"] + _tags(rng)), lab
            if v == "gfa1":
                t = ["LN:i:10"] if rng.chance(0.15) and seq == "*" else []
                return "\t".join(["S", n, seq] + t + _tags(rng)), "add:S"
            return "\t".join(["S", n, "10", "ACGTACGTAC" if seq != "*" else "*"] + _tags(rng)), "add:S"
        if rt in ("L", "C"):
            a = _pick_seg(rng, m, prof)
            b = a if rng.chance(0.2) else _pick_seg(rng, m, prof)
            oa, ob = rng.choice("+-"), rng.choice("+-")
            if rt == "L" and a == b and rng.chance(0.4):
                ob = inv(oa)  # hairpin: same end twice
            ov = "*" if rng.chance(0.7) else rng.choice(["2M", "3M"])
            f = [rt, a, oa, b, ob] + (["0"] if rt == "C" else []) + [ov]
            if rng.chance(0.25):
                e = _unused(rng, m, EDGE_IDS)
                if e:
                    f.append("ID:Z:" + e)
            f += _tags(rng, 0.15)
            lab = "add:%s" % rt
            if rt == "L":
                st = m.copy().add("\t".join(f))
                if st != "ok":
                    if st == "noop" and rng.chance(0.5):
                        return "\t".join(f), "add:L:repeat"
                    continue
            if a == b:
                lab += ":hairpin" if (rt == "L" and oa != ob) else ":self"
            if a not in ids or b not in ids:
                lab += ":fwd"
            return "\t".join(f), lab
        if rt == "P":
            n = _unused(rng, m, PATH_IDS)
            if n is None:
                continue
            sn, ov = _gen_path(rng, m, prof)
            return "\t".join(["P", n, sn, ov] + _tags(rng, 0.1)), "add:P"
        if rt == "E":
            a = _pick_seg(rng, m, prof)
            b = a if rng.chance(0.2) else _pick_seg(rng, m, prof)
            e = "*" if rng.chance(0.3) else (_unused(rng, m, EDGE_IDS) or "*")
            k1, k2 = rng.choice(E_KINDS), rng.choice(E_KINDS)
            f = ["E", e, a + rng.choice("+-"), b + rng.choice("+-"), k1[0], k1[1], k2[0], k2[1], "*"] + _tags(rng, 0.15)
            lab = "add:E" + (":self" if a == b else "") + (":fwd" if a not in ids or b not in ids else "")
            return "\t".join(f), lab
        if rt == "G":
            a, b = _pick_seg(rng, m, prof), _pick_seg(rng, m, prof)
            gid = "*" if rng.chance(0.2) else (_unused(rng, m, GAP_IDS) or "*")
            lab = "add:G" + (":fwd" if a not in ids or b not in ids else "")
            return "\t".join(["G", gid, a + rng.choice("+-"), b + rng.choice("+-"), "5", "*"] + _tags(rng, 0.1)), lab
        if rt == "F":
            a = _pick_seg(rng, m, prof)
            return "\t".join(["F", a, "r%d%s" % (rng.randint(1, 2), rng.choice("+-")), "0", "5", "0", "5", "*"]), \
                "add:F" + (":fwd" if a not in ids else "")
        if rt in ("O", "U"):
            pool = O_IDS if rt == "O" else U_IDS
            own = m.ids_of(rt)
            lab = "add:" + rt
            if own and rng.chance(0.3):
                gid = rng.choice(own); lab += ":merge"
            elif rng.chance(0.1):
                gid = "*"
            else:
                gid = _unused(rng, m, pool)
                if gid is None:
                    gid = rng.choice(own) if own else "*"
                    lab += ":merge" if gid != "*" else ""
            cand = m.ids_of("S") * 2 + m.ids_of("E")
            cand += [x for x in m.ids_of("O") if gid == "*" or rt == "U" or x > gid]
            if rt == "U":
                cand += m.ids_of("G") + [x for x in m.ids_of("U") if gid == "*" or x > gid]
            elif prof["gap_in_o"]:
                cand += m.ids_of("G")
            fw = SEGS + EDGE_IDS + [x for x in O_IDS if gid == "*" or rt == "U" or x > gid]
            if rt == "U":
                fw += GAP_IDS + [x for x in U_IDS if gid == "*" or x > gid]
            items = []
            for _k in range(rng.choice([1, 2, 2, 3, 4])):
                if cand and not rng.chance(prof["fwd"]):
                    items.append(rng.choice(cand))
                else:
                    items.append(rng.choice(fw))
            items = [x for x in items if x != gid]
            if not items:
                continue
            if any(x not in ids for x in items):
                lab += ":fwd"
            if any(x in m.ids_of("O") + m.ids_of("U") or x in O_IDS + U_IDS for x in items):
                lab += ":nested"
            if rt == "O":
                items = [x + rng.choice("+-") for x in items]
            tg = []
            if rng.chance(0.15):
                prev = [t for r in m.recs if r[0] == rt and r[1] == gid for t in r[3:] if t[:2] == "xx"]
                tg = [prev[0]] if prev else ["xx:i:%d" % rng.randint(1, 2)]
            return "\t".join([rt, gid, " ".join(items)] + tg), lab
    return None


_VERSION_CLASH = {
    "gfa1": ["E\te9\tA+\tB+\t0\t5\t5\t10$\t*", "S\tZ\t10\t*", "G\tg9\tA+\tB+\t5\t*", "U\tu9\tA B", "O\to9\tA+ B+",
             "F\tA\tr1+\t0\t5\t0\t5\t*", "H\tVN:Z:2.0"],
    "gfa2": ["L\tA\t+\tB\t+\t*", "S\tZ\t*", "C\tA\t+\tB\t+\t0\t*", "P\tp9\tA+,B+\t*", "H\tVN:Z:1.0", "S\tZ\tACGT"],
}
_MALFORMED = {
    "gfa1": ["S\tZ", "L\tA\t?\tB\t+\t*", "L\tA\t+\tB\t+", "C\tA\t+\tB\t+\tx\t*", "P\tp9\tA+,B\t*", "L\tA\t+\tB\t+\t2Q",
             "S\tZ\t*\txx:i:abc", "S\tZ\t*\tLN:Z:5", "P\tp9\t\t*", "L\tC\t+\tD\t+\t*\txx:i:1\txx:i:2", "S\tZ y\t*",
             "P\tp9\tA+,B+\t1M,2M,3M"],
    "gfa2": ["S\tZ\t10", "E\tbad", "E\te9\tA+\tB+\tx\t5\t0\t5\t*", "G\tg9\tA\tB+\t5\t*", "F\tA\tr1+\t0\t5\t0\t*",
             "O\to9\tA B+", "U\tu9\t", "S\tZ\t10\t*\txx:i:abc", "E\te9\tA+\tB\t0\t5\t0\t5\t*", "G\tg9\tA+\tB+\tx\t*",
             "E\te9\tC+\tD+\t0\t5\t0\t5\t*\txx:i:1\txx:i:2", "E\te9\tA+\tB+\t5\t0\t0\t5\t*"],
}


def _line_with_id(rng, m, rt, n, prof):
    """a well-formed line of record type rt carrying identifier n (mentions drawn like a legal addition)"""
    a, b = _pick_seg(rng, m, prof), _pick_seg(rng, m, prof)
    if rt == "S":
        if prof.get("seg_lengths"):
            ln = rng.choice(list(prof["seg_lengths"]))
            if m.v == "gfa1":
                return "S\t%s\t*" % n + ("\tLN:i:%d" % ln if ln != 10 else "")
            return "S\t%s\t%d\t*" % (n, ln)
        return "S\t%s\t*" % n if m.v == "gfa1" else "S\t%s\t10\t*" % n
    if rt == "L":
        return "L\t%s\t%s\t%s\t%s\t4M\tID:Z:%s" % (a, rng.choice("+-"), b, rng.choice("+-"), n)
    if rt == "C":
        return "C\t%s\t+\t%s\t-\t0\t*\tID:Z:%s" % (a, b, n)
    if rt == "P":
        return "P\t%s\t%s+\t*" % (n, a) if rng.chance(0.3) else "P\t%s\t%s+,%s-\t*" % (n, a, b)
    if rt == "E":
        return "E\t%s\t%s+\t%s-\t0\t5\t5\t10$\t*" % (n, a, b)
    if rt == "G":
        return "G\t%s\t%s+\t%s+\t5\t*" % (n, a, b)
    if rt == "O":
        return "O\t%s\t%s+ %s-" % (n, a, b)
    if rt == "U":
        return "U\t%s\t%s %s" % (n, a, b) if a != b else "U\t%s\t%s" % (n, a)
    raise ValueError(rt)


IDENTIFIED = {"gfa1": ["S", "L", "C", "P"], "gfa2": ["S", "E", "G", "O", "U"]}

# values that are refused (validation level 3) when a tag is created with them, with the datatype their class implies,
# and values of another class that are accepted for a new tag
REFUSED_TAG_VALUES = [("a\tb", "Z"), ("x\ny", "Z"), ("", "Z"), ("caf\u00e9", "Z"), ([], "B"), (True, "i"), ([True], "B")]
NEW_TAG_NAMES = ["zq", "xy", "qq"]

# (begin, end) of an interval of an E line whose begin carries the $ mark (last position of the segment) while its end does
# not: every field is well-formed and begin <= end, so the line is built at every validation level; it is refused when it
# is connected ("Wrong use of $ marker")
BAD_DOLLAR = [("10$", "10"), ("7$", "10"), ("5$", "5"), ("0$", "5")]
# values that are no oriented identifier (refused at validation levels >= 1 when assigned to the field `external` of a
# connected fragment), and values that a connected fragment cannot be kept under at a level that does not validate
EXTERNAL_INVALID = ["read3", "x y+", 5, "", "r3+ ", "+", "*", ["a", "+"]]
EXTERNAL_UNVALIDATED = [None, 5, ""]


def _line_targets(rng, m, pred=None):
    """targets (identifier, else '@RT:idx') of the records that are no header / comment (and satisfy pred)"""
    out = []
    cnt = {}
    for r in m.recs:
        j = cnt.get(r[0], 0)
        cnt[r[0]] = j + 1
        if r[0] in "H#" or r[0] == UNKNOWN_RT:
            continue
        if pred is not None and not pred(r):
            continue
        n = rec_id(r, m.v)
        out.append((n if n is not None else "@%s:%d" % (r[0], j), r))
    return out


def gen_tag_value(rng, m):
    """-> [(step, label), ...]: a refused value for a tag the line does not have, optionally followed by an accepted
    value of another class for the same tag (None if there is no line)"""
    c = _line_targets(rng, m)
    if not c:
        return None
    t, r = rng.choice(c)
    have = {x[:2] for x in rec_tags(r, m.v)}
    free = [x for x in NEW_TAG_NAMES if x not in have]
    if not free:
        return None
    tag = rng.choice(free)
    bad, dt = rng.choice(REFUSED_TAG_VALUES)
    out = [(["settag", t, tag, bad], "fail:tag-value")]
    if rng.chance(0.7):
        good = rng.choice([5, 12, 7]) if dt == "Z" or (dt == "B" and rng.chance(0.5)) else rng.choice(["hello", "w1"])
        out.append((["settag", t, tag, good], "settag:after-refused"))
    return out


def gen_header_vn_conflict(rng, m, prof, other_version=0.0):
    """-> (step, label): a header line with a VN tag (the version of the history; with probability other_version the
    other one) that contradicts the header lines so far in another tag (None if nothing can be contradicted)"""
    ts = [t for r in m.recs if r[0] == "H" for t in r[1:] if t.startswith("TS:")]
    seen = {}
    for r in m.recs:
        if r[0] == "H":
            for t in r[1:]:
                if t[:2] not in ("VN", "TS"):
                    seen.setdefault(t[:2], set()).add(t[3])
    once = sorted(n for n, d in seen.items() if len(d) == 1) if prof.get("_vlevel", 1) >= 2 else []
    if not ts and not once:
        return None
    vn = "1.0" if m.v == "gfa1" else "2.0"
    if rng.chance(other_version):
        vn = "2.0" if vn == "1.0" else "1.0"
    vn = "VN:Z:" + vn
    if ts and (not once or rng.chance(0.6)):
        bad = "TS:i:77" if ts[0] != "TS:i:77" else "TS:i:78"
    else:
        n = rng.choice(once)
        bad = "%s:Z:foo" % n if "Z" not in seen[n] else "%s:i:7" % n
    c = ["H\t%s\t%s" % (vn, bad), "H\t%s\t%s" % (bad, vn), "H\t%s\tzz:i:1\t%s" % (vn, bad), "H\t%s\t%s" % (vn, bad)]
    return ["add", rng.choice(c)], "fail:header-vn-conflict"


def gen_header_prelude(rng, m, prof):
    """-> [(step, label), ...] (see profile entry header_first); the model m is brought up to date"""
    out = []
    v = m.v

    def put(text, lab):
        out.append((["add", text], lab))
        m.add(text)
    if rng.chance(0.3):
        put("# c%d" % rng.randint(1, 9), "add:#:prelude")
    kinds = ["ts"] if prof.get("_vlevel", 1) < 2 else rng.choice([["ts"], ["dt"], ["ts", "dt"], ["dt", "ts"]])
    for kd in kinds:
        if kd == "ts":
            put("H\tTS:i:3", "add:H:prelude")
        else:
            put(rng.choice(["H\taa:i:%d" % rng.randint(1, 3), "H\tab:Z:hi", "H\taa:i:1\tab:Z:x"]), "add:H:prelude")
    if v == "gfa1" and rng.chance(0.5):
        for _ in range(rng.choice([1, 1, 2])):
            a, b = rng.choice(SEGS), rng.choice(SEGS)
            k = rng.choice("LLCP")
            if k == "L":
                t = "L\t%s\t%s\t%s\t%s\t*" % (a, rng.choice("+-"), b, rng.choice("+-"))
            elif k == "C":
                t = "C\t%s\t+\t%s\t%s\t0\t*" % (a, b, rng.choice("+-"))
            else:
                n = _unused(rng, m, PATH_IDS)
                if n is None:
                    continue
                t = "P\t%s\t%s+,%s+\t*" % (n, a, b)
            if m.copy().add(t) == "ok":
                put(t, "add:%s:prelude" % k)
    got = gen_header_vn_conflict(rng, m, prof, other_version=0.3)
    if got is not None:
        out.append(got)
    return out


def gen_fail(rng, m, prof):
    """-> (step, label) of a call meant to raise in the model's current state (None if none is possible)"""
    v = m.v
    ids = m.ids()
    for _ in range(8):
        k = wchoice(rng, prof["fails"])
        if k in ("dup-same", "dup-other"):
            if not ids:
                continue
            n = rng.choice(sorted(ids))
            prt = m.recs[ids[n]][0]
            if k == "dup-same":
                if prt in "OU":
                    continue
                rt = prt
            else:
                rt = rng.choice([x for x in IDENTIFIED[v] if x != prt])
            return ["add", _line_with_id(rng, m, rt, n, prof)], "fail:%s:%s/%s" % (k, rt, prt)
        if k == "dup-link":
            ls = [r for r in m.recs if r[0] == "L" and r[5] != "*"]
            if not ls:
                continue
            r = rng.choice(ls)
            r = link_compl(r) if rng.chance(0.5) else list(r)
            return ["add", "\t".join(r[:5] + ["*"])], "fail:dup-link"
        if k == "version":
            return ["add", rng.choice(_VERSION_CLASH[v])], "fail:version"
        if k == "malformed":
            return ["add", rng.choice(_MALFORMED[v])], "fail:malformed"
        if k == "empty-line":
            return ["add", ""], "fail:empty-line"
        if k == "header":
            ts = [t for r in m.recs if r[0] == "H" for t in r[1:] if t.startswith("TS:")]
            c = ["H\tVN:Z:3.0", "H\tVN:Z:%s" % ("2.0" if v == "gfa1" else "1.0")]
            if ts:
                c += ["H\tTS:i:77", "H\tzz:i:1\tTS:i:77", "H\tTS:i:77\tzz:i:1"] * 2
            else:
                c += ["H\tzz:i:1\tVN:Z:3.0", "H\tTS:i:4\tTS:i:5"]
            return ["add", rng.choice(c)], "fail:header"
        if k == "grouptag":
            gs = [r for r in m.recs if r[0] in "OU" and r[1] != "*"]
            if not gs:
                continue
            r = rng.choice(gs)
            tg = [t for t in r[3:] if t[:2] == "xx"]
            if not tg:
                # give the group a tag first through a legal call, the conflicting line comes later
                return ["settag", r[1], "xx", 1], "settag"
            a = _pick_seg(rng, m, prof)
            item = (a + "+") if r[0] == "O" else a
            if rng.chance(0.3):
                item += " " + (rng.choice(SEGS + EDGE_IDS) + ("+" if r[0] == "O" else ""))
            # a different value for the same tag (an integer one more, a string one letter longer)
            other = ("xx:i:%d" % (int(tg[0][5:]) + 1)) if re.match(r"xx:i:-?[0-9]+\Z", tg[0]) else (tg[0] + "x")
            return ["add", "\t".join([r[0], r[1], item, other])], "fail:grouptag"
        if k == "rename-existing":
            named = sorted(ids)
            if len(named) < 2:
                continue
            a = rng.choice(named); b = rng.choice([x for x in named if x != a])
            ra, rb = m.recs[ids[a]][0], m.recs[ids[b]][0]
            return ["rename", a, b], "fail:rename-existing:%s/%s" % (ra, rb)
        if k == "rm-missing":
            return ["rm", rng.choice(MISSING)], "fail:rm-missing"
        if k == "rename-placeholder":
            # optional (no weight by default): a line is renamed to an identifier that is mentioned by some line but
            # not defined (the Gfa holds a placeholder for it)
            ph = sorted(m.mentioned() - set(ids) - {"*"})
            if not ph or not ids:
                continue
            a = rng.choice(sorted(ids)); b = rng.choice(ph)
            return ["rename", a, b], "fail:rename-placeholder:%s" % m.recs[ids[a]][0]
        if k == "dup-link-over-placeholder":
            # optional (no weight by default): a link arrives for a path step that only a placeholder link covers, and
            # wears the identifier of another line
            if v != "gfa1" or not ids:
                continue
            out = []
            open_steps = [st for r in m.recs if r[0] == "P" for st in m.path_steps(r) if not m.links_matching(*st)]
            if not open_steps:
                free = _unused(rng, m, PATH_IDS)
                if free is None:
                    continue
                for _try in range(6):
                    st = (_pick_seg(rng, m, prof), rng.choice("+-"), _pick_seg(rng, m, prof), rng.choice("+-"), "*")
                    if not m.links_matching(*st):
                        break
                else:
                    continue
                out.append((["add", "P\t%s\t%s%s,%s%s\t*" % ((free,) + st[:4])], "add:P"))
                open_steps = [st]
            a, oa, b, ob, ov = rng.choice(open_steps)
            links = [n for n in sorted(ids) if m.recs[ids[n]][0] == "L"]
            cand = [n for n in (links if links and rng.chance(0.5) else sorted(ids)) if n not in (a, b)]
            if not cand:
                continue
            n = rng.choice(cand)
            f = ["L", a, oa, b, ob, ov if rng.chance(0.5) else "*"]
            if rng.chance(0.4):
                f = link_compl(f)
            out.append((["add", "\t".join(f + ["ID:Z:" + n])],
                        "fail:dup-link-over-placeholder:%s" % m.recs[ids[n]][0]))
            return out if len(out) > 1 else out[0]
        if k == "giveid-existing":
            # optional (no weight by default): line.set("ID", n) on an L/C line, n the identifier of another line
            c = _line_targets(rng, m, lambda r: r[0] in "LC")
            if not c or not ids:
                continue
            anon = [x for x in c if rec_id(x[1], v) is None]
            t, r = rng.choice(anon) if anon and rng.chance(0.8) else rng.choice(c)
            cand = [n for n in sorted(ids) if n != rec_id(r, v)]
            if not cand:
                continue
            n = rng.choice(cand)
            return ["settag", t, "ID", n], "fail:giveid-existing:%s/%s" % (r[0], m.recs[ids[n]][0])
        if k == "header-dt":
            # a header tag defined exactly once gets a second definition of another datatype (refused at vlevel >= 2),
            # next to tags that are fine: nothing of the refused line may stay in the header
            if prof.get("_vlevel", 1) < 2:
                continue
            seen = {}
            for r in m.recs:
                if r[0] == "H":
                    for t in r[1:]:
                        if t[:2] not in ("VN", "TS"):
                            seen.setdefault(t[:2], []).append(t[3])
            once = sorted(n for n, d in seen.items() if len(set(d)) == 1)
            if not once:
                return ["add", "H\taa:i:%d" % rng.randint(1, 3)], "add:H"
            multi = [x for x in once if len(seen[x]) >= 2]
            n = rng.choice(multi) if multi and rng.chance(0.6) else rng.choice(once)
            if (not multi and rng.chance(0.7)) or (len(seen[n]) < 3 and rng.chance(0.25)):
                # one more definition of the same datatype first: the stored value becomes an array of values
                return ["add", "H\t%s:%s:%s" % (n, seen[n][0], "9" if seen[n][0] == "i" else "more")], "add:H"
            bad = "%s:Z:foo" % n if seen[n][0] != "Z" else "%s:i:7" % n
            c = ["H\tqq:Z:hello\tbq:i:12\t" + bad, "H\tqr:i:1\t" + bad, "H\t" + bad, "H\t" + bad + "\tqs:i:2"]
            return ["add", rng.choice(c)], "fail:header-dt"
        if k == "path-nonsegment":
            # a path whose third or later segment is the identifier of a line that is not a segment
            if v != "gfa1":
                continue
            other = [n for n in sorted(ids) if m.recs[ids[n]][0] != "S"]
            free = _unused(rng, m, PATH_IDS)
            segs = m.ids_of("S")
            if not other or not free or not segs:
                continue
            k2 = rng.randint(2, 4)
            lst = ["%s%s" % (rng.choice(segs), rng.choice("+-")) for _ in range(k2)] + [rng.choice(other) + "+"]
            if rng.chance(0.3):
                lst.append("%s+" % rng.choice(segs))
            return ["add", "P\t%s\t%s\t*" % (free, ",".join(lst))], "fail:path-nonsegment"
        if k == "path-short-overlaps":
            # a path whose overlap list is too short for its segments, handed over as a Line object built at vlevel 0
            # (the string form is refused while the line is parsed; the object is refused when it is connected)
            if v != "gfa1":
                continue
            free = _unused(rng, m, PATH_IDS)
            segs = m.ids_of("S")
            if not free or len(segs) < 1:
                continue
            nseg = rng.randint(3, 6)
            lst = ["%s%s" % (rng.choice(segs + SEGS), rng.choice("+-")) for _ in range(nseg)]
            novl = rng.randint(1, nseg - 2)
            ovl = ",".join(rng.choice(["3M", "5M", "*", "2M1D"]) for _ in range(novl))
            if ovl == "*":
                ovl = "3M"
            return ["addline0", "P\t%s\t%s\t%s" % (free, ",".join(lst), ovl)], "fail:path-short-overlaps"
        if k == "placeholder-def-nonsegment":
            # the definition of an identifier that so far is only mentioned (a placeholder exists) and that uses,
            # where a segment is expected, the identifier of a line that is not a segment
            if v != "gfa2":
                continue
            ph = sorted(n for n in (m.mentioned() - set(ids)) if n not in ("*",))
            other = [n for n in sorted(ids) if m.recs[ids[n]][0] != "S"]
            if not ph or not other:
                continue
            n = rng.choice(ph); x = rng.choice(other); a = _pick_seg(rng, m, prof)
            if n in (x, a):
                continue
            first, second = (a, x) if rng.chance(0.5) else (x, a)
            c = ["E\t%s\t%s+\t%s-\t0\t5\t5\t10$\t*" % (n, first, second), "G\t%s\t%s+\t%s+\t5\t*" % (n, first, second)]
            return ["add", rng.choice(c)], "fail:placeholder-def-nonsegment"
        if k == "placeholder-def-bad-positions":
            # optional (no weight by default): the definition, as an E line, of an identifier that so far only groups
            # mention (the Gfa holds a placeholder of unknown record type for it); the E line is built without complaint
            # and is refused when it is connected, for a begin position that carries the $ mark while its end does not
            if v != "gfa2" or prof.get("_vlevel", 1) < 1:
                continue
            gm, sm = set(), set()
            for r in m.recs:
                (gm if r[0] in ("O", "U") else sm).update(mentions(r, v))
            ph = sorted(gm - sm - set(ids) - {"*"})
            out = []
            if not ph or rng.chance(0.2):
                # a group that mentions an identifier no line has comes first
                e = _unused(rng, m, EDGE_IDS)
                if e is None or e in sm:
                    continue
                grt = rng.choice("UO")
                gid = _unused(rng, m, U_IDS if grt == "U" else O_IDS) or "*"
                items = [e] + ([_pick_seg(rng, m, prof)] if rng.chance(0.6) else [])
                rng.shuffle(items)
                if grt == "O":
                    items = [x + rng.choice("+-") for x in items]
                gtext = "\t".join([grt, gid, " ".join(items)])
                if m.copy().add(gtext) != "ok":
                    continue
                out.append((["add", gtext], "add:%s:fwd" % grt))
                n = e
            else:
                n = rng.choice(ph)
            a, b = _pick_seg(rng, m, prof), _pick_seg(rng, m, prof)
            if n in (a, b):
                continue
            good, bad = rng.choice(E_KINDS), rng.choice(BAD_DOLLAR)
            pos = (bad + good) if rng.chance(0.5) else (good + bad)
            out.append((["add", "E\t%s\t%s%s\t%s%s\t%s\t%s\t%s\t%s\t*" % ((n, a, rng.choice("+-"), b, rng.choice("+-")) + pos)],
                        "fail:placeholder-def-bad-positions"))
            return out if len(out) > 1 else out[0]
        if k == "fragment-external":
            # optional (no weight by default): the field `external` of a connected fragment - the key under which the
            # Gfa keeps an F line - is assigned a value that is no oriented identifier
            if v != "gfa2":
                continue
            vl = prof.get("_vlevel", 1)
            out = []
            nf = m.count("F")
            if nf == 0 or rng.chance(0.15):
                a = _pick_seg(rng, m, prof)
                out.append((["add", "\t".join(["F", a, "r%d%s" % (rng.randint(1, 2), rng.choice("+-")), "0", "5", "0", "5", "*"])],
                            "add:F" + (":fwd" if a not in ids else "")))
                nf += 1
            t = "@F:%d" % rng.randrange(nf)
            if vl >= 1 and rng.chance(0.3):
                # a legal assignment first: the fragment moves to another key (the text model does not follow it)
                out.append((["setfield", t, "external", "r%d%s" % (rng.randint(3, 5), rng.choice("+-"))], "setfield:external"))
            if vl == 0:
                val = rng.choice(EXTERNAL_UNVALIDATED)
            else:
                val = None if rng.chance(0.1) else rng.choice(EXTERNAL_INVALID)
            out.append((["setfield", t, "external", val],
                        "fail:fragment-external" + (":unvalidated" if val is None or vl == 0 else "")))
            return out if len(out) > 1 else out[0]
        if k == "rename-invalid":
            # a new identifier that is no identifier: refused by the field validation (vlevel >= 1)
            if prof.get("_vlevel", 1) < 1 or not ids:
                continue
            a = rng.choice(sorted(set(ids) | (m.mentioned() - {"*"})) if rng.chance(0.3) else sorted(ids))
            return ["rename", a, rng.choice(["a b", "x\ty", "", "a b c"])], "fail:rename-invalid"
        if k == "mention-nonsegment":
            # a line that uses, where a segment is expected, the identifier of a line that is not a segment
            other = [n for n in sorted(ids) if m.recs[ids[n]][0] != "S"]
            if not other:
                continue
            n = rng.choice(other)
            a = _pick_seg(rng, m, prof)
            first = rng.chance(0.5)
            x, y = (n, a) if first else (a, n)
            if v == "gfa1":
                c = ["L\t%s\t+\t%s\t-\t*" % (x, y), "C\t%s\t+\t%s\t+\t0\t*" % (x, y)]
                free = _unused(rng, m, PATH_IDS)
                if free:
                    c.append("P\t%s\t%s+,%s-\t*" % (free, x, y))
            else:
                c = ["E\t*\t%s+\t%s-\t0\t5\t5\t10$\t*" % (x, y), "G\t*\t%s+\t%s+\t5\t*" % (x, y),
                     "F\t%s\tr1+\t0\t5\t0\t5\t*" % n]
            return ["add", rng.choice(c)], "fail:mention-nonsegment"
        if k == "tag-value":
            # optional (no weight by default): a new tag with a value that is refused at validation level 3
            if prof.get("_vlevel", 1) < 3:
                continue
            got = gen_tag_value(rng, m)
            if got is None:
                continue
            return got
        if k == "header-vn-conflict":
            # optional (no weight by default)
            got = gen_header_vn_conflict(rng, m, prof)
            if got is None:
                continue
            return got
        if k == "illegal-edit":
            c = []
            for rt, fields in (("L", [("from_segment", "D"), ("to_orient", "-"), ("overlap", "7M")]),
                               ("C", [("to_segment", "D")]), ("E", [("sid1", "D+"), ("beg1", 1)]),
                               ("G", [("sid2", "D-")]), ("F", [("sid", "D")]), ("O", [("items", "A+")]),
                               ("U", [("items", "A")]), ("P", [("segment_names", "A+,B+")])):
                if m.count(rt):
                    for fn, val in fields:
                        c.append(["setfield", "@%s:%d" % (rt, rng.randrange(m.count(rt))), fn, val])
            for n in sorted(ids):
                c.append(["settag", n, "x!", 1])
            if not c:
                continue
            return rng.choice(c), "fail:illegal-edit"
    return None


def gen_mutation(rng, m, prof, op):
    ids = m.ids()
    named = sorted(ids)
    rts = sorted({r[0] for r in m.recs} - {"H"})

    def anytarget(prefer_named=0.6):
        if named and (rng.chance(prefer_named) or not rts):
            return rng.choice(named)
        if not rts:
            return None
        rt = rng.choice(rts)
        return "@%s:%d" % (rt, rng.randrange(m.count(rt)))
    if op == "rm":
        if not named:
            return None
        segs = m.ids_of("S")
        n = rng.choice(segs) if segs and rng.chance(0.45) else rng.choice(named)
        return ["rm", n], "rm:" + m.recs[ids[n]][0]
    if op == "rmline":
        if not rts:
            return None
        if prof.get("rm_copy") and rng.chance(prof["rm_copy"]):
            # optional (default off): remove, by instance, one of several lines with the same text
            seen, twins = {}, []
            for r in m.recs:
                k = (r[0], norm_rec(r, m.v))
                seen[k] = seen.get(k, 0) + 1
            for rt in rts:
                rs = [r for r in m.recs if r[0] == rt]
                twins += [(rt, j) for j, r in enumerate(rs) if seen[(rt, norm_rec(r, m.v))] > 1]
            if twins:
                rt, j = rng.choice(twins)
                return ["rmline", rt, j], "rmline:%s:copy" % rt
        rt = rng.choice(rts)
        return ["rmline", rt, rng.randrange(m.count(rt))], "rmline:" + rt
    if op == "disconnect":
        t = anytarget()
        if t is None:
            return None
        i = m.find(t)
        return ["disconnect", t], "disconnect:" + m.recs[i][0]
    if op == "dropid":
        # optional (no weight by default): a line loses its identifier while connected - the ID tag of an L/C line is
        # deleted (three spellings), the name of an E/G/O/U line is set to the placeholder
        c = [n for n in named if m.recs[ids[n]][0] in "LCEGOU"]
        if not c:
            return None
        n = rng.choice(c)
        rt = m.recs[ids[n]][0]
        if rt in "LC":
            return rng.choice([["deltag", n, "ID"], ["settag", n, "ID", None], ["setfield", n, "name", None]]), "dropid:" + rt
        return ["rename", n, "*"], "dropid:" + rt
    if op == "giveid":
        # optional (no weight by default): line.set("ID", n) on a connected L/C line, mostly one without ID tag
        c = _line_targets(rng, m, lambda r: r[0] in "LC")
        men = m.mentioned()
        free = [x for x in EDGE_IDS + FRESH if x not in ids and x not in men]
        if not c or not free:
            return None
        anon = [x for x in c if rec_id(x[1], m.v) is None]
        t, r = rng.choice(anon) if anon and rng.chance(0.8) else rng.choice(c)
        return ["settag", t, "ID", rng.choice(free)], "giveid:" + r[0]
    if op == "convert":
        # optional (no weight by default): the Gfa or one of its lines is asked for its form in the other version
        other = "gfa2" if m.v == "gfa1" else "gfa1"
        how = rng.choice(["to_%s_s" % other] * 3 + ["to_%s" % other] * 2 + ["to_%s_s" % m.v])
        c = _line_targets(rng, m)
        if c and rng.chance(0.5):
            pref = [x for x in c if x[1][0] in ("LC" if m.v == "gfa1" else "E")]
            t, r = rng.choice(pref) if pref and rng.chance(0.85 if m.v == "gfa1" else 0.6) else rng.choice(c)
            return ["convertline", t, how], "convert:" + r[0]
        return ["convert", how], "convert:gfa"
    if op == "rename":
        if not named:
            return None
        a = rng.choice(named)
        rt = m.recs[ids[a]][0]
        if rt in "EGOU" and rng.chance(prof["rename_star"]):
            return ["rename", a, "*"], "rename-star:" + rt
        if rt in "SP" and rng.chance(prof["rename_star"] * 0.5):
            # not optional: must be refused at every level (the line would be stored as if it had no name)
            return ["rename", a, "*"], "rename-star:" + rt
        men = m.mentioned()
        free = [x for x in FRESH if x not in ids and x not in men]
        if not free:
            return None
        return ["rename", a, rng.choice(free)], "rename:" + rt
    if op == "retag":
        # optional (no weight by default): remove a tag, then set it to a value of another type
        c = [(t, x) for t, r in _line_targets(rng, m) for x in rec_tags(r, m.v) if x[:2] in ("xx", "yy") and x[3] in "iZ"]
        out = []
        if c:
            t, x = rng.choice(c)
            tag, old = x[:2], x[3]
        else:
            c = _line_targets(rng, m)
            if not c:
                return None
            t = rng.choice(c)[0]
            tag, old = rng.choice([("xx", "i"), ("xx", "i"), ("yy", "Z")])
            out.append((["settag", t, tag, rng.randint(1, 9) if old == "i" else "w%d" % rng.randint(1, 9)], "settag"))
        if rng.chance(prof.get("retag_setnone", 0.0)):
            out.append((["settag", t, tag, None], "retag:setnone"))
        else:
            out.append((["deltag", t, tag], "retag:del"))
        new = rng.choice(["w%d" % rng.randint(1, 9), "12", "7"]) if old == "i" else rng.randint(1, 9)
        out.append((["settag", t, tag, new], "retag:set:" + ("Z" if old == "i" else "i")))
        return out
    if op == "settag":
        t = anytarget()
        if t is None:
            return None
        if rng.chance(0.7):
            return ["settag", t, "xx", rng.randint(1, 9)], "settag"
        return ["settag", t, "yy", "w%d" % rng.randint(1, 9)], "settag"
    if op == "deltag":
        tagged = [rec_id(r, m.v) for r in m.recs if rec_tags(r, m.v) and rec_id(r, m.v) and r[0] not in "H#"]
        t = rng.choice(tagged) if tagged and rng.chance(0.8) else anytarget()
        if t is None:
            return None
        return ["deltag", t, rng.choice(["xx", "xx", "yy"])], "deltag"
    return None


def _closing_steps(rng, m):
    """additions that define what is still only mentioned"""
    out = []
    v = m.v
    for _round in range(3):
        ids = m.ids()
        todo = []
        for r in m.recs:
            for n in mentions(r, v):
                if n not in ids and n not in todo:
                    todo.append(n)
        new = []
        for n in todo:
            if n in SEGS or n in INTSEGS or n in FRESH:
                new.append("S\t%s\t*" % n if v == "gfa1" else "S\t%s\t10\t*" % n)
            elif n in EDGE_IDS and v == "gfa2":
                new.append("E\t%s\t%s+\t%s-\t5\t10$\t5\t10$\t*" % (n, rng.choice(SEGS), rng.choice(SEGS)))
            elif n in GAP_IDS and v == "gfa2":
                new.append("G\t%s\t%s+\t%s-\t5\t*" % (n, rng.choice(SEGS), rng.choice(SEGS)))
            elif n in O_IDS and v == "gfa2":
                new.append("O\t%s\t%s+" % (n, rng.choice(SEGS)))
            elif n in U_IDS and v == "gfa2":
                new.append("U\t%s\t%s" % (n, rng.choice(SEGS)))
        if v == "gfa1":
            for r in m.recs:
                if r[0] == "P":
                    for st in m.path_steps(r):
                        if not m.links_matching(*st):
                            t = "L\t%s\t%s\t%s\t%s\t%s" % st
                            if t not in new:
                                new.append(t)
        if not new:
            break
        rng.shuffle(new)
        for t in new:
            if m.add(t) in ("ok", "noop"):
                out.append(t)
    return out


# calls that the library refuses at the validation level they are generated for, but that the text model would apply
NOAPPLY = {"fail:header-dt", "fail:rename-invalid", "fail:path-short-overlaps", "fail:tag-value", "fail:header-vn-conflict",
           "fail:placeholder-def-bad-positions"}


def gen_history(rng, v, nsteps, prof, max_total=None):
    m = TextModel(v)
    hist, labels = [], []
    nbuild = max(2, int(nsteps * rng.choice([0.3, 0.4, 0.5])))
    if prof.get("header_first") and rng.chance(prof["header_first"]):
        for step, lab in gen_header_prelude(rng, m, prof):
            hist.append(step); labels.append(lab)
    for k in range(nsteps):
        got = None
        if rng.chance(prof["p_fail"]) and k > 0:
            got = gen_fail(rng, m, prof)
        if got is None:
            op = "add" if k < nbuild and rng.chance(0.85) else wchoice(rng, prof["ops"])
            if op == "add":
                g = gen_add(rng, m, prof)
                got = (["add", g[0]], g[1]) if g else None
            else:
                got = gen_mutation(rng, m, prof, op)
            if got is None:
                g = gen_add(rng, m, prof)
                got = (["add", g[0]], g[1]) if g else (["add", "# filler"], "add:#")
        for step, lab in (got if isinstance(got, list) else [got]):
            hist.append(step); labels.append(lab)
            if lab not in NOAPPLY:
                m.apply(step)
    if rng.chance(prof["close"]):
        for t in _closing_steps(rng, m):
            if max_total is not None and len(hist) >= max_total:
                break
            hist.append(["add", t]); labels.append("add:%s:closing" % t[0])
    return hist, labels


def gen_case(rng, tier, prof, p_unknown=0.0, vlevels=(1,)):
    flavour = rng.choice(["gfa1", "gfa2"])
    vlevel = rng.choice(list(vlevels))
    if vlevel == 0:
        # level 0 = "no validation": what malformed input does there is not the subject of these properties
        prof = profile(**{k: v for k, v in prof.items() if k not in ("ops", "fails")})
        prof["ops"] = dict(prof["ops"])
        prof["fails"] = dict(prof["fails"], malformed=0, **{"empty-line": 0})
    prof = dict(prof, _vlevel=vlevel)
    maxs = 25 if tier == "quick" else 60
    nsteps = rng.randint(4, maxs - 5) if rng.chance(0.5) else rng.randint(4, 14)
    hist, labels = gen_history(rng, flavour, nsteps, prof, max_total=maxs)
    version = None if rng.chance(p_unknown) else flavour
    if p_unknown > 0 and labels and labels[0].endswith(":prelude"):
        version = None  # the prelude (profile entry header_first) is meant for a Gfa of unknown version
    return {"version": version, "flavour": flavour, "vlevel": vlevel, "hist": hist, "labels": labels}


# ------------------------------------------------------------------------------------------------
# exhaustive short histories over a 7-step alphabet per version (used by c02 / c05)
# ------------------------------------------------------------------------------------------------
EX_ALPHABET = {
    "gfa1": [["add", "S\tA\t*"], ["add", "S\tB\t*"], ["add", "L\tA\t+\tB\t+\t*"], ["add", "L\tA\t+\tB\t-\t*"],
             ["add", "P\tp1\tA+,B+\t*"], ["rm", "A"], ["rename", "A", "Z"]],
    "gfa2": [["add", "S\tA\t10\t*"], ["add", "E\te1\tA+\tB+\t5\t10$\t0\t5\t*"], ["add", "G\tg1\tA+\tB-\t5\t*"],
             ["add", "O\to1\tA+ e1+"], ["add", "U\tu1\tA g1 o1"], ["rm", "A"], ["rm", "e1"]],
}


def ex_count(maxlen):
    return 2 * sum(7 ** k for k in range(1, maxlen + 1))


def ex_case(i, maxlen):
    per = ex_count(maxlen) // 2
    v = "gfa1" if i < per else "gfa2"
    j = i % per
    n = 1
    while j >= 7 ** n:
        j -= 7 ** n
        n += 1
    digits = []
    for _ in range(n):
        digits.append(j % 7); j //= 7
    hist = [list(EX_ALPHABET[v][d]) for d in reversed(digits)]
    return {"version": v, "flavour": v, "vlevel": 1, "hist": hist, "labels": ["ex:" + s[0] for s in hist]}


# ------------------------------------------------------------------------------------------------
# real library side
# ------------------------------------------------------------------------------------------------
def new_gfa(case):
    gfapy = lib.import_gfapy()
    return gfapy.Gfa(version=case["version"], vlevel=case.get("vlevel", 1))


def real_lines(g, rt):
    return [l for l in g.lines if l.record_type == rt and not l.virtual]


def resolve(g, target):
    """the line a step targets (None if there is none); read-only"""
    if isinstance(target, str) and target.startswith("@"):
        rt, idx = target[1:].split(":")
        coll = real_lines(g, rt)
        return coll[int(idx) % len(coll)] if coll else None
    return g.line(target)


CONVERSIONS = ("to_gfa1_s", "to_gfa2_s", "to_gfa1", "to_gfa2")


def step_target(step):
    if step[0] in ("add", "convert"):
        return None
    if step[0] == "rmline":
        return "@%s:%d" % (step[1], step[2])
    return step[1]


def apply_step(g, step, line=None):
    """Run one step on the real Gfa -> ('ok', v) | ('gerr', cls) | ('foreign', cls) | ('skip', why).
    `line`: the already resolved target (as returned by resolve) to avoid a second lookup."""
    op = step[0]
    if op == "add":
        return lib.outcome(g.add_line, step[1])
    if op == "addline0":
        gfapy = lib.import_gfapy()
        return lib.outcome(lambda: g.add_line(gfapy.Line(step[1], vlevel=0, version=g.version)))
    if op == "rm":
        return lib.outcome(g.rm, step[1])
    if op == "convert":
        if step[1] not in CONVERSIONS:
            return ("skip", "unknown-conversion")
        return lib.outcome(getattr(g, step[1]))
    if line is None:
        r = lib.outcome(resolve, g, step_target(step))
        if r[0] != "ok":
            return r
        line = r[1]
    if line is None:
        return ("skip", "no-such-line")
    if op == "rmline":
        return lib.outcome(g.rm, line)
    if op == "disconnect":
        return lib.outcome(line.disconnect)
    if op == "rename":
        return lib.outcome(setattr, line, "name", step[2])
    if op == "settag":
        return lib.outcome(line.set, step[2], step[3])
    if op == "deltag":
        return lib.outcome(line.delete, step[2])
    if op == "setfield":
        return lib.outcome(line.set, step[2], step[3])
    if op == "convertline":
        if step[2] not in CONVERSIONS:
            return ("skip", "unknown-conversion")
        return lib.outcome(getattr(line, step[2]))
    return ("skip", "unknown-op")


def has_virtual(g):
    return any(l.virtual for l in g.lines)


def text_lines(g):
    s = str(g)
    return s.split("\n") if s else []


def step_kind(step):
    """short stable name of a step for signatures: add-S, rm, rename, ..."""
    if step[0] in ("add", "addline0"):
        t = step[1]
        return ("add-" if step[0] == "add" else "addobj-") + (t[0] if t and (t[0].isalpha() or t[0] == "#") else "x")
    if step[0] == "rmline":
        return "rmline-" + step[1]
    return step[0]


# ------------------------------------------------------------------------------------------------
# tags / shrinking shared by the four modules
# ------------------------------------------------------------------------------------------------
def case_tags(case):
    t = {"flavour:" + case["flavour"], "version:" + str(case["version"]), "vlevel:%d" % case.get("vlevel", 1)}
    for lab in case["labels"]:
        parts = lab.split(":")
        if parts[0] == "fail":
            t.add("fail:" + parts[1])
        elif parts[0] == "ex":
            t.add("exhaustive")
        elif parts[0] == "add":
            t.add("add:" + parts[1])
            for p in parts[2:]:
                t.add("add-" + p)
        else:
            t.add(parts[0])
    n = len(case["hist"])
    t.add("len:%s" % ("<=8" if n <= 8 else "<=16" if n <= 16 else "<=30" if n <= 30 else ">30"))
    return sorted(t)


def shrink_history(case, failure, oracle, signature, max_calls=120):
    """ddmin over the steps of the history, keeping a failure with the same signature"""
    sig = signature(case, failure)
    hist, labels = case["hist"], case["labels"]

    def mk(idx):
        return dict(case, hist=[hist[i] for i in idx], labels=[labels[i] for i in idx])

    def test(idx):
        c = mk(idx)
        try:
            return any(signature(c, f) == sig for f in (oracle(c) or []))
        except Exception:
            return False
    idx = list(range(len(hist)))
    calls = 0
    n = 2
    while len(idx) >= 2 and calls < max_calls:
        chunk = max(1, len(idx) // n)
        reduced = False
        for start in range(0, len(idx), chunk):
            cand = idx[:start] + idx[start + chunk:]
            calls += 1
            if cand and test(cand):
                idx = cand; n = max(n - 1, 2); reduced = True
                break
            if calls >= max_calls:
                break
        if not reduced:
            if chunk == 1:
                break
            n = min(n * 2, len(idx))
    return mk(idx)


def script(case, upto=None):
    """a python script replaying the history (for reports)"""
    out = ["import gfapy", "g = gfapy.Gfa(version=%r, vlevel=%d)" % (case["version"], case.get("vlevel", 1))]
    for s in case["hist"][:upto]:
        if s[0] == "add":
            out.append("g.add_line(%r)" % s[1])
        elif s[0] == "rm":
            out.append("g.rm(%r)" % s[1])
        else:
            out.append("# %r" % (s,))
    return "\n".join(out)
