"""C09 — identifiers are unique; lookup and renaming stay coherent.

Oracle on the real library only, after every step of a history (and on an exhaustive matrix: every identified
record type x every kind of target identifier x {add_line, rename} on a fixed base graph per GFA version; the
identifier of an *empty* segment - "S N 0 *" / "S N * LN:i:0", defined before or after the line that mentions it - is
one kind of target: whether an identifier is in use may not depend on what the line that carries it holds).
Random histories draw the length of a segment from {0, 0, 1, 4, 10, 10, 10} (profile entry seg_lengths of _hist), so
that lines of every content, the boundary ones included, are what a duplicate / a rename / a lookup runs into.

A GFA1 link / containment carries its identifier in a tag, so it can get one while it is in the Gfa.  Both ways gfapy
offers are generated (exhaustive cells on the base graph, and one random history in five - the other four are generated
exactly as before): the user's  line.set("ID", n)  on a connected L/C line, without ID tag so far or with one, n fresh
or the identifier of another line (steps ["settag", t, "ID", n]; the oracle treats such a call as a rename), and
gfapy's own assignment: asking a GFA1 Gfa, or one of its L/C lines, for its GFA2 form (to_gfa2_s / to_gfa2; steps
["convert", how] / ["convertline", t, how], also generated for the other directions) gives every converted L/C line
without ID tag the identifier unused_name().  The conversion is a query; whether it succeeds is not looked at, but
"at all times" includes the time after it: the invariants below are checked after every such call (a failed
conversion has usually named the line already).  The same histories hold GFA1 links that arrive for a path step so far
covered by a placeholder link only and carry the identifier of another line (an addition to an identifier in use that
replaces a placeholder instead of being registered afresh).

A line may also reach the Gfa as an *object* the caller built, and a reference field of a line that is not yet in a Gfa
may be assigned in its string form (line.sid2 = "x+", line.items = "a b x", line.segment_names = "a+,x+"; the string is
parsed when the field is next read).  One random history in five (gen_case index i % 5 == 2: the base history is generated
exactly as before, then one or two calls are inserted at random positions, _hist_extra.inject_listed_identifiers) holds
lines that list their own, fresh, identifier - "P x A+,x+ *", "O x A+ x+", "U x A x", "E x A+ x- ...", "G x x+ A- ...",
the identifier first, in the middle or last - and (GFA1) paths whose third or fourth segment name is the identifier of a
stored path / link / containment; 70% of these calls are "addset" steps (see _hist_extra): gfapy.Line(text) without the
offending reference, the reference field then assigned the string that holds it, then g.add_line(line); the rest is
plain text.  15% of the addset steps assign an ordinary value (a legal line with a fresh identifier).  A line that lists
itself cannot be stored without a second line - the placeholder of the item - carrying its identifier; whether the call
raises is not demanded here (the identifier is not in use before the call), the invariants after it are.  An addset step
whose resulting text carries an identifier in use is held to the duplicates clause like add_line of that text.

Checked after every step:

  * uniqueness  g.names has no duplicate and holds only strings; no two lines of str(g) carry the same written
                identifier (S/P: name; E/G/O/U: non-'*' id; L/C: ID:Z tag) - a defined line next to a placeholder
                of the same identifier included; every written identifier is in names
  * lookup      for every n in names: g.line(n) is a line whose written identifier is n, g.try_get_line(n) is the
                same object, g.segment(n) is that object iff it is a segment (else None);
                g.line(<unused identifier>) is None and g.try_get_line of it raises NotFoundError;
                every line that a line of the Gfa mentions in a reference field (from/to segment, sid, items, path
                segments - placeholders of not yet defined lines included) and that carries an identifier is the
                very object g.line(identifier) returns
  * duplicates  add_line of a well-formed line whose identifier is in use, or renaming to an identifier in use by
                another line, raises gfapy.NotUniqueError (exactly that class) - except the documented merges:
                U over U / O over O with the same group id (add and rename), and an L line whose end pair equals
                that of a stored link or of its complement.
                line.set("ID", n) on an L/C line is a rename in this sense (to a first identifier, if it had none).
                A rename to an identifier that g.line() answers with the placeholder of a mentioned, not yet defined
                line must raise NotUniqueError as well (a lookup answers "nothing for an identifier not in use", so
                an identifier it answers is in use; a rename re-registers, it does not define the mentioned line)
  * rename      after a successful rename to a fresh identifier the lines of str(g) are the old lines with the
                identifier substituted at record positions (own id, segment/item mentions, ID tag), nothing else
  * fresh names g.unused_name() is not in names and is not found by g.line

Failures seen after a call that raised are prefixed "after-failed-step-" (state damage by a rejected call is
C08's subject) and end the history.

Signatures: add-duplicate-accepted-<RT>, rename-duplicate-accepted, add|rename-duplicate-raises-<Class>,
rename-onto-placeholder-accepted, rename-onto-placeholder-raises-<Class>,
<invariant>-after-<op> with invariant in {names-holds-non-string, names-duplicate, identifier-carried-by-two-lines,
identifier-carried-by-line-and-placeholder, mentioned-line-not-found-under-identifier,
identifier-missing-from-names, lookup-misses-name, lookup-returns-wrong-line, try-get-line-disagrees,
segment-lookup-disagrees, segment-lookup-returns-non-segment, lookup-finds-unused-identifier,
try-get-line-of-unused-identifier, unused-name-in-use, rename-text-wrong, observation-raises}, foreign-exception;
op in {add-<RT>, addset-<RT>, rm, rmline-<RT>, disconnect, rename, settag (set("ID", n) included), deltag, convert,
convertline}.
On the pinned tree: rename-duplicate-accepted = DESIGN 7 #3; add-duplicate-accepted-O/U, add-duplicate-raises-TypeError
and foreign-exception (add-O/U TypeError) = #4; lookup-misses-name-after-add-L/C, add-duplicate-accepted-L/C,
names-duplicate-after-add-L = #20.

NOT CHECKED:
  * *adding* a line whose identifier is so far only mentioned (a placeholder exists) is the definition of that
    line: neither required to raise nor to succeed here (a definition of an unsuitable type is C08's subject); only the
    invariants are checked after it.  Rename text is not compared when the new name is mentioned somewhere.
  * what the documented merges produce (content of the merged group): C05/C17.
  * renaming to '*' (making a line anonymous) is generated for E/G/O/U but only the invariants are checked after it.
  * *_names properties other than names/segment lookup agreement (edge_names etc. are unions that build names).
  * external identifiers of F lines (not part of the namespace).
  * the identifier given by unused_name() is only checked for freshness, not for any particular value.
  * what a conversion returns and whether it raises (also a non-gfapy exception): other properties; only the state
    of the Gfa it was asked of is looked at.
"""
from harness import lib
from harness.props import _hist as H
from harness.props import _hist_extra as X

ID = "C09"
RULE = ("exhaustive: on a base graph per version (3 segments incl. an integer-looking one, an ID-tagged link and "
        "containment / edge, gap, path, set), every identified record type x every target identifier (fresh, fresh "
        "integer, '*', the identifier of each other line incl. same type) x {add_line, rename}, and - after lines that "
        "mention an undefined segment V and (GFA2) an undefined set item W - every identified record type x {V, W} x "
        "{add_line, rename}, and - after an empty segment N (length 0) that an edge / a link mentions, defined before "
        "resp. after that mention - every identified record type x N x {add_line, rename}, and (GFA1) set('ID', n) on a "
        "stored link / containment without ID tag x every target identifier, and to_gfa2_s / to_gfa2 of a convertible "
        "graph / of its ID-less link / of its ID-less containment, twice (223 cells); random: "
        "histories of 4-25 steps (60 thorough), segments of length 0 / 1 / 4 / 10 (0: 2 in 7), "
        "with 35% calls aimed at identifiers in use (same type, other type, "
        "rename onto existing, rename onto an identifier that is only mentioned), renames to fresh and integer-looking names, forward references, removals in "
        "between; one history in five also with set('ID', n) on connected L/C lines (fresh n, n in use), conversions of "
        "the Gfa or of a line to the other version (GFA1 -> GFA2 names the ID-less L/C lines), and links that replace "
        "the placeholder link of a path step while carrying an identifier in use; one history in five with one or two "
        "inserted lines that list their own fresh identifier (P / O / U / E / G) or (GFA1) paths whose third or fourth "
        "segment name is the identifier of a path / link / containment, 70% of them added as a line object whose "
        "reference field (sid1 / sid2 / items / segment_names) was assigned in string form after construction (15% of "
        "those with an ordinary value). Non-trivial: at least one rename, "
        "set('ID'), conversion, one addition aimed at an identifier in use or one line that lists itself. Distinct by "
        "case hash.")

# one history in five (gen_case index i % 5 == 4; the others are generated exactly as before): PROF plus identifiers
# given to connected L/C lines by set("ID", n), conversions to the other version, late links with a borrowed identifier
PROF_ID = H.profile(p_fail=0.35, close=0.4, rename_star=0.08,
                    ops={"add": 45, "rm": 8, "rmline": 3, "disconnect": 3, "rename": 16, "settag": 3, "deltag": 1,
                         "giveid": 14, "convert": 12},
                    fails={"dup-same": 5, "dup-other": 6, "dup-link": 1, "version": 0.5, "malformed": 0.5, "header": 0,
                           "grouptag": 0.5, "rename-existing": 5, "rm-missing": 0.5, "illegal-edit": 0, "empty-line": 0,
                           "rename-placeholder": 4, "giveid-existing": 7, "dup-link-over-placeholder": 4},
                    seg_lengths=[0, 0, 1, 4, 10, 10, 10])
PROF = H.profile(p_fail=0.35, close=0.4, rename_star=0.08,
                 ops={"add": 45, "rm": 8, "rmline": 3, "disconnect": 3, "rename": 24, "settag": 3, "deltag": 1},
                 fails={"dup-same": 5, "dup-other": 6, "dup-link": 1, "version": 0.5, "malformed": 0.5, "header": 0,
                        "grouptag": 0.5, "rename-existing": 6, "rm-missing": 0.5, "illegal-edit": 0, "empty-line": 0,
                        "rename-placeholder": 5},
                 seg_lengths=[0, 0, 1, 4, 10, 10, 10])
CASE_TIMEOUT = 60

BASE = {
    "gfa1": ["S\tA\t*", "S\tB\t*", "S\t1\t*", "L\tA\t+\tB\t+\t*\tID:Z:e1", "C\tA\t+\tB\t-\t0\t*\tID:Z:e2",
             "P\tp1\tA+,B+\t*"],
    "gfa2": ["S\tA\t10\t*", "S\tB\t10\t*", "S\t1\t10\t*", "E\te1\tA+\tB+\t5\t10$\t0\t5\t*", "G\tg1\tA+\tB-\t5\t*",
             "O\to1\tA+ e1+ B+", "U\tu1\tA g1"],
}
OWN = {"gfa1": {"S": "A", "L": "e1", "C": "e2", "P": "p1"},
       "gfa2": {"S": "A", "E": "e1", "G": "g1", "O": "o1", "U": "u1"}}


# lines that mention identifiers nobody defines: V stands for a segment (placeholder of known type), W is listed by a
# set (placeholder of unknown type, GFA2 only)
MENTION = {"gfa1": ["L\tB\t+\tV\t-\t*"], "gfa2": ["E\t*\tB+\tV-\t0\t5\t0\t5\t*", "U\tu9\tB W"]}
MENTIONED = {"gfa1": ["V"], "gfa2": ["V", "W"]}


# an empty segment N (length 0 is legal) and a line that mentions it; "-late": the mention comes first, so that the
# segment takes the place of a placeholder
EMPTY = {"gfa1": ["S\tN\t*\tLN:i:0", "L\tB\t-\tN\t+\t*"],
         "gfa2": ["S\tN\t0\t*", "E\t*\tB-\tN+\t0\t5\t0\t0$\t*"]}


# (GFA1) a link and a containment without ID tag, added after BASE: the line that set("ID", n) gives an identifier to
ANON = {"L": "L\tB\t-\t1\t+\t*", "C": "C\t1\t+\tB\t+\t0\t*"}

# (GFA1) a graph that can be converted to GFA2 (lengths, overlaps and positions known) and whose link and containment
# carry no ID tag: gfapy gives them one (unused_name()) when they are converted
CONV = ["S\tA\t*\tLN:i:10", "S\tB\t*\tLN:i:10", "S\t1\t*\tLN:i:10", "L\tA\t+\tB\t+\t4M", "C\tA\t+\tB\t-\t2\t3M",
        "P\tp1\tA+,B+\t4M"]


def mk_line(v, rt, n):
    if rt == "S":
        return "S\t%s\t*" % n if v == "gfa1" else "S\t%s\t10\t*" % n
    if rt == "L":
        return "L\tA\t-\tB\t+\t4M" + ("" if n == "*" else "\tID:Z:%s" % n)
    if rt == "C":
        return "C\tB\t+\tA\t+\t0\t*" + ("" if n == "*" else "\tID:Z:%s" % n)
    if rt == "P":
        return "P\t%s\tA+,B+\t*" % n
    if rt == "E":
        return "E\t%s\tA-\tB+\t0\t5\t0\t5\t*" % n
    if rt == "G":
        return "G\t%s\tB+\tA+\t5\t*" % n
    if rt == "O":
        return "O\t%s\tB+ A-" % n
    if rt == "U":
        return "U\t%s\tB" % n
    raise ValueError(rt)


def _cells():
    out = []
    for v in ("gfa1", "gfa2"):
        existing = ["1"] + [OWN[v][rt] for rt in H.IDENTIFIED[v]]
        for rt in H.IDENTIFIED[v]:
            for n in ["Z", "7", "*"] + existing:
                if n == "*" and rt in "SP":
                    continue
                out.append((v, "add", rt, n))
                if n != OWN[v][rt]:
                    out.append((v, "rename", rt, n))
    for v in ("gfa1", "gfa2"):
        for rt in H.IDENTIFIED[v]:
            for n in MENTIONED[v]:
                out.append((v, "rename-mentioned", rt, n))
                out.append((v, "add-mentioned", rt, n))
    for v in ("gfa1", "gfa2"):
        for rt in H.IDENTIFIED[v]:
            for when in ("empty", "empty-late"):
                out.append((v, "add-" + when, rt, "N"))
                out.append((v, "rename-" + when, rt, "N"))
    for rt in ("L", "C"):
        for n in ["Z", "7", "1"] + [OWN["gfa1"][x] for x in H.IDENTIFIED["gfa1"]]:
            out.append(("gfa1", "giveid", rt, n))
    for how in ("to_gfa2_s", "to_gfa2"):
        for rt in ("gfa", "L", "C"):
            out.append(("gfa1", "convert", rt, how))
    return out


CELLS = _cells()


def n_exhaustive(tier):
    return len(CELLS)


def exhaustive_case(i, tier):
    v, op, rt, n = CELLS[i]
    if op == "giveid":
        lines = BASE[v] + [ANON[rt]]
        # the line without ID tag is the second of its type in every order gfapy lists them (see resolve in _hist)
        return {"version": v, "flavour": v, "vlevel": 1, "hist": [["add", t] for t in lines] + [["settag", "@%s:1" % rt, "ID", n]],
                "labels": ["add:%s" % t[0] for t in lines] + ["cell:%s:%s:%s" % (op, rt, n)]}
    if op == "convert":
        step = ["convert", n] if rt == "gfa" else ["convertline", "@%s:0" % rt, n]
        return {"version": v, "flavour": v, "vlevel": 1, "hist": [["add", t] for t in CONV] + [step, list(step)],
                "labels": ["add:%s" % t[0] for t in CONV] + ["cell:%s:%s:%s" % (op, rt, n), "convert:again"]}
    hist = [["add", t] for t in BASE[v]]
    labels = ["add:%s" % t[0] for t in BASE[v]]
    if op.endswith("-mentioned"):
        hist += [["add", t] for t in MENTION[v]]
        labels += ["add:%s" % t[0] for t in MENTION[v]]
    if op.endswith("-empty") or op.endswith("-empty-late"):
        extra = EMPTY[v] if op.endswith("-empty") else EMPTY[v][::-1]
        hist += [["add", t] for t in extra]
        labels += ["add:%s" % t[0] for t in extra]
    if op.startswith("add"):
        hist.append(["add", mk_line(v, rt, n)]); labels.append("cell:%s:%s:%s" % (op, rt, n))
    else:
        hist.append(["rename", OWN[v][rt], n]); labels.append("cell:%s:%s:%s" % (op, rt, n))
    return {"version": v, "flavour": v, "vlevel": 1, "hist": hist, "labels": labels}


def budget(tier):
    return 1500 if tier == "quick" else 60000


def gen_case(rng, tier, i):
    case = H.gen_case(rng, tier, PROF_ID if i % 5 == 4 else PROF, p_unknown=0.0, vlevels=(1, 1, 1, 1, 2, 3, 0))
    if i % 5 == 2:
        # the base history is what it always was; lines that list their own identifier (most of them built as objects
        # with the reference field assigned in string form) are inserted into it
        case = X.inject_listed_identifiers(rng, case, p_object=0.7, p_second=0.3, control=0.15)
    return case


def nontrivial(case):
    return any(s[0] == "rename" or lab.startswith("fail:dup") or lab.startswith("cell:") or
               lab.startswith("giveid") or lab.startswith("fail:giveid") or lab.startswith("convert") or
               lab.startswith("fail:self-mention")
               for s, lab in zip(case["hist"], case["labels"]))


def tags(case):
    t = [x for x in H.case_tags(case) if not x.startswith("cell")]
    for lab in case["labels"]:
        if lab.startswith("cell:"):
            p = lab.split(":")
            t.append("cell:%s:%s" % (p[1], p[2]))
    return sorted(set(t))


def signature(case, failure):
    return failure.split(":")[0]


# ------------------------------------------------------------------------------------------ observation
def ids_in_text(lines, v):
    """written identifier -> list of (record type, is_virtual) of the lines that carry it"""
    d = {}
    for t in lines:
        f = H.split_rec(t)
        n = H.rec_id(f, v)
        if n is None:
            continue
        virt = (H.VIRTUAL_MARK in t) or f[0] == H.UNKNOWN_RT
        d.setdefault(n, []).append((f[0], virt))
    return d


def carrier_text(lines, v, n):
    """the first line of the text that carries identifier n (for messages)"""
    for t in lines:
        if H.written_id(t, v) == n:
            return t
    return None


def link_pairs(lines):
    s = set()
    for t in lines:
        f = t.split("\t")
        if f[0] == "L" and len(f) >= 6 and H.VIRTUAL_MARK not in t:
            s.add(tuple(f[1:5])); s.add(tuple(H.link_compl(f)[1:5]))
    return s


def invariants(g, v):
    gfapy = lib.import_gfapy()
    F = []
    names = list(g.names)
    if any(not isinstance(n, str) for n in names):
        F.append("names-holds-non-string: %r" % (names,))
        names = [n for n in names if isinstance(n, str)]
    lines = H.text_lines(g)
    ids = ids_in_text(lines, v)
    dup = sorted({n for n in names if names.count(n) > 1 and not any(virt for _, virt in ids.get(n, []))})
    if dup:
        F.append("names-duplicate: %r in %r" % (dup, names))
    for n, carriers in sorted(ids.items()):
        real = [c for c in carriers if not c[1]]
        if len(carriers) > 1 and not any(c[1] for c in carriers):
            F.append("identifier-carried-by-two-lines: %r by %r" % (n, [c[0] for c in carriers]))
        elif real and len(real) < len(carriers):
            F.append("identifier-carried-by-line-and-placeholder: %r by %r" % (n, [c[0] for c in carriers]))
        if real and n not in names:
            F.append("identifier-missing-from-names: %r (%s) not in %r" % (n, real[0][0], names))
    for n in sorted(set(names)):
        l = g.line(n)
        if l is None:
            F.append("lookup-misses-name: line(%r) is None, names %r" % (n, names))
            continue
        if H.written_id(str(l), v) != n:
            F.append("lookup-returns-wrong-line: line(%r) is %r" % (n, str(l)))
            continue
        r = lib.outcome(g.try_get_line, n)
        if r[0] != "ok" or r[1] is not l:
            F.append("try-get-line-disagrees: %r -> %r" % (n, r))
        s = g.segment(n)
        if l.record_type == "S":
            if s is not l:
                F.append("segment-lookup-disagrees: segment(%r) is %r" % (n, None if s is None else str(s)))
        elif s is not None:
            F.append("segment-lookup-returns-non-segment: segment(%r) is %r" % (n, str(s)))
    for n in H.MISSING[:1]:
        if n not in names and n not in ids:
            if g.line(n) is not None:
                F.append("lookup-finds-unused-identifier: line(%r) is %r" % (n, str(g.line(n))))
            r = lib.outcome(g.try_get_line, n)
            if r != ("gerr", "NotFoundError"):
                F.append("try-get-line-of-unused-identifier: %r" % (r,))
    u = g.unused_name()
    if u in names or u in ids or g.line(u) is not None:
        F.append("unused-name-in-use: %r, names %r" % (u, names))
    # every line that a line of the Gfa mentions (placeholders included) is what a lookup of its identifier returns
    for l in g.lines:
        if l.record_type == "H":
            continue
        for how, t in mentioned_lines(gfapy, l):
            if not isinstance(t, gfapy.Line) or t.record_type not in NAMED_RT:
                continue
            n = t.name
            if not isinstance(n, str) or gfapy.is_placeholder(n):
                continue
            y = g.line(n)
            if y is not t:
                F.append("mentioned-line-not-found-under-identifier: %r mentions (%s) %r, but line(%r) is %r" %
                         (str(l), how, str(t), n, None if y is None else str(y)))
                return F
    return F


NAMED_RT = ("S", "P", "E", "G", "O", "U", "\n")


def _unwrap(gfapy, x):
    return x.line if isinstance(x, gfapy.OrientedLine) else x


def mentioned_lines(gfapy, l):
    """[(field, line)] the lines a line mentions in its reference fields, through public attributes"""
    rt = l.record_type
    if rt in ("L", "C"):
        return [("from_segment", l.from_segment), ("to_segment", l.to_segment)]
    if rt in ("E", "G"):
        return [("sid1", _unwrap(gfapy, l.sid1)), ("sid2", _unwrap(gfapy, l.sid2))]
    if rt == "F":
        return [("sid", l.sid)]
    if rt in ("O", "U"):
        return [("items", _unwrap(gfapy, x)) for x in l.items]
    if rt == "P":
        return [("segment_names", _unwrap(gfapy, x)) for x in l.segment_names]
    return []


def oracle(case):
    v = case["flavour"]
    g = H.new_gfa(case)
    for k, step in enumerate(case["hist"]):
        op = step[0]
        where = "[step %d %r]" % (k, step)
        try:
            pre = H.text_lines(g)
        except Exception:
            return []
        ids = ids_in_text(pre, v)
        demand = None      # (what, rt, previous rt) when NotUniqueError is demanded
        onto_placeholder = False   # a rename to an identifier that a lookup answers with a placeholder
        merge_rename = False
        line = None
        rename_check = None
        target_id = None   # identifier this call tries to give to a line
        added = step[1] if op == "add" else X.addset_text(step) if op == "addset" else None   # text of the line added
        if added is not None and H.well_formed(added, v):
            f = H.split_rec(added)
            n = H.rec_id(f, v)
            target_id = n
            if n is not None and n in ids and not any(virt for _, virt in ids[n]):
                prt = ids[n][0][0]
                merge = f[0] in "OU" and prt == f[0]
                linkdup = f[0] == "L" and tuple(f[1:5]) in link_pairs(pre)
                if not merge and not linkdup:
                    demand = ("add", f[0], prt)
        elif op not in ("add", "addset"):
            tgt = H.step_target(step)
            if op != "rm":
                r = lib.outcome(H.resolve, g, tgt)
                line = r[1] if r[0] == "ok" else None
            setid = op == "settag" and step[2] == "ID" and isinstance(step[3], str) and line is not None and \
                line.record_type in ("L", "C")   # line.set("ID", n): the line is given the identifier n
            if (op == "rename" or setid) and line is not None and not line.virtual:
                new = step[3] if setid else step[2]
                target_id = new
                old = H.written_id(str(line), v)
                lrt = line.record_type
                if new in ids and new != old and not any(virt for _, virt in ids[new]):
                    prt = ids[new][0][0]
                    if not (lrt in "OU" and prt == lrt):
                        demand = ("rename", lrt, prt)
                    else:
                        merge_rename = True
                elif new in ids and new != old:
                    other = g.line(new)
                    onto_placeholder = other is not None and other is not line
                elif new not in ids and new != "*" and old is not None and len(ids.get(old, [])) == 1 and H.well_formed(H.join_rec(["S", new, "*"]), "gfa1"):
                    mentioned = set()
                    for t in pre:
                        mentioned.update(H.mentions(H.split_rec(t), v))
                    if new not in mentioned:
                        rename_check = (old, new)
        r = X.apply_step(g, step, line)
        if r[0] == "skip":
            continue
        F = []
        if r[0] == "foreign" and op not in ("convert", "convertline"):
            # (whether and how a conversion fails is not this property's subject; the invariants after it are)
            F.append("foreign-exception: %s raises %s %s" % (X.step_kind(step), r[1], where))
        if demand is not None:
            what, rt, prt = demand
            if r[0] == "ok":
                sig = "add-duplicate-accepted-%s" % rt if what == "add" else "rename-duplicate-accepted"
                F.append("%s: %s line takes the identifier of a stored %s line (%r) without NotUniqueError %s" %
                         (sig, rt, prt, carrier_text(pre, v, target_id), where))
            elif r[0] == "gerr" and r[1] != "NotUniqueError":
                F.append("%s-duplicate-raises-%s: %s over %s %s" % (what, r[1], rt, prt, where))
        if onto_placeholder:
            if r[0] == "ok":
                F.append("rename-onto-placeholder-accepted: %s line renamed to %r, which a lookup answered with the "
                         "placeholder of a line mentioned but not yet defined, without NotUniqueError %s" %
                         (line.record_type, target_id, where))
            elif r[0] == "gerr" and r[1] != "NotUniqueError":
                F.append("rename-onto-placeholder-raises-%s: %s %s" % (r[1], line.record_type, where))
        if F:
            return F
        failed = r[0] != "ok"
        try:
            F = invariants(g, v)
            if not F and rename_check and not failed:
                old, new = rename_check
                exp = sorted(H.norm_rec(H.subst(H.split_rec(t), v, old, new), v) for t in pre)
                got = H.norm_lines(H.text_lines(g), v)
                if got != exp:
                    a, b = list(got), list(exp)
                    for x in list(a):
                        if x in b:
                            a.remove(x); b.remove(x)
                    F.append("rename-text-wrong: %r -> %r gives %r, substitution gives %r" % (old, new, a, b))
        except Exception as e:
            if op == "rename" and step[2] == "*":
                return []  # a mentioned line made anonymous: what is written then is nobody's promise
            F = ["observation-raises: %s %r" % (e.__class__.__name__, str(e)[:150])]
        if F:
            pre_ = "after-failed-step-" if failed else ""
            f = F[0]
            head, _, rest = f.partition(":")
            return ["%s%s-after-%s:%s %s" % (pre_, head, X.step_kind(step), rest, where)]
        if merge_rename and not failed:
            return []  # documented merge of two groups by renaming: what the merged group holds is not checked here
        if op == "rename" and step[2] == "*" and not failed:
            return []  # a possibly mentioned line made anonymous: what is written from here on is nobody's promise
    return []


def shrink(case, failure):
    return H.shrink_history(case, failure, oracle, signature)
