"""C15 — segment multiplication makes faithful copies and splits the counts.

Oracle: real library only; the expectation is computed by counting records in the WRITTEN TEXT str(g) before and
after g.multiply(segment, factor, copy_names=..., distribute=..., conserve_components=False), both read by
_graphgen.parse (tab splitting, E lines classified by geometry):
  * factor k >= 2: the segment names after = names before + k-1 fresh distinct names (the requested ones if
    given); the S line of the original = its old S line with RC/FC/KC floor-divided by k; the S line of every copy
    = that line under the copy's name; for every dovetail/containment of the original to ANOTHER segment: one image
    per copy (segment name substituted, same orientations/positions/overlap/other tags, counts floor-divided) and
    the original itself with divided counts; edges are compared without their identifier (a copy cannot carry the
    identifier of the original, DESIGN 7 #29);
  * distribute L / R: the other end and the containments are copied in full; on the chosen end every link of the
    original or of a copy is an image of an original link (no link invented) and every former neighbour end is
    still linked to the original or a copy; auto / equal: the same with the end chosen by the library (at most one
    end may be thinned out); equal with no end carrying exactly k links (and no self-edge): nothing thinned out;
  * factor 1: text identical; factor 0: the S line is gone, no line mentions the segment, every line that does not
    depend on it is unchanged, nothing new; factor < 0: a gfapy.Error and text identical;
  * all lines that do not mention the segment are textually unchanged, and nothing new appears that mentions
    neither the segment nor a copy; reference closure at library level.
  * fresh identifiers: no copy carries an identifier that a line of the document before already used, as its own
    name or as a reference (`copy-name-not-fresh`).  To make this bite, 20% of the multiply cases are GRAPHS UNDER
    CONSTRUCTION (`dangling`): after the closed, valid document 1-6 more lines have arrived through add_line which
    mention segments whose S line has not arrived (legal at every validation level: gfapy keeps a placeholder) -
    GFA1: L, C, P; GFA2: E, G, F and, rarely, O/U items - and the missing names are exactly where the automatic
    copy names of the first configuration land (<name>*2, <name>*3, ...; also next to segments already named
    x*n).  The text compared is str(g) without the lines gfapy writes for its placeholders (tag
    co:Z:GFAPY_virtual_line); all the checks above apply (GFA1 links/containments to a missing segment are edges
    like any other and must be copied), and in addition the rest of the graph is untouched: every name that had
    no S line before still has none, and Gfa.segment(name) is still a placeholder (`missing-segment-materialised`).
    An identifier that only a GROUP (O/U) lists as an item of a line that has not arrived has its own signature
    `copy-name-taken-from-group-item` (the unchanged library fails there: Gfa.names does not list those
    placeholders, the copy joins the group and the awaited line is refused later).
  * apply_copy_numbers(conserve_components=False) with a cn tag on every segment: per segment cn copies in total
    (0: removed, 1: S line unchanged), copies identified by the documented origin tag `or`; every edge of the
    result maps back (copy -> origin) onto an edge of the input (no link invented).

NOT CHECKED:
  * self-edges of the multiplied segment (circular self-link, hairpin, self-containment): the property does not
    say whether the copy of s->s is c->c or c->s; only "no edge invented" and "every copy has an image" are checked.
  * how the automatic names look (only: fresh, distinct, k-1 of them); requested names that clash with existing
    identifiers or are of the wrong number.
  * conserve_components=True with factor 0 (documentation and property disagree); track_origin/extended options
    (apart from the `or` tag used to read apply_copy_numbers' result); which end auto/equal choose.
  * internal alignments, gaps, fragments, paths and groups that mention the multiplied segment (the property
    speaks of dovetails and containments only); count tags after apply_copy_numbers.
  * identifiers (eid / ID tag) of copied edges.
  * graphs under construction: GFA2 edges to a segment that has not arrived (they cannot be classified without its
    length: only as bystander lines when they do not mention the multiplied segment), the placeholder lines
    themselves, and - when a path or a GFA2 edge of the multiplied segment waits for a missing line - that `equal`
    with no end of exactly k visible links thins nothing out.
"""
import re
from harness import lib
from harness.props import _graphgen as G

ID = "C15"
RULE = ("random assembly-like graphs (_graphgen.gen_graph, <= 6 segments quick / <= 12 thorough, names ending in *n "
        "in 20% of them) x up to 4 configurations (segment, factor 0..4 or -1, policy None/off/auto/equal/L/R, "
        "automatic or given names, by name or by instance), or apply_copy_numbers with cn in 0..3; 20% of the multiply "
        "cases are graphs under construction: 1-6 further lines (L/C/P, E/G/F, rarely O/U) mention segments without S "
        "line named where the automatic copy names would land, and the copies must still get unused identifiers and "
        "leave the missing segments missing. Non-trivial: a "
        "configuration with factor >= 2 on a segment that has at least one dovetail or containment.")
CASE_TIMEOUT = 60
POLICIES = [None, "off", "auto", "equal", "L", "R"]
# failures about the identifiers of the copies: the same whether or not the segment carries a self-edge
NAME_SIGS = ("copy-name-not-fresh", "copy-name-taken-from-group-item", "missing-segment-materialised")


def budget(tier):
    return 1500 if tier == "quick" else 40000


def gen_case(rng, tier, i):
    c = G.gen_graph(rng, tier, max_segs=6 if tier == "quick" else 12, star_names=rng.random() < 0.2,
                    named_edges=rng.choice([0.0, 0.0, 0.0, 0.3, 1.0]))
    c["vlevel"] = rng.choice([0, 1, 1, 1, 2, 3])
    d = G.parse(c["lines"], c["version"])
    names = list(d.seg_order)
    if rng.random() < 0.15:
        c["mode"] = "apply_cn"
        c["cn"] = {n: rng.choice([0, 1, 1, 2, 2, 3]) for n in names}
        c["distribute"] = rng.choice(["auto", "off", "equal"])
        return c
    c["mode"] = "multiply"
    if rng.random() < 0.2:
        return _dangling_case(rng, c, d, names)
    cfgs = []
    for _ in range(rng.randint(1, 4)):
        s = rng.choice(names)
        k = rng.choice([-1, 0, 1, 2, 2, 2, 3, 3, 4])
        given = None
        if k >= 2 and rng.random() < 0.4:
            given = ["%s%s%d" % (s.split("*")[0], rng.choice(["c", "*", "."]), 20 + j) for j in range(k - 1)]
            if set(given) & set(names):
                given = None
        cfgs.append({"seg": s, "factor": k, "names": given, "distribute": rng.choice(POLICIES),
                     "by_instance": rng.random() < 0.3})
    c["configs"] = cfgs
    return c


def _auto_candidates(s, used, n):
    """the first n names <base>*<i> (i = 2, 3, ...) which are not in `used`, <base> being s without a *<digits> suffix:
    where the documented rule for automatic names (an integer suffix added or incremented until enough unused names
    are found) lands on the closed document.  Used only to AIM the generator; the oracle does not rely on it."""
    m = re.search(r"(.*)\*(\d+)", s)
    base = m.group(1) if m else s
    out, i = [], 2
    while len(out) < n:
        nm = "%s*%d" % (base, i)
        if nm not in used:
            out.append(nm)
        i += 1
    return out


def _dangling_line(rng, version, d, x, dn, j):
    """one line that mentions the segment dn, which has no S line (x: a segment of the document) -> (kind, line)"""
    o1, o2 = rng.choice("+-"), rng.choice("+-")
    if version == "gfa1":
        kind = rng.choice(["L", "L", "L", "C", "P"])
        a, b = (x, dn) if rng.random() < 0.5 else (dn, x)
        if kind == "L":
            return kind, "L\t%s\t%s\t%s\t%s\t%s" % (a, o1, b, o2, rng.choice(["*", "1M"]))
        if kind == "C":
            return kind, "C\t%s\t%s\t%s\t%s\t0\t*" % (a, o1, b, o2)
        return kind, "P\tpd%d\t%s%s,%s%s\t*" % (j, a, o1, b, o2)
    kind = rng.choice(["E"] * 5 + ["G"] * 3 + ["F"] * 2 + ["U", "O"])
    lx = d.segs[x]["len"]
    if kind == "E":
        px = rng.choice([("0", "1"), ("%d" % (lx - 1), "%d$" % lx), ("1", "2")])
        pd = rng.choice([("0", "1"), ("1", "2")])
        if rng.random() < 0.5:
            return kind, "E\t*\t%s%s\t%s%s\t%s\t%s\t%s\t%s\t*" % (x, o1, dn, o2, px[0], px[1], pd[0], pd[1])
        return kind, "E\t*\t%s%s\t%s%s\t%s\t%s\t%s\t%s\t*" % (dn, o1, x, o2, pd[0], pd[1], px[0], px[1])
    if kind == "G":
        a, b = (x, dn) if rng.random() < 0.5 else (dn, x)
        return kind, "G\t*\t%s%s\t%s%s\t%d\t*" % (a, o1, b, o2, rng.randint(1, 50))
    if kind == "F":
        return kind, "F\t%s\tread9%s\t0\t1\t0\t1\t*" % (dn, o1)
    if kind == "U":
        return kind, "U\tud%d\t%s" % (j, " ".join([x, dn] if rng.random() < 0.5 else [dn]))
    return kind, "O\tod%d\t%s%s %s%s" % (j, x, o1, dn, o2)


def _dangling_case(rng, c, d, names):
    """a graph under construction: after the (closed, valid) document some more lines have arrived which mention
    segments whose S line has not arrived (yet) - legal, gfapy keeps placeholders for them - and the missing names
    are exactly where the automatic copy names of the first configuration would land"""
    used = set(names) | set(r_["name"] for r_ in d.recs if r_["name"])
    cfgs = []
    for j in range(rng.randint(1, 2)):
        cfgs.append({"seg": rng.choice(names), "factor": rng.choice([2, 2, 2, 3, 3, 4]) if j == 0 else rng.choice([0, 1, 2, 3]),
                     "names": None, "distribute": rng.choice(POLICIES), "by_instance": rng.random() < 0.3})
    s, k = cfgs[0]["seg"], cfgs[0]["factor"]
    cand = _auto_candidates(s, used, k + 1)
    hot = cand[:k - 1]
    dang = [x for x in hot if rng.random() < 0.6] or [rng.choice(hot)]
    dang += [x for x in cand[k - 1:] if rng.random() < 0.3]
    lines, kinds = [], []
    for j, dn in enumerate(dang):
        for _ in range(rng.choice([1, 1, 2])):
            x = rng.choice(names) if rng.random() < 0.8 else s
            kind, l = _dangling_line(rng, c["version"], d, x, dn, len(lines))
            lines.append(l); kinds.append(kind)
    c["dangling"] = lines
    c["dangling_kinds"] = kinds
    c["configs"] = cfgs
    return c


def _doc(case):
    return G.parse(case["lines"], case["version"])


def nontrivial(case):
    d = _doc(case)
    if case["mode"] == "apply_cn":
        return any(v >= 2 for v in case["cn"].values())
    for cf in case["configs"]:
        if cf["factor"] >= 2 and any(cf["seg"] in (e["a"], e["b"]) for e in d.edges if e["kind"] in ("L", "C")):
            return True
    return False


def tags(case):
    t = G.features(_doc(case))
    if case["mode"] == "apply_cn":
        return t + ["apply_cn"]
    for kd in case.get("dangling_kinds") or []:
        t.append("dangling-" + kd)
    if case.get("dangling"):
        t.append("dangling")
    for cf in case["configs"]:
        t.append("factor%d" % cf["factor"])
        t.append("policy-%s" % cf["distribute"])
        t.append("given-names" if cf["names"] else "auto-names")
    return sorted(set(t))


def signature(case, failure):
    return failure.split(":")[0]


def shrink(case, failure):
    sig = signature(case, failure)
    if case["mode"] == "multiply" and len(case["configs"]) > 1:
        for cf in case["configs"]:
            c2 = dict(case); c2["configs"] = [cf]
            if any(signature(c2, f) == sig for f in oracle(c2)):
                case = c2
                break
    j = 0
    while case.get("dangling") and j < len(case["dangling"]):
        c2 = dict(case)
        c2["dangling"] = case["dangling"][:j] + case["dangling"][j + 1:]
        c2["dangling_kinds"] = case["dangling_kinds"][:j] + case["dangling_kinds"][j + 1:]
        if c2["dangling"] and any(signature(c2, f) == sig for f in oracle(c2)):
            case = c2
        else:
            j += 1
    return G.shrink_lines(case, failure, oracle, signature)


# ---------------------------------------------------------------------------------------------- text helpers
def _counts(tags_, k=None):
    out = {}
    for c in G.COUNT_TAGS:
        if c in tags_:
            v = int(tags_[c][1])
            out[c] = v // k if k else v
    return out


def _other_tags(tags_):
    return tuple(sorted((n, v) for n, v in tags_.items() if n not in G.COUNT_TAGS and n != "ID"))


def seg_sig(s, name=None, k=None):
    return (name or s["name"], s["seq"], s["len"], s["ln_tag"], _other_tags(s["tags"]), tuple(sorted(_counts(s["tags"], k).items())))


def edge_sig(e, ren=None, k=None):
    """an edge without its identifier; ren maps segment names; k divides the counts"""
    ren = ren or {}
    a, b = ren.get(e["a"], e["a"]), ren.get(e["b"], e["b"])
    body = (e["rt"], a, e["oa"], b, e["ob"], e.get("pos"), tuple(e.get("coords") or ()), e["ovl"])
    return (body, _other_tags(e["tags"]), tuple(sorted(_counts(e["tags"], k).items())))


def _end_on(e, name):
    """ends of dovetail e that lie on segment `name`"""
    return [x for x in e["ends"] if x[0] == name]


def check_multiply(d0, d1, s, k, requested, policy, F, tag=""):
    before_names, after_names = set(d0.segs), set(d1.segs)
    if d1.dup_names:
        F.append("duplicate-segment-name: %r" % d1.dup_names)
    copies = sorted(after_names - before_names)
    if before_names - after_names:
        F.append("segment-lost: %r disappeared%s" % (sorted(before_names - after_names), tag))
        return
    if len(copies) != k - 1:
        F.append("copy-count-wrong: factor %d gave %d new segments %r%s" % (k, len(copies), copies, tag))
        return
    # fresh: no line of the document before used the identifier, neither as its own name nor as a reference
    used = set(r_["name"] for r_ in d0.recs if r_["name"])
    used |= set(x for r_ in d0.recs if r_["rt"] in "LCEGFP" for x in r_["refs"])
    stale = [c for c in copies if c in used]
    if stale:
        F.append("copy-name-not-fresh: factor %d on %s: the cop%s named %r, but the document already used th%s: %r%s" % (
            k, s, "y is" if len(stale) == 1 else "ies are", stale, "at identifier" if len(stale) == 1 else "ose identifiers",
            [r_["line"] for r_ in d0.recs if r_["name"] in stale or any(x in stale for x in r_["refs"])], tag))
        return
    grp = [c for c in copies if any(c in r_["refs"] for r_ in d0.recs if r_["rt"] in "OU")]
    if grp:
        F.append("copy-name-taken-from-group-item: factor %d on %s: the cop%s named %r, an identifier which a group already "
                 "lists as an item (of a line that has not arrived): %r%s" % (
                     k, s, "y is" if len(grp) == 1 else "ies are", grp,
                     [r_["line"] for r_ in d0.recs if r_["rt"] in "OU" and any(x in grp for x in r_["refs"])], tag))
        return
    if requested is not None and sorted(requested) != copies:
        F.append("copy-names-not-as-requested: asked %r got %r%s" % (requested, copies, tag))
        return
    group = [s] + copies
    gset = set(group)
    # segments
    want_s = seg_sig(d0.segs[s], k=k)
    if seg_sig(d1.segs[s]) != want_s:
        F.append("original-segment-wrong: %r became %r (factor %d)%s" % (d0.segs[s]["line"], d1.segs[s]["line"], k, tag))
    for c in copies:
        if seg_sig(d1.segs[c], name=s) != want_s:
            F.append("copy-segment-wrong: copy %r of %r (factor %d)%s" % (d1.segs[c]["line"], d0.segs[s]["line"], k, tag))
    # edges
    orig = [e for e in d0.edges if e["kind"] in ("L", "C") and s in (e["a"], e["b"])]
    self_e = [e for e in orig if e["a"] == e["b"]]
    plain = [e for e in orig if e["a"] != e["b"]]
    after_e = [e for e in d1.edges if e["kind"] in ("L", "C") and (e["a"] in gset or e["b"] in gset)]
    back = {c: s for c in copies}
    orig_sigs = G.multiset(edge_sig(e, k=k) for e in orig)
    for e in after_e:
        if edge_sig(e, ren=back) not in orig_sigs:
            F.append("edge-invented: %r is not the image of a dovetail/containment of %s%s" % (e["line"], s, tag))
    dist_end = {None: None, "off": None, "L": "L", "R": "R"}.get(policy, "?")
    after_self = [e for e in after_e if e["a"] in gset and e["b"] in gset]
    after_plain = [e for e in after_e if not (e["a"] in gset and e["b"] in gset)]
    for e in (self_e if policy in (None, "off") else []):
        sg = edge_sig(e, k=k)
        for t in group:
            if not any(t in (x["a"], x["b"]) and edge_sig(x, ren=back) == sg for x in after_self):
                F.append("self-edge-not-copied: %s has no image of %r%s" % (t, e["line"], tag))

    def part(edges, end):
        """edges that are containments / dovetails of the given end of a group member"""
        out = []
        for e in edges:
            if end == "C":
                if e["kind"] == "C":
                    out.append(e)
            elif e["kind"] == "L" and any(x[1] == end for x in e["ends"] if x[0] in gset):
                out.append(e)
        return out

    def full(end):
        want = G.multiset(edge_sig(e, ren={s: t}, k=k) for e in part(plain, end) for t in group)
        have = G.multiset(edge_sig(e) for e in part(after_plain, end))
        return want == have, want, have

    def covered(end):
        """every former neighbour end of `end` is still linked to a member of the group"""
        missing = []
        have = part(after_plain, end)
        for e in part(plain, end):
            other = [x for x in e["ends"] if x[0] != s][0]
            if not any(other in x["ends"] for x in have):
                missing.append(other)
        return missing
    okc, wc, hc = full("C")
    if not okc:
        F.append("containments-not-copied: expected %r got %r%s" % (sorted(wc.items()), sorted(hc.items()), tag))
    res = {}
    for end in "LR":
        res[end] = full(end)
    if dist_end is None:
        for end in "LR":
            if not res[end][0]:
                F.append("dovetails-not-copied: end %s of %s (factor %d, distribute %r): expected %r got %r%s" % (
                    end, s, k, policy, sorted(res[end][1].items()), sorted(res[end][2].items()), tag))
    else:
        cand = [dist_end] if dist_end in ("L", "R") else ["L", "R"]
        # a path that arrived before one of its links makes gfapy keep a placeholder link on the ends it joins, and
        # a GFA2 edge to a segment that has not arrived cannot be classified from the text (the length is unknown):
        # how many links the ends of s carry for `equal` is then not ours to say (never so in a closed document)
        implied = any(r_["rt"] in "PE" and s in r_["refs"] and any(x not in d0.segs for x in r_["refs"]) for r_ in d0.recs)
        if policy == "equal" and not self_e and not implied and all(len(part(plain, e_)) != k for e_ in "LR"):
            cand = []
        thinned = [end for end in "LR" if not res[end][0]]
        bad = [end for end in thinned if end not in cand]
        if bad or len(thinned) > 1:
            for end in (bad or thinned):
                F.append("dovetails-not-copied: end %s of %s must be copied in full (factor %d, distribute %r): expected %r got %r%s" % (
                    end, s, k, policy, sorted(res[end][1].items()), sorted(res[end][2].items()), tag))
        for end in thinned:
            m = covered(end)
            if m:
                F.append("neighbour-dropped: distribute %r on end %s of %s (factor %d): %r no longer linked to any copy%s" % (
                    policy, end, s, k, m, tag))


def frame(d0, d1, hot_before, hot_after, F, tag=""):
    """lines that do not mention hot_before are unchanged; nothing new that mentions no hot_after name"""
    def mentions(r_, hot):
        return (r_["rt"] == "S" and r_["name"] in hot) or any(x in hot for x in r_["refs"])
    want = G.multiset(r_["line"] for r_ in d0.recs if not mentions(r_, hot_before))
    have = G.multiset(r_["line"] for r_ in d1.recs if not mentions(r_, hot_after))
    for l, n in want.items():
        if have.get(l, 0) < n:
            F.append("bystander-line-changed: %r is not in the result%s" % (l, tag))
    for l, n in have.items():
        if want.get(l, 0) < n:
            F.append("unexpected-line: %r%s" % (l, tag))


def _has_self_edge(d, s):
    return any(e["a"] == s and e["b"] == s for e in d.edges if e["kind"] in ("L", "C"))


def oracle(case):
    """failures on a segment that carries a self-edge (circular self-link, hairpin, self-containment) are prefixed
    `selfedge-` so that this family (DESIGN 7 #6 and relatives) keeps its own signatures"""
    if case["mode"] == "apply_cn":
        F = oracle_cn(case)
        if F:
            d = _doc(case)
            if any(_has_self_edge(d, s) for s, cn in case["cn"].items() if cn >= 2):
                F = ["selfedge-" + f for f in F]
        return F
    F = []
    for cf in case["configs"]:
        c1 = dict(case); c1["configs"] = [cf]
        f1 = _oracle_multiply(c1)
        if f1 and cf["factor"] >= 2 and _has_self_edge(_doc(case), cf["seg"]):
            f1 = [f if f.startswith(NAME_SIGS) else "selfedge-" + f for f in f1]
        F.extend(f1)
    return F


def _oracle_multiply(case):
    gfapy = lib.import_gfapy()
    F = []
    for cf in case["configs"]:
        try:
            g = G.build(case, case.get("vlevel", 1))
        except gfapy.Error:
            return F
        if lib.outcome(g.validate)[0] != "ok":
            return F
        text0 = str(g)
        d0 = G.parse(text0, case["version"])
        if not G.closed(d0) or not all(e["valid"] for e in d0.edges) or d0.dup_names:
            return F
        dang = case.get("dangling") or []
        if dang:
            # the graph is under construction: more lines arrive, which mention segments that have no S line yet
            for l in dang:
                if lib.outcome(g.add_line, l)[0] != "ok":
                    return F
            text0 = G.visible_text(str(g))
            d0 = G.parse(text0, case["version"])
            missing = set(x for r_ in d0.recs for x in r_["refs"]) - set(d0.segs) - set(r_["name"] for r_ in d0.recs if r_["name"])
            tagd = " [after the lines %r had arrived]" % (dang,)
        s, k = cf["seg"], cf["factor"]
        tag = " [multiply(%r, %d, copy_names=%r, distribute=%r)%s]" % (s, k, cf["names"], cf["distribute"],
                                                                       " by instance" if cf["by_instance"] else "")
        arg = g.segment(s) if cf["by_instance"] else s
        r = lib.outcome(lambda: g.multiply(arg, k, copy_names=(list(cf["names"]) if cf["names"] else None),
                                           distribute=cf["distribute"], conserve_components=False))
        text1 = str(g)
        if dang:
            text1 = G.visible_text(text1)
            tag = tag + tagd
        if k < 0:
            if r[0] != "gerr":
                F.append("negative-factor-not-refused: outcome %s %s%s" % (r[0], r[1] if r[0] != "ok" else "", tag))
            if text1 != text0:
                F.append("negative-factor-mutates: text changed%s" % tag)
            continue
        if r[0] != "ok":
            F.append("multiply-raises-%s: %s%s" % (r[1], r[0], tag))
            continue
        if k == 1:
            if text1 != text0:
                F.append("factor-one-changes: text changed%s" % tag)
            continue
        d1 = G.parse(text1, case["version"])
        if k == 0:
            if s in d1.segs:
                F.append("factor-zero-keeps-segment: %s still present%s" % (s, tag))
            if any(s in r_["refs"] for r_ in d1.recs):
                F.append("factor-zero-leaves-mention: %r%s" % ([r_["line"] for r_ in d1.recs if s in r_["refs"]], tag))
            T = G.touching(d0, {s})
            want = G.multiset(r_["line"] for r_ in d0.recs if r_["idx"] not in T)
            have = G.multiset(d1.lines)
            allb = G.multiset(d0.lines)
            for l, n in want.items():
                if have.get(l, 0) < n:
                    F.append("bystander-line-changed: %r is not in the result%s" % (l, tag))
            for l, n in have.items():
                if allb.get(l, 0) < n:
                    F.append("unexpected-line: %r%s" % (l, tag))
        else:
            n0 = len(F)
            check_multiply(d0, d1, s, k, cf["names"], cf["distribute"], F, tag)
            if len(F) == n0:
                copies = set(d1.segs) - set(d0.segs)
                frame(d0, d1, {s}, {s} | copies, F, tag)
        if dang and k >= 0:
            # the rest of the graph is untouched: what had not arrived before has still not arrived
            for n in sorted(missing - ({s} if k == 0 else set())):
                r2 = lib.outcome(lambda: g.segment(n))
                if n in d1.segs or (r2[0] == "ok" and r2[1] is not None and not r2[1].virtual):
                    F.append("missing-segment-materialised: %s had no S line before, now it is %r%s" % (
                        n, d1.segs[n]["line"] if n in d1.segs else str(r2[1]), tag))
        F.extend(x + tag for x in G.closure_failures(g, allow_virtual=bool(dang)))
    return F


def oracle_cn(case):
    gfapy = lib.import_gfapy()
    F = []
    c2 = dict(case)
    lines = []
    for l in case["lines"]:
        f = l.split("\t")
        if f[0] == "S":
            l = l + "\tcn:i:%d" % case["cn"].get(f[1], 1)
        lines.append(l)
    c2["lines"] = lines
    try:
        g = G.build(c2, case.get("vlevel", 1))
    except gfapy.Error:
        return F
    if lib.outcome(g.validate)[0] != "ok":
        return F
    text0 = str(g)
    d0 = G.parse(text0, case["version"])
    if not G.closed(d0) or not all(e["valid"] for e in d0.edges) or d0.dup_names:
        return F
    tag = " [apply_copy_numbers(distribute=%r) cn=%r]" % (case["distribute"], case["cn"])
    r = lib.outcome(lambda: g.apply_copy_numbers(distribute=case["distribute"], conserve_components=False))
    if r[0] != "ok":
        return ["apply-copy-numbers-raises-%s: %s%s" % (r[1], r[0], tag)]
    d1 = G.parse(str(g), case["version"])
    if d1.dup_names:
        F.append("duplicate-segment-name: %r" % d1.dup_names)
    origin = {}
    for n, s in d1.segs.items():
        origin[n] = s["tags"]["or"][1] if "or" in s["tags"] else n
    for n, cn in case["cn"].items():
        if n not in d0.segs:
            continue
        fam = [x for x, o in origin.items() if o == n]
        if len(fam) != cn:
            F.append("copy-number-not-applied: %s has cn %d but %d segments descend from it: %r%s" % (n, cn, len(fam), fam, tag))
        if cn >= 1 and n not in d1.segs:
            F.append("segment-lost: %s (cn %d)%s" % (n, cn, tag))
        if cn == 1 and n in d1.segs and d1.segs[n]["line"] != d0.segs[n]["line"]:
            F.append("cn-one-changes-segment: %r became %r%s" % (d0.segs[n]["line"], d1.segs[n]["line"], tag))
        for x in fam:
            a, b = d1.segs[x], d0.segs[n]
            if (a["seq"], a["len"]) != (b["seq"], b["len"]):
                F.append("copy-segment-wrong: %r descends from %r%s" % (a["line"], b["line"], tag))
    unknown = [o for o in origin.values() if o not in d0.segs]
    if unknown:
        F.append("unknown-origin: %r%s" % (unknown, tag))
        return F

    def body(e, ren):
        return (e["rt"], ren.get(e["a"], e["a"]), e["oa"], ren.get(e["b"], e["b"]), e["ob"], e.get("pos"),
                tuple(e.get("coords") or ()), e["ovl"])
    orig = set(body(e, {}) for e in d0.edges)
    for e in d1.edges:
        if body(e, origin) not in orig:
            F.append("edge-invented: %r%s" % (e["line"], tag))
    if any(x not in d1.segs for r_ in d1.recs for x in r_["refs"] if r_["rt"] in "LCEGFP"):
        F.append("text-not-closed: a line mentions a missing segment%s" % tag)
    F.extend(x + tag for x in G.closure_failures(g))
    return F
