"""C12 — a link and its complement are one edge."""
import itertools, json
from harness import lib
from harness.lib import op

ID = "C12"
LEAN = {
    "modules": ["GfaProofs.Bridge.Cigar", "GfaProofs.Bridge.Geometry", "GfaProofs.C12", "GfaProofs.Lemmas.CigarText"],
    "support": ["GfaProofs.Lemmas.Digits", "GfaModel.Cigar", "GfaModel.CigarText"],
    "theorems": [
        "Gfa.C12.compl_compl", "Gfa.C12.refLen_compl", "Gfa.C12.queryLen_compl", "Gfa.C12.compl_length",
        "Gfa.C12.compl_lens", "Gfa.C12.link_compl_compl", "Gfa.C12.isComplement_compl", "Gfa.C12.isComplement_symm",
        "Gfa.C12.isEql_symm", "Gfa.C12.isEql_refl", "Gfa.C12.isEql_trans", "Gfa.C12.isSame_iff",
        "Gfa.C12.isEql_iff", "Gfa.C12.canonical_or", "Gfa.C12.canonical_xor", "Gfa.C12.canon_canonical",
        "Gfa.C12.canon_eql", "Gfa.C12.compatible_either_form",
        "Gfa.Bridge.Cigar.flip_table", "Gfa.Bridge.Cigar.len_table", "Gfa.Bridge.Cigar.compl_reverses",
        "Gfa.Bridge.Cigar.compl_pure", "Gfa.Bridge.Cigar.codes_complete", "Gfa.Bridge.Geometry.invert_table",
        "Gfa.Bridge.Geometry.link_ends",
        "Gfa.cigar_parse_print", "Gfa.aln_parse_print",
    ],
}
RULE = ("random links over a 5-name pool (self-links, hairpins), CIGARs of 0-4 operations over MIDP=XH (10% also S/N, "
        "outside the involution claim), four orientation pairs; graph cases add link/complement/different link; path "
        "cases run every arrival order of S/L/P lines. Non-trivial: overlap specified with >=2 operations or a "
        "self-link, or a path case.")
ASSUMPTIONS = ["tags take no part in link identity (not modelled)",
               "the add-complement and path clauses are decided on the real library by the oracle and by the graph-model "
               "correspondence of C02/C03; the theorems here cover the algebra"]
TRUSTED = ["GfaModel/Cigar.lean is hand-written; tied by Bridge.Cigar (T2 tables) and by the correspondence"]

NAMES = ["A", "B", "C", "a", "10"]
CODES_CLAIM = "MIDP=XH"


def budget(tier):
    return 1500 if tier == "quick" else 40000


def gen_cigar(rng, claim_only=False):
    n = rng.choice([0, 1, 1, 2, 2, 3, 4])
    if n == 0:
        return "*"
    codes = CODES_CLAIM if (claim_only or rng.random() > 0.1) else CODES_CLAIM + "SN"
    return "".join("%d%s" % (rng.choice([0, 1, 2, 3, 5, 10, 12]), rng.choice(codes)) for _ in range(n))


def gen_link(rng, claim_only=False):
    f = rng.choice(NAMES)
    t = rng.choice(NAMES) if rng.random() > 0.25 else f
    return [f, rng.choice("+-"), t, rng.choice("+-"), gen_cigar(rng, claim_only)]


def gen_case(rng, tier, i):
    k = rng.random()
    if k < 0.55:
        a = gen_link(rng)
        r = rng.random()
        if r < 0.3:
            b = compl_text(a)
        elif r < 0.5:
            b = list(a)
        elif r < 0.75:
            b = list(a if rng.random() < 0.5 else compl_text(a))
            j = rng.randrange(5)
            b[j] = gen_link(rng)[j]
        else:
            b = gen_link(rng)
        return {"kind": "alg", "a": a, "b": b}
    elif k < 0.8:
        a = gen_link(rng, claim_only=True)
        d = list(a)
        j = rng.randrange(5)
        for _ in range(20):
            d[j] = gen_link(rng, claim_only=True)[j]
            if d[j] != a[j]:
                break
        return {"kind": "graph", "a": a, "d": d, "vlevel": rng.choice([0, 1, 2, 3]), "segs_first": rng.random() < 0.7}
    else:
        a = gen_link(rng, claim_only=True)
        return {"kind": "path", "a": a, "stored_compl": rng.random() < 0.5, "rev": rng.random() < 0.5,
                "star": rng.random() < 0.4, "perm": rng.randrange(24)}


# ------------------------------------------------------------- independent text-level algebra
FLIP = {"I": "D", "D": "I", "S": "D", "N": "I"}


def ops_of(c):
    import re
    return [(int(n), k) for n, k in re.findall(r"([0-9]+)([MIDNSHPX=])", c)]


def cigar_compl_text(c):
    if c == "*":
        return "*"
    return "".join("%d%s" % (n, FLIP.get(k, k)) for n, k in reversed(ops_of(c)))


def inv(o):
    return "-" if o == "+" else "+"


def compl_text(l):
    return [l[2], inv(l[3]), l[0], inv(l[1]), cigar_compl_text(l[4])]


def norm(l):
    return (l[0], l[1], l[2], l[3], "*" if l[4] == "*" else tuple(ops_of(l[4])))


def claim(l):
    return not any(k in "SN" for _, k in ops_of(l[4])) if l[4] != "*" else True


def ltext(l):
    return "L\t" + "\t".join(l)


def nontrivial(case):
    a = case["a"]
    return case["kind"] == "path" or a[0] == a[2] or len(ops_of(a[4])) >= 2


def tags(case):
    a = case["a"]
    t = [case["kind"], "self" if a[0] == a[2] else "nonself", "ops%d" % len(ops_of(a[4]))]
    if case["kind"] == "alg":
        t.append("rel_compl" if norm(case["b"]) == norm(compl_text(a)) else ("rel_same" if norm(case["b"]) == norm(a) else "rel_other"))
    return t


def signature(case, failure):
    return failure.split(":")[0]


# ------------------------------------------------------------- oracle (real library only)
def oracle(case):
    gfapy = lib.import_gfapy()
    F = []
    a = case["a"]
    if case["kind"] == "alg":
        b = case["b"]
        la = gfapy.Line(ltext(a)); lb = gfapy.Line(ltext(b))
        sa, sb = str(la), str(lb)
        ca = la.complement()
        if str(la) != sa:
            F.append("complement-mutates-receiver: %r became %r" % (sa, str(la)))
            la = gfapy.Line(ltext(a))
        exp = compl_text(a)
        got = str(ca).split("\t")[1:6]
        if norm(got) != norm(exp):
            F.append("complement-wrong: complement of %r is %r, expected %r" % (a, got, exp))
        if claim(a):
            cca = ca.complement()
            if norm(str(cca).split("\t")[1:6]) != norm(a):
                F.append("complement-not-involutive: %r -> %r -> %r" % (a, str(ca), str(cca)))
        if a[4] != "*":
            o = gfapy.Line(ltext(a)).overlap
            oc = o.complement()
            if (o.length_on_reference(), o.length_on_query()) != (oc.length_on_query(), oc.length_on_reference()):
                F.append("lengths-not-exchanged: %r" % a[4])
            if len(oc) != len(o):
                F.append("complement-changes-op-count: %r" % a[4])
        la = gfapy.Line(ltext(a))
        # equivalence tests: symmetric, repeatable, and equal to the text-level truth
        for name, truth in (("is_same", norm(a) == norm(b)),
                            ("is_complement", norm(a) == norm(compl_text(b))),
                            ("is_eql", norm(a) == norm(b) or norm(a) == norm(compl_text(b)))):
            r1 = getattr(la, name)(lb); r2 = getattr(la, name)(lb); r3 = getattr(lb, name)(la)
            if r1 != r2:
                F.append("%s-not-repeatable: %r %r" % (name, a, b))
            if claim(a) and claim(b):
                if bool(r1) != bool(r3):
                    F.append("%s-not-symmetric: %r %r" % (name, a, b))
                if bool(r1) != truth:
                    F.append("%s-wrong: %r %r gives %r" % (name, a, b, r1))
        if str(la) != sa or str(lb) != sb:
            F.append("equivalence-test-mutates: %r %r" % (a, b))
    elif case["kind"] == "graph":
        g = gfapy.Gfa(vlevel=case["vlevel"], version="gfa1")
        if case["segs_first"]:
            for n in sorted({a[0], a[2], case["d"][0], case["d"][2]}):
                g.add_line("S\t%s\t*" % n)
        g.add_line(ltext(a))
        t0 = str(g); n0 = len(g.dovetails)
        r = lib.outcome(g.add_line, ltext(compl_text(a)))
        if r[0] != "ok":
            F.append("add-complement-raises: %r then its complement: %s %s" % (a, r[0], r[1]))
        elif str(g) != t0 or len(g.dovetails) != n0:
            F.append("add-complement-adds: %r then its complement changed the Gfa" % (a,))
        d = case["d"]
        pair_differs = norm(d)[:4] != norm(a)[:4] and norm(d)[:4] != norm(compl_text(a))[:4]
        ovl_differs = bool(ops_of(a[4])) and bool(ops_of(d[4])) and \
            norm(d) != norm(a) and norm(d) != norm(compl_text(a))
        if pair_differs or ovl_differs:
            g2 = gfapy.Gfa(vlevel=case["vlevel"], version="gfa1")
            g2.add_line(ltext(a))
            n1 = len(g2.dovetails)
            r = lib.outcome(g2.add_line, ltext(d))
            if r[0] != "ok":
                F.append("different-link-refused: %r then %r: %s %s" % (a, d, r[0], r[1]))
            elif len(g2.dovetails) != n1 + 1:
                F.append("different-link-merged: %r then %r" % (a, d))
    else:  # path
        stored = compl_text(a) if case["stored_compl"] else a
        trav = compl_text(a) if case["rev"] else a
        ovl = "*" if case["star"] else trav[4]
        lines = ["S\t%s\t*" % n for n in sorted({a[0], a[2]})]
        lines += [ltext(stored), "P\tp1\t%s%s,%s%s\t%s" % (trav[0], trav[1], trav[2], trav[3], ovl)]
        perms = list(itertools.permutations(lines))
        order = perms[case["perm"] % len(perms)]
        g = gfapy.Gfa(vlevel=1)
        for l in order:
            g.add_line(l)
        p = g.line("p1")
        if len(g.dovetails) != 1:
            F.append("path-link-not-unified: %r gives %d links" % (list(order), len(g.dovetails)))
        else:
            L = g.dovetails[0]
            if len(p.links) != 1 or p.links[0].line is not L:
                F.append("path-does-not-reference-stored-link: %r" % (list(order),))
            else:
                # self-complementary oriented pair (hairpin-like self-link): with an unspecified path overlap the
                # direction of traversal cannot be told apart, either flag is right
                sym = norm(stored) == norm(compl_text(stored)) or \
                    (norm(stored)[:4] == norm(compl_text(stored))[:4] and ovl == "*")
                # with a self-complementary oriented pair the overlap tells the two forms apart
                forward = norm(trav) == norm(stored) if (ovl != "*" and norm(stored)[:4] == norm(compl_text(stored))[:4]) \
                    else norm(trav)[:4] == norm(stored)[:4]
                want = "+" if forward else "-"
                if not sym and p.links[0].orient != want:
                    F.append("path-flag-wrong: order %r flag %s expected %s" % (list(order), p.links[0].orient, want))
            if L.virtual:
                F.append("path-link-left-virtual: %r" % (list(order),))
            if [str(x) for x in L.paths] != [str(p)]:
                F.append("link-paths-backref-wrong: %r" % (list(order),))
    return F


# ------------------------------------------------------------- correspondence (model vs implementation)
def model_ops(case):
    gfapy = lib.import_gfapy()
    ops, exp = [], []
    a = case["a"]
    if case["kind"] != "alg":
        return ops, exp
    b = case["b"]

    def impl_compl(c):
        r = lib.outcome(lambda: str(gfapy.Alignment(c, version="gfa1").complement()))
        return "ok " + r[1] if r[0] == "ok" else "err"
    ops.append(op("cigar.compl", a[4])); exp.append(impl_compl(a[4]))

    def impl_lens(c):
        al = gfapy.Alignment(c, version="gfa1")
        if gfapy.is_placeholder(al):
            return "ok * *"
        return "ok %d %d" % (al.length_on_reference(), al.length_on_query())
    ops.append(op("cigar.lens", a[4])); exp.append(impl_lens(a[4]))
    la = gfapy.Line(ltext(a)); lb = gfapy.Line(ltext(b))
    ops.append(op("link.compl", *a)); exp.append("ok " + str(la.complement())[2:])
    la = gfapy.Line(ltext(a))
    if claim(a) and claim(b):
        ops.append(op("link.rel", *(a + b)))
        exp.append("ok same=%d compl=%d eql=%d canon=%d ends=%s%s,%s%s" % (
            la.is_same(lb), la.is_complement(lb), la.is_eql(lb), la.is_canonical(),
            la.from_end.name, la.from_end.end_type, la.to_end.name, la.to_end.end_type))
        ofrom = gfapy.OrientedLine(b[0], b[1]); oto = gfapy.OrientedLine(b[2], b[3])
        ops.append(op("link.compat", *(a + b)))
        exp.append("ok %d" % bool(la.is_compatible(ofrom, oto, b[4], True)))
    return ops, exp
