"""C12 — a link and its complement are one edge.

Six kinds of case, all decided on the real library against an independent text-level algebra (compl_text / norm /
canon below):
  alg    one link a and a second link b (its complement / the same / one field changed / HALF of the symmetry applied:
         a or its complement with only the CIGAR complemented, or with only the segments swapped and the orientations
         inverted, the overlap not being its own complement - a different edge, tag rel_half / unrelated): complement()
         is right, involutive (claim codes MIDP=XH), does not mutate; the overlap's reference and query lengths are
         exchanged; is_same / is_complement / is_eql are repeatable, symmetric and equal to the text-level truth.
  edit   two free-standing links a, b with specified overlaps (b the complement of a / a near miss of it which the first
         edit repairs / the same link / a near miss of a) and a script of 1-4 IN-PLACE edits of the CIGAR of a or b
         (CIGARs are lists of gfapy.CIGAR.Operation: set .length / .code of an operation, append, insert, pop, delete;
         an edit is random, or undoes the previous one, or is the mirror image on the other link of the previous one so
         that the two are complementary again).  Before the script (after the verdicts were asked once, or the links
         hashed, or nothing) and after EVERY edit: the text of the line shows the edit, complement() is right for the
         present text, and is_same / is_complement / is_eql are repeatable, symmetric and equal to the text-level truth
         of the PRESENT texts (an answer may not depend on what the link looked like when it was last compared).
  graph  one link in a Gfa (levels 0-3, with or without S lines): adding its complement raises nothing and changes
         nothing; a link differing in one field (overlaps both specified) is accepted and stored as a further link.
  gedit  one link stored in a Gfa (levels 0-3, with or without S lines); optionally its complement is added once; then
         1-3 in-place edits of the CIGAR of the STORED link; after every edit adding the complement of the link as it
         reads now raises nothing and changes nothing; at the end a link with one of the former overlaps (a different
         edge now), in either form, is accepted and stored as a further link.
  path   one link stored in either form, one 2-segment path over it in either direction with the overlap given or `*`,
         every arrival order of the S/L/P lines: one link, not virtual, referenced by the path with the right flag.
  multi  a whole document: 1-3 pairs of segment ends (self-links and hairpins included), each joined by 1-3 PARALLEL
         links which differ only in their specified overlap (random, or a near miss of another one of the group:
         complemented, reversed, one length changed), each written in either form, some also in their other form as a
         further L line; 0-3 paths of 1-3 steps over these links in either direction, overlaps given or `*` per step;
         S lines mostly present; random arrival order (or S,L,P blocks); levels 0-3.
         About 3 in 10 multi documents have the shape "paths first" (gen_multi_pending): 1-2 pairs of segment ends,
         1-2 parallel links with overlaps which are not their own complement (the second one often the complement
         CIGAR of the first), per pair two or three paths over the SAME edge in opposite (or equal) directions, the
         first mostly with `*`, the others mostly with the overlap spelled for their own direction, and the L lines
         (either form) mostly arriving after all the paths - so that the edge is first met as a placeholder link.
         Checked:
           - after EVERY line added (prefix of the document; the links may not have arrived yet): every step of every
             path present is resolved to a link (real or placeholder) which, read in the direction recorded by the flag
             (+ as it stands, - complemented), joins the oriented segments of the step and has the overlap of the step
             (when both are specified); two steps which spell the same edge (specified overlaps, either form) are
             resolved to one and the same link object;
           - the Gfa stores exactly one link per edge, in the form which arrived first; no placeholder link is left;
           - is_same / is_complement / is_eql between every two STORED links (parallel links which differ only in the
             overlap - also by half of the symmetry only - are different edges), of a stored link with itself and with a
             free-standing line of its other form: both ways, equal to the text-level truth
             (signatures multi-stored-<test>-wrong);
           - every step of every path is resolved (object identity) to THE stored link with that overlap from either
             form (to any link between the two segment ends for a `*` step), flag + iff the step is the stored form
             (no claim where the two forms cannot be told apart: self-complementary oriented pair with `*` or a
             self-complementary overlap); link.paths lists exactly the paths resolved to the link;
           - afterwards, for EVERY stored link (whatever its position among the links of its segment end): adding its
             other form raises nothing and changes nothing; a path added now over it, in each direction, is resolved
             to it with the right flag and creates no link.
         This is where lookup "from either form" is exercised with more than one candidate link per segment end.

Signatures ending in -star-path-first: the failing step has a specified overlap and was resolved while a placeholder
link with overlap `*` (made for a `*` step of an earlier path / an earlier step of the same path) stood for the not yet
arrived links between the same two segment ends (the arrival-order defect fixed in the library by 3768f43 / 1da03d4;
the suffix is kept so that a regression there is told apart).

NOT CHECKED: tags of links; a placeholder-overlap link sharing its segment ends with another link (what `*` is a
duplicate of is not settled by the property); lookup through the private Gfa._search_link (only its public users:
add_line and path resolution); hash values of links (hash() is only called, to let the library memoise what it likes,
before edits); in-place edits which leave an empty CIGAR; GFA2 edges.
"""
import itertools, json
from harness import lib
from harness.lib import op

ID = "C12"
LEAN = {
    "modules": ["GfaProofs.Bridge.Cigar", "GfaProofs.Bridge.Geometry", "GfaProofs.C12", "GfaProofs.C12Orient", "GfaProofs.Bridge.PathOrient", "GfaProofs.Bridge.Canonical", "GfaProofs.Lemmas.CigarText"],
    "support": ["GfaProofs.Lemmas.Digits", "GfaModel.Cigar", "GfaModel.CigarText", "GfaModel.GraphObs"],
    "theorems": [
        "Gfa.C12.compl_compl", "Gfa.C12.refLen_compl", "Gfa.C12.queryLen_compl", "Gfa.C12.compl_length",
        "Gfa.C12.compl_lens", "Gfa.C12.link_compl_compl", "Gfa.C12.isComplement_compl", "Gfa.C12.isComplement_symm",
        "Gfa.C12.isEql_symm", "Gfa.C12.isEql_refl", "Gfa.C12.isEql_trans", "Gfa.C12.isSame_iff",
        "Gfa.C12.isEql_iff", "Gfa.C12.canonical_or", "Gfa.C12.canonical_xor", "Gfa.C12.canon_canonical",
        "Gfa.C12.canon_eql", "Gfa.C12.compatible_either_form",
        "Gfa.C12.orient_flips", "Gfa.C12.orient_both_ways", "Gfa.C12.compl_direct_eq", "Gfa.C12.compl_compl_eq",
        "Gfa.C03.pathLinks_perm", "Gfa.Bridge.PathOrient.linkOrient_eq",
        "Gfa.Bridge.Cigar.flip_table", "Gfa.Bridge.Cigar.len_table", "Gfa.Bridge.Cigar.compl_reverses",
        "Gfa.Bridge.Cigar.compl_pure", "Gfa.Bridge.Cigar.codes_complete", "Gfa.Bridge.Geometry.invert_table",
        "Gfa.Bridge.Geometry.link_ends",
        "Gfa.cigar_parse_print", "Gfa.aln_parse_print", "Gfa.Bridge.Canonical.isCanonical_eq",
    ],
}
RULE = ("random links over a 5-name pool (self-links, hairpins), CIGARs of 0-4 operations over MIDP=XH (10% also S/N, "
        "outside the involution claim), four orientation pairs, the second link of an alg case being the complement, "
        "the same, one field changed, half of the symmetry applied (only the CIGAR complemented / only the segments "
        "swapped and inverted, overlap not its own complement) or unrelated; edit cases change the CIGAR of either link IN PLACE "
        "(length/code of an operation, append/insert/pop/delete; random, undoing, or mirrored on the other link) and "
        "re-ask every equivalence test after every edit; graph cases add link/complement/different link; gedit cases "
        "edit the CIGAR of the stored link in place and add the complement of its present reading after every edit, then "
        "a link with a former overlap; path cases run every arrival order of S/L/P lines; multi cases are whole "
        "documents with 1-3 parallel links (differing only in the overlap) per pair of segment ends, in either form, "
        "with 0-3 paths of 1-3 steps, in random arrival order (3 in 10: paths over one edge in both directions, `*` and "
        "spelled overlaps which are not their own complement, arriving before the links), checked after every line "
        "(flag/overlap of every resolved step consistent with the link it is bound to, one link object per edge), "
        "is_same/is_complement/is_eql asked between every two stored links and of each with its other form, then "
        "the complement of every stored link is added and a path over every stored link in each direction. "
        "Non-trivial: overlap specified with >=2 operations or a self-link, or a path or multi case.")
ASSUMPTIONS = ["tags take no part in link identity (not modelled)",
               "the add-complement clause is decided on the real library by the oracle and by the graph-model correspondence of "
               "C02/C03; path resolution: the link every step is bound to and its orientation flag (path.links) are part of the "
               "complete observation compared with the model after every step (GraphObs.pathLinks / linkOrient); proved: the flag "
               "flips with the stored form of the link for a step matched one way and is '+' in either form for a step matched "
               "both ways (orient_flips, orient_both_ways), and path.links does not depend on the order of the stored lines when "
               "the steps resolve uniquely (C03.pathLinks_perm); with several stored links fitting one step the library binds "
               "the first one found, which the model mirrors (first in arrival order) and the oracle checks for consistency"]
TRUSTED = ["GfaModel/Cigar.lean is hand-written; tied by Bridge.Cigar (T2 tables) and by the correspondence"]

NAMES = ["A", "B", "C", "a", "10"]
CODES_CLAIM = "MIDP=XH"


def budget(tier):
    return 1500 if tier == "quick" else 40000


def gen_cigar(rng, claim_only=False):
    n = rng.choice([0, 1, 1, 2, 2, 3, 4])
    if n == 0:
        return "*"
    codes = CODES_CLAIM if (claim_only or rng.random() > 0.1) else CODES_CLAIM + "SN"
    return "".join("%d%s" % (rng.choice([0, 1, 2, 3, 5, 10, 12]), rng.choice(codes)) for _ in range(n))


def gen_link(rng, claim_only=False):
    f = rng.choice(NAMES)
    t = rng.choice(NAMES) if rng.random() > 0.25 else f
    return [f, rng.choice("+-"), t, rng.choice("+-"), gen_cigar(rng, claim_only)]


def gen_case(rng, tier, i):
    k = rng.random()
    if k < 0.37:
        a = gen_link(rng)
        r = rng.random()
        if r < 0.27:
            b = compl_text(a)
        elif r < 0.45:
            b = list(a)
        elif r < 0.67:
            b = list(a if rng.random() < 0.5 else compl_text(a))
            j = rng.randrange(5)
            b[j] = gen_link(rng)[j]
        elif r < 0.80:
            # HALF of the symmetry: the overlap is not its own complement, and b is a (or its complement) with only
            # the CIGAR complemented, or with only the segments swapped and the orientations inverted - another edge
            # (unless the oriented pair is its own complement, a hairpin-like self-link: then b is a again or its
            # complement, which norm() decides like everything else)
            a[4] = gen_asym_cigar(rng)
            b = list(a if rng.random() < 0.5 else compl_text(a))
            if rng.random() < 0.5:
                b[4] = cigar_compl_text(b[4])
            else:
                b = compl_text(b); b[4] = cigar_compl_text(b[4])
        else:
            b = gen_link(rng)
        return {"kind": "alg", "a": a, "b": b}
    elif k < 0.45:
        return gen_edit_case(rng)
    elif k < 0.60:
        a = gen_link(rng, claim_only=True)
        d = list(a)
        j = rng.randrange(5)
        for _ in range(20):
            d[j] = gen_link(rng, claim_only=True)[j]
            if d[j] != a[j]:
                break
        return {"kind": "graph", "a": a, "d": d, "vlevel": rng.choice([0, 1, 2, 3]), "segs_first": rng.random() < 0.7}
    elif k < 0.65:
        return gen_gedit_case(rng)
    elif k < 0.8:
        a = gen_link(rng, claim_only=True)
        return {"kind": "path", "a": a, "stored_compl": rng.random() < 0.5, "rev": rng.random() < 0.5,
                "star": rng.random() < 0.4, "perm": rng.randrange(24)}
    elif rng.random() < 0.3:
        return gen_multi_pending(rng)
    else:
        return gen_multi(rng)


# ------------------------------------------------------------- in-place edits of a CIGAR (text level)
def apply_edit(ops, e):
    """the list of (length, code) after the edit e; raises IndexError/ValueError when e does not apply"""
    ops = list(ops)
    if e[0] in ("len", "code", "del") and not 0 <= e[1] < len(ops):
        raise IndexError(e)
    if e[0] == "len":
        ops[e[1]] = (e[2], ops[e[1]][1])
    elif e[0] == "code":
        ops[e[1]] = (ops[e[1]][0], e[2])
    elif e[0] == "append":
        ops.append((e[1], e[2]))
    elif e[0] == "insert":
        if not 0 <= e[1] <= len(ops):
            raise IndexError(e)
        ops.insert(e[1], (e[2], e[3]))
    elif e[0] == "pop":
        ops.pop()
    elif e[0] == "del":
        del ops[e[1]]
    else:
        raise ValueError(e)
    if not ops:
        raise IndexError(e)     # an empty CIGAR is not generated
    return ops


def inverse_edit(ops, e):
    """the edit which undoes e (e applied to ops)"""
    if e[0] == "len":
        return ["len", e[1], ops[e[1]][0]]
    if e[0] == "code":
        return ["code", e[1], ops[e[1]][1]]
    if e[0] == "append":
        return ["pop"]
    if e[0] == "insert":
        return ["del", e[1]]
    if e[0] == "pop":
        return ["append", ops[-1][0], ops[-1][1]]
    return ["insert", e[1], ops[e[1]][0], ops[e[1]][1]]


def mirror_edit(n_other, e):
    """the edit of the OTHER link (n_other operations) which keeps it the complement, when it was before e"""
    if e[0] == "len":
        return ["len", n_other - 1 - e[1], e[2]]
    if e[0] == "code":
        return ["code", n_other - 1 - e[1], FLIP.get(e[2], e[2])]
    if e[0] == "append":
        return ["insert", 0, e[1], FLIP.get(e[2], e[2])]
    if e[0] == "insert":
        return ["insert", n_other - e[1], e[2], FLIP.get(e[3], e[3])]
    if e[0] == "pop":
        return ["del", 0]
    return ["del", n_other - 1 - e[1]]


def gen_edit(rng, ops):
    """a random in-place edit which applies to ops and changes it"""
    for _ in range(50):
        r = rng.random()
        j = rng.randrange(len(ops))
        if r < 0.4:
            e = ["len", j, rng.choice([0, 1, 2, 3, 4, 5, 7, 10, 12])]
        elif r < 0.6:
            e = ["code", j, rng.choice(CODES_CLAIM)]
        elif r < 0.72:
            e = ["append", rng.choice([1, 2, 3, 5]), rng.choice(CODES_CLAIM)]
        elif r < 0.82:
            e = ["insert", rng.randrange(len(ops) + 1), rng.choice([1, 2, 3, 5]), rng.choice(CODES_CLAIM)]
        elif r < 0.92:
            e = ["pop"]
        else:
            e = ["del", j]
        try:
            if apply_edit(ops, e) != list(ops) and len(apply_edit(ops, e)) <= 6:
                return e
        except (IndexError, ValueError):
            pass
    return ["append", 1, "M"]


def gen_rich_cigar(rng):
    """a specified CIGAR, mostly of >= 2 operations"""
    c = gen_spec_cigar(rng)
    for _ in range(3):
        if len(ops_of(c)) >= 2:
            break
        c = gen_spec_cigar(rng)
    return c


def gen_edit_case(rng):
    a = gen_link(rng, claim_only=True)
    a[4] = gen_rich_cigar(rng)
    r = rng.random()
    script = []
    if r < 0.45:
        b = compl_text(a)
    elif r < 0.75:
        # a near miss of the complement; the first edit (mostly) repairs it
        b = compl_text(a)
        o = ops_of(b[4])
        e0 = gen_edit(rng, o)
        b[4] = cigar_text(apply_edit(o, e0))
        if rng.random() < 0.8:
            script.append(["b"] + inverse_edit(o, e0))
    elif r < 0.85:
        b = list(a)
    else:
        b = list(a)
        o = ops_of(b[4])
        b[4] = cigar_text(apply_edit(o, gen_edit(rng, o)))
    # replay the script so far, then extend it
    cur = {"a": ops_of(a[4]), "b": ops_of(b[4])}
    last = None          # (who, edit, ops of who before the edit)
    for st in script:
        last = (st[0], st[1:], cur[st[0]])
        cur[st[0]] = apply_edit(cur[st[0]], st[1:])
    n = rng.choice([1, 2, 2, 3, 4])
    while len(script) < n:
        r = rng.random()
        e = None
        if last is not None and r < 0.3:
            who, e = last[0], inverse_edit(last[2], last[1])          # undo
            nxt_last = None
        elif last is not None and r < 0.55:
            who = "a" if last[0] == "b" else "b"                       # mirror image on the other link
            e = mirror_edit(len(cur[who]), last[1])
            nxt_last = None
        if e is not None:
            try:
                apply_edit(cur[who], e)
            except (IndexError, ValueError):
                e = None
        if e is None:
            who = "b" if rng.random() < 0.65 else "a"
            e = gen_edit(rng, cur[who])
            nxt_last = (who, e, cur[who])
        cur[who] = apply_edit(cur[who], e)
        script.append([who] + e)
        last = nxt_last
    return {"kind": "edit", "a": a, "b": b, "script": script, "prime": rng.choice([0, 0, 1, 2])}


def gen_gedit_case(rng):
    a = gen_link(rng, claim_only=True)
    a[4] = gen_rich_cigar(rng)
    cur = ops_of(a[4])
    edits, last = [], None
    for _ in range(rng.choice([1, 1, 2, 3])):
        if last is not None and rng.random() < 0.3:
            e = inverse_edit(last[1], last[0]); nxt = None
        else:
            e = gen_edit(rng, cur); nxt = (e, cur)
        cur = apply_edit(cur, e)
        edits.append(e)
        last = nxt
    return {"kind": "gedit", "a": a, "edits": edits, "prime": rng.random() < 0.75, "former_compl": rng.random() < 0.5,
            "vlevel": rng.choice([0, 1, 2, 3]), "segs_first": rng.random() < 0.7}


def gen_spec_cigar(rng):
    for _ in range(50):
        c = gen_cigar(rng, claim_only=True)
        if c != "*":
            return c
    return "1M"


def gen_multi(rng):
    """A whole GFA1 document: 1-3 pairs of segment ends, each joined by 1-3 parallel links which differ only in their
    (specified) overlap, every link written in either form, sometimes also its other form as a further L line;
    paths over 1-3 of the links in either direction; every arrival order."""
    names = rng.sample(NAMES, rng.choice([2, 3, 3, 4]))
    groups, pairs_seen = [], set()
    for _ in range(rng.choice([1, 1, 2, 2, 3])):
        for _ in range(20):
            f = rng.choice(names)
            t = rng.choice(names) if rng.random() > 0.25 else f
            pair = [f, rng.choice("+-"), t, rng.choice("+-")]
            if pairkey(pair) not in pairs_seen:
                break
        else:
            continue
        pairs_seen.add(pairkey(pair))
        size = rng.choice([1, 2, 2, 2, 3])
        edges = []
        if size == 1:
            edges.append(pair + [gen_cigar(rng, claim_only=True)])
        else:
            for _ in range(40):
                if len(edges) == size:
                    break
                e = pair + [gen_spec_cigar(rng)]
                if rng.random() < 0.3 and edges:
                    # a near miss: the overlap of another link of the group, complemented / reversed / one length changed
                    o = ops_of(rng.choice(edges)[4])
                    r = rng.random()
                    if r < 0.4:
                        e = pair + [cigar_compl_text(cigar_text(o))]
                    elif r < 0.7:
                        e = pair + [cigar_text(list(reversed(o)))]
                    else:
                        j = rng.randrange(len(o))
                        o[j] = (o[j][0] + 1, o[j][1])
                        e = pair + [cigar_text(o)]
                if all(canon(e) != canon(x) for x in edges):
                    edges.append(e)
        groups.append(edges)
    edges = [e for g in groups for e in g]
    single = {canon(g[0]) for g in groups if len(g) == 1}
    L = []
    for e in edges:
        w = compl_text(e) if rng.random() < 0.5 else list(e)
        L.append(ltext(w))
        if rng.random() < 0.2:
            L.append(ltext(compl_text(w)))      # the other form of a stored link: adds nothing, raises nothing
    P = []
    for pi in range(rng.choice([0, 1, 1, 2, 3])):
        e = rng.choice(edges)
        t = compl_text(e) if rng.random() < 0.5 else list(e)
        steps = [t]
        while len(steps) < 3 and rng.random() < 0.45:
            last = steps[-1]
            nxt = [x for y in edges for x in (list(y), compl_text(y)) if x[0] == last[2] and x[1] == last[3]]
            if not nxt:
                break
            steps.append(rng.choice(nxt))
        ov = []
        for st in steps:
            ov.append("*" if (st[4] == "*" or rng.random() < (0.3 if canon(st) in single else 0.1)) else st[4])
        if all(o == "*" for o in ov):
            ov = ["*"]
        segs = ["%s%s" % (steps[0][0], steps[0][1])] + ["%s%s" % (st[2], st[3]) for st in steps]
        P.append("P\tpp%d\t%s\t%s" % (pi, ",".join(segs), ",".join(ov)))
    used = sorted({n for e in edges for n in (e[0], e[2])})
    S = ["S\t%s\t*" % n for n in used if rng.random() < 0.9]
    r = rng.random()
    if r < 0.25:
        rng.shuffle(L); rng.shuffle(P); rng.shuffle(S)
        lines = S + L + P
    elif r < 0.4:
        rest = L + P
        rng.shuffle(rest)
        lines = S + rest
    else:
        lines = S + L + P
        rng.shuffle(lines)
    return {"kind": "multi", "a": edges[0], "lines": lines, "vlevel": rng.choice([0, 1, 1, 2, 3])}


def gen_asym_cigar(rng):
    """a specified CIGAR which is not its own complement (so that the two forms of the link differ in the overlap)"""
    for _ in range(30):
        c = gen_rich_cigar(rng)
        if cigar_compl_text(c) != cigar_text(ops_of(c)):
            return c
    return "2M1D3M"


def gen_multi_pending(rng):
    """A GFA1 document of the shape "paths first": 1-2 pairs of segment ends, 1-2 parallel links per pair with overlaps
    which are (mostly) not their own complement; per pair 2-3 paths over the same edge, in opposite or equal directions,
    the first mostly with `*`, the others mostly with the overlap spelled for their own direction; the L lines (either
    form) mostly arrive after all the paths, so that the edge is first met as a placeholder link which a later step,
    walking it forwards or reversed, gives its overlap to."""
    names = rng.sample(NAMES, rng.choice([2, 2, 3]))
    groups, pairs_seen = [], set()
    for _ in range(rng.choice([1, 1, 2])):
        for _ in range(20):
            f = rng.choice(names)
            t = rng.choice(names) if rng.random() > 0.15 else f
            pair = [f, rng.choice("+-"), t, rng.choice("+-")]
            if pairkey(pair) not in pairs_seen:
                break
        else:
            continue
        pairs_seen.add(pairkey(pair))
        edges = [pair + [gen_asym_cigar(rng) if rng.random() < 0.85 else gen_spec_cigar(rng)]]
        if rng.random() < 0.25:
            for _ in range(10):
                # the parallel link: often the one whose overlap is the complement CIGAR of the first one's
                e = pair + [cigar_compl_text(edges[0][4]) if rng.random() < 0.5 else gen_asym_cigar(rng)]
                if canon(e) != canon(edges[0]):
                    edges.append(e)
                    break
        groups.append(edges)
    edges = [e for g in groups for e in g]

    def path_over(e, form_compl, star):
        t = compl_text(e) if form_compl else list(e)
        steps = [t]
        while len(steps) < 3 and rng.random() < 0.2:
            last = steps[-1]
            nxt = [x for y in edges for x in (list(y), compl_text(y)) if x[0] == last[2] and x[1] == last[3]]
            if not nxt:
                break
            steps.append(rng.choice(nxt))
        ov = ["*" if (star if k == 0 else rng.random() < 0.3) else st[4] for k, st in enumerate(steps)]
        if all(o == "*" for o in ov):
            ov = ["*"]
        segs = ["%s%s" % (steps[0][0], steps[0][1])] + ["%s%s" % (st[2], st[3]) for st in steps]
        return "%s\t%s" % (",".join(segs), ",".join(ov))

    P = []
    for g in groups:
        e = rng.choice(g)
        d = rng.random() < 0.5
        P.append(path_over(e, d, rng.random() < 0.75))
        P.append(path_over(e, (not d) if rng.random() < 0.75 else d, rng.random() < 0.15))
        if rng.random() < 0.4:
            P.append(path_over(rng.choice(g), rng.random() < 0.5, rng.random() < 0.3))
    if rng.random() < 0.3:
        rng.shuffle(P)
    P = ["P\tpp%d\t%s" % (i, x) for i, x in enumerate(P)]
    L = []
    for e in edges:
        w = compl_text(e) if rng.random() < 0.5 else list(e)
        L.append(ltext(w))
        if rng.random() < 0.15:
            L.append(ltext(compl_text(w)))
    rng.shuffle(L)
    used = sorted({n for e in edges for n in (e[0], e[2])})
    S = ["S\t%s\t*" % n for n in used if rng.random() < 0.95]
    r = rng.random()
    if r < 0.6:
        lines = S + P + L
    elif r < 0.8:
        rest = P + L
        rng.shuffle(rest)
        lines = S + rest
    else:
        lines = S + P + L
        rng.shuffle(lines)
    return {"kind": "multi", "shape": "pending", "a": edges[0], "lines": lines, "vlevel": rng.choice([0, 1, 1, 2, 3])}


# ------------------------------------------------------------- independent text-level algebra
FLIP = {"I": "D", "D": "I", "S": "D", "N": "I"}


def ops_of(c):
    import re
    return [(int(n), k) for n, k in re.findall(r"([0-9]+)([MIDNSHPX=])", c)]


def cigar_compl_text(c):
    if c == "*":
        return "*"
    return "".join("%d%s" % (n, FLIP.get(k, k)) for n, k in reversed(ops_of(c)))


def inv(o):
    return "-" if o == "+" else "+"


def compl_text(l):
    return [l[2], inv(l[3]), l[0], inv(l[1]), cigar_compl_text(l[4])]


def norm(l):
    return (l[0], l[1], l[2], l[3], "*" if l[4] == "*" else tuple(ops_of(l[4])))


def cigar_text(ops):
    return "".join("%d%s" % (n, k) for n, k in ops) if ops else "*"


def key(l):
    """hashable, totally ordered form of norm()"""
    return (l[0], l[1], l[2], l[3], "*" if l[4] == "*" else cigar_text(ops_of(l[4])))


def canon(l):
    """one representative of the two forms of a link: two links are one edge iff their canon() are equal"""
    return min(key(l), key(compl_text(l)))


def pairkey(l):
    """the pair of segment ends joined, whatever the form and the overlap"""
    return min(tuple(l[:4]), (l[2], inv(l[3]), l[0], inv(l[1])))


def half_related(a, b):
    """b is not the edge a, but becomes a or its complement when only its CIGAR is complemented (half of the symmetry:
    the other half, swapping the segments and inverting the orientations, is the same relation seen from the complement)"""
    if a[4] == "*" or b[4] == "*" or canon(a) == canon(b):
        return False
    return canon(a) == canon(list(b[:4]) + [cigar_compl_text(b[4])])


def claim(l):
    return not any(k in "SN" for _, k in ops_of(l[4])) if l[4] != "*" else True


def ltext(l):
    return "L\t" + "\t".join(l)


def nontrivial(case):
    a = case["a"]
    return case["kind"] in ("path", "multi") or a[0] == a[2] or len(ops_of(a[4])) >= 2


def tags(case):
    a = case["a"]
    t = [case["kind"], "self" if a[0] == a[2] else "nonself", "ops%d" % len(ops_of(a[4]))]
    if case["kind"] == "multi":
        links, paths = parse_doc(case["lines"])
        per = {}
        for l in links:
            per.setdefault(pairkey(l), set()).add(canon(l))
        t = ["multi", "parallel%d" % max(len(v) for v in per.values()), "paths" if paths else "nopaths"]
        if case.get("shape"):
            t.append(case["shape"])
    if case["kind"] == "alg":
        t.append("rel_compl" if norm(case["b"]) == norm(compl_text(a)) else ("rel_same" if norm(case["b"]) == norm(a) else "rel_other"))
        if t[-1] == "rel_other" and half_related(a, case["b"]):
            t.append("rel_half")
    return t


def signature(case, failure):
    return failure.split(":")[0]


# ------------------------------------------------------------- oracle (real library only)
def oracle(case):
    gfapy = lib.import_gfapy()
    F = []
    a = case["a"]
    if case["kind"] == "alg":
        b = case["b"]
        la = gfapy.Line(ltext(a)); lb = gfapy.Line(ltext(b))
        sa, sb = str(la), str(lb)
        ca = la.complement()
        if str(la) != sa:
            F.append("complement-mutates-receiver: %r became %r" % (sa, str(la)))
            la = gfapy.Line(ltext(a))
        exp = compl_text(a)
        got = str(ca).split("\t")[1:6]
        if norm(got) != norm(exp):
            F.append("complement-wrong: complement of %r is %r, expected %r" % (a, got, exp))
        if claim(a):
            cca = ca.complement()
            if norm(str(cca).split("\t")[1:6]) != norm(a):
                F.append("complement-not-involutive: %r -> %r -> %r" % (a, str(ca), str(cca)))
        if a[4] != "*":
            o = gfapy.Line(ltext(a)).overlap
            oc = o.complement()
            if (o.length_on_reference(), o.length_on_query()) != (oc.length_on_query(), oc.length_on_reference()):
                F.append("lengths-not-exchanged: %r" % a[4])
            if len(oc) != len(o):
                F.append("complement-changes-op-count: %r" % a[4])
        la = gfapy.Line(ltext(a))
        # equivalence tests: symmetric, repeatable, and equal to the text-level truth
        for name, truth in (("is_same", norm(a) == norm(b)),
                            ("is_complement", norm(a) == norm(compl_text(b))),
                            ("is_eql", norm(a) == norm(b) or norm(a) == norm(compl_text(b)))):
            r1 = getattr(la, name)(lb); r2 = getattr(la, name)(lb); r3 = getattr(lb, name)(la)
            if r1 != r2:
                F.append("%s-not-repeatable: %r %r" % (name, a, b))
            if claim(a) and claim(b):
                if bool(r1) != bool(r3):
                    F.append("%s-not-symmetric: %r %r" % (name, a, b))
                if bool(r1) != truth:
                    F.append("%s-wrong: %r %r gives %r" % (name, a, b, r1))
        if str(la) != sa or str(lb) != sb:
            F.append("equivalence-test-mutates: %r %r" % (a, b))
    elif case["kind"] == "graph":
        g = gfapy.Gfa(vlevel=case["vlevel"], version="gfa1")
        if case["segs_first"]:
            for n in sorted({a[0], a[2], case["d"][0], case["d"][2]}):
                g.add_line("S\t%s\t*" % n)
        g.add_line(ltext(a))
        t0 = str(g); n0 = len(g.dovetails)
        r = lib.outcome(g.add_line, ltext(compl_text(a)))
        if r[0] != "ok":
            F.append("add-complement-raises: %r then its complement: %s %s" % (a, r[0], r[1]))
        elif str(g) != t0 or len(g.dovetails) != n0:
            F.append("add-complement-adds: %r then its complement changed the Gfa" % (a,))
        d = case["d"]
        pair_differs = norm(d)[:4] != norm(a)[:4] and norm(d)[:4] != norm(compl_text(a))[:4]
        ovl_differs = bool(ops_of(a[4])) and bool(ops_of(d[4])) and \
            norm(d) != norm(a) and norm(d) != norm(compl_text(a))
        if pair_differs or ovl_differs:
            g2 = gfapy.Gfa(vlevel=case["vlevel"], version="gfa1")
            g2.add_line(ltext(a))
            n1 = len(g2.dovetails)
            r = lib.outcome(g2.add_line, ltext(d))
            if r[0] != "ok":
                F.append("different-link-refused: %r then %r: %s %s" % (a, d, r[0], r[1]))
            elif len(g2.dovetails) != n1 + 1:
                F.append("different-link-merged: %r then %r" % (a, d))
    elif case["kind"] == "multi":
        F.extend(oracle_multi(gfapy, case))
    elif case["kind"] == "edit":
        F.extend(oracle_edit(gfapy, case))
    elif case["kind"] == "gedit":
        F.extend(oracle_gedit(gfapy, case))
    else:  # path
        stored = compl_text(a) if case["stored_compl"] else a
        trav = compl_text(a) if case["rev"] else a
        ovl = "*" if case["star"] else trav[4]
        lines = ["S\t%s\t*" % n for n in sorted({a[0], a[2]})]
        lines += [ltext(stored), "P\tp1\t%s%s,%s%s\t%s" % (trav[0], trav[1], trav[2], trav[3], ovl)]
        perms = list(itertools.permutations(lines))
        order = perms[case["perm"] % len(perms)]
        g = gfapy.Gfa(vlevel=1)
        for l in order:
            g.add_line(l)
        p = g.line("p1")
        if len(g.dovetails) != 1:
            F.append("path-link-not-unified: %r gives %d links" % (list(order), len(g.dovetails)))
        else:
            L = g.dovetails[0]
            if len(p.links) != 1 or p.links[0].line is not L:
                F.append("path-does-not-reference-stored-link: %r" % (list(order),))
            else:
                # self-complementary oriented pair (hairpin-like self-link): with an unspecified path overlap the
                # direction of traversal cannot be told apart, either flag is right
                sym = norm(stored) == norm(compl_text(stored)) or \
                    (norm(stored)[:4] == norm(compl_text(stored))[:4] and ovl == "*")
                # with a self-complementary oriented pair the overlap tells the two forms apart
                forward = norm(trav) == norm(stored) if (ovl != "*" and norm(stored)[:4] == norm(compl_text(stored))[:4]) \
                    else norm(trav)[:4] == norm(stored)[:4]
                want = "+" if forward else "-"
                if not sym and p.links[0].orient != want:
                    F.append("path-flag-wrong: order %r flag %s expected %s" % (list(order), p.links[0].orient, want))
            if L.virtual:
                F.append("path-link-left-virtual: %r" % (list(order),))
            if [str(x) for x in L.paths] != [str(p)]:
                F.append("link-paths-backref-wrong: %r" % (list(order),))
    return F


# ------------------------------------------------------------- in-place edits of the CIGAR of a link
def edit_in_place(gfapy, line, e):
    """applies the edit e to the CIGAR object of the link `line`, in place (public list / Operation interface)"""
    ov = line.overlap
    if e[0] == "len":
        ov[e[1]].length = e[2]
    elif e[0] == "code":
        ov[e[1]].code = e[2]
    elif e[0] == "append":
        ov.append(gfapy.CIGAR.Operation(e[1], e[2]))
    elif e[0] == "insert":
        ov.insert(e[1], gfapy.CIGAR.Operation(e[2], e[3]))
    elif e[0] == "pop":
        ov.pop()
    elif e[0] == "del":
        del ov[e[1]]
    else:
        raise ValueError(e)


def oracle_edit(gfapy, case):
    F = []
    txt = {"a": list(case["a"]), "b": list(case["b"])}
    obj = {"a": gfapy.Line(ltext(txt["a"])), "b": gfapy.Line(ltext(txt["b"]))}

    def verdicts(when):
        a, b, la, lb = txt["a"], txt["b"], obj["a"], obj["b"]
        for who in "ab":
            got = str(obj[who]).split("\t")[1:6]
            if norm(got) != norm(txt[who]):
                F.append("edit-not-shown-by-the-line: %s: link %s reads %r, expected %r" % (when, who, got, txt[who]))
                return False
            gc = str(obj[who].complement()).split("\t")[1:6]
            if norm(gc) != norm(compl_text(txt[who])):
                F.append("edit-complement-wrong: %s: complement of %r is %r" % (when, txt[who], gc))
        for name, truth in (("is_same", norm(a) == norm(b)),
                            ("is_complement", norm(a) == norm(compl_text(b))),
                            ("is_eql", norm(a) == norm(b) or norm(a) == norm(compl_text(b)))):
            r1 = getattr(la, name)(lb); r3 = getattr(lb, name)(la); r2 = getattr(la, name)(lb); r4 = getattr(lb, name)(la)
            if bool(r1) != bool(r2) or bool(r3) != bool(r4):
                F.append("edit-%s-not-repeatable: %s: a=%r b=%r: a.%s(b) %r then %r, b.%s(a) %r then %r"
                         % (name, when, a, b, name, r1, r2, name, r3, r4))
            if bool(r1) != bool(r3):
                F.append("edit-%s-not-symmetric: %s: a=%r b=%r: a.%s(b) is %r, b.%s(a) is %r"
                         % (name, when, a, b, name, r1, name, r3))
            elif bool(r1) != truth:
                F.append("edit-%s-wrong: %s: a=%r b=%r gives %r, the texts say %r" % (name, when, a, b, r1, truth))
        return not F

    if case["prime"] == 0:
        if not verdicts("before the edits (start a=%r b=%r)" % (case["a"], case["b"])):
            return F
    elif case["prime"] == 1:
        hash(obj["a"]); hash(obj["b"])
    done = []
    for st in case["script"]:
        who, e = st[0], st[1:]
        edit_in_place(gfapy, obj[who], e)
        txt[who][4] = cigar_text(apply_edit(ops_of(txt[who][4]), e))
        done.append(st)
        if not verdicts("start a=%r b=%r, after the in-place edits %r" % (case["a"], case["b"], done)):
            return F
    return F


def oracle_gedit(gfapy, case):
    F = []
    a = case["a"]
    g = gfapy.Gfa(vlevel=case["vlevel"], version="gfa1")
    if case["segs_first"]:
        for n in sorted({a[0], a[2]}):
            g.add_line("S\t%s\t*" % n)
    g.add_line(ltext(a))
    stored = g.dovetails[0]
    cur = list(a)
    history = []

    def add_complement(when):
        got = str(stored).split("\t")[1:6]
        if norm(got) != norm(cur):
            F.append("gedit-not-shown-by-the-line: %s: the stored link reads %r, expected %r" % (when, got, cur))
            return False
        t0 = str(g); n0 = len(g.dovetails)
        r = lib.outcome(g.add_line, ltext(compl_text(cur)))
        if r[0] != "ok":
            F.append("gedit-add-complement-raises: %s: stored %r, adding its complement %r: %s %s"
                     % (when, cur, compl_text(cur), r[0], r[1]))
        elif str(g) != t0 or len(g.dovetails) != n0 or g.dovetails[0] is not stored:
            F.append("gedit-add-complement-adds: %s: stored %r, adding its complement %r changed the Gfa"
                     % (when, cur, compl_text(cur)))
        return not F

    if case["prime"] and not add_complement("link %r just added" % (a,)):
        return F
    done = []
    for e in case["edits"]:
        history.append(list(cur))
        edit_in_place(gfapy, stored, e)
        cur[4] = cigar_text(apply_edit(ops_of(cur[4]), e))
        done.append(e)
        if not add_complement("link %r added%s, its CIGAR edited in place by %r"
                              % (a, " and its complement added" if case["prime"] else "", done)):
            return F
    # a link with a former overlap is a different edge now: accepted, stored as a further link
    for old in history:
        if canon(old) != canon(cur):
            d = compl_text(old) if case["former_compl"] else old
            n0 = len(g.dovetails)
            r = lib.outcome(g.add_line, ltext(d))
            if r[0] != "ok":
                F.append("gedit-different-link-refused: stored %r (was %r, edited in place by %r), adding %r: %s %s"
                         % (cur, a, done, d, r[0], r[1]))
            elif len(g.dovetails) != n0 + 1:
                F.append("gedit-different-link-merged: stored %r (was %r, edited in place by %r), adding %r"
                         % (cur, a, done, d))
            break
    return F


# ------------------------------------------------------------- whole documents with parallel links
def parse_doc(lines):
    """-> (links in arrival order, paths as (name, [step link in the form traversed, with the step's overlap]))"""
    links, paths = [], []
    for l in lines:
        f = l.split("\t")
        if f[0] == "L":
            links.append(f[1:6])
        elif f[0] == "P":
            segs = [(x[:-1], x[-1]) for x in f[2].split(",")]
            ov = f[3].split(",")
            if ov == ["*"]:
                ov = ["*"] * (len(segs) - 1)
            paths.append((f[1], [[segs[i][0], segs[i][1], segs[i + 1][0], segs[i + 1][1], ov[i]] for i in range(len(segs) - 1)]))
    return links, paths


def step_matches(step, edge):
    if pairkey(step) != pairkey(edge):
        return False
    return step[4] == "*" or edge[4] == "*" or canon(step) == canon(edge)


def want_flag(stored, trav):
    """'+' / '-' / None (cannot be told apart): is `trav` (oriented pair and overlap of a path step) the stored form?"""
    if key(stored)[:4] == key(compl_text(stored))[:4]:
        # self-complementary oriented pair: only an overlap which is not its own complement tells the two forms apart
        if trav[4] == "*" or stored[4] == "*" or key(stored) == key(compl_text(stored)):
            return None
        return "+" if key(trav) == key(stored) else "-"
    return "+" if key(trav)[:4] == key(stored)[:4] else "-"


def doc_truth(lines):
    """-> (edges: canon -> form stored (the first to arrive), path steps: [(path name, k, step, canons of the edges
    which the step may be resolved to)]) or None when the document is outside the generated class (a placeholder
    overlap sharing its segment ends with another link, a step with no matching edge).  A step with a specified
    overlap has exactly one edge; a step with `*` may be resolved to any link joining the two segment ends."""
    links, paths = parse_doc(lines)
    edges = {}
    for l in links:
        edges.setdefault(canon(l), l)
    per_pair = {}
    for c, l in edges.items():
        per_pair.setdefault(pairkey(l), []).append(l)
    for ls in per_pair.values():
        if len(ls) > 1 and any(l[4] == "*" for l in ls):
            return None
    steps = []
    for name, sts in paths:
        for k, st in enumerate(sts):
            m = [c for c, e in edges.items() if step_matches(st, e)]
            if not m or (len(m) > 1 and st[4] != "*"):
                return None
            steps.append((name, k, st, m))
    return edges, steps


def star_path_first(lines, name, k, st):
    """when step k of the path `name` was resolved, was a placeholder link with overlap `*` (made for a `*` step of an
    earlier path, or for an earlier step of the same path) standing for the links between the two segment ends of the
    step `st`, none of which had arrived yet?"""
    star = False
    for l in lines:
        f = l.split("\t")
        if f[0] == "L" and pairkey(f[1:6]) == pairkey(st):
            return False
        if f[0] == "P":
            for j, x in enumerate(parse_doc([l])[1][0][1]):
                if f[1] == name and j == k:
                    return star
                if x[4] == "*" and pairkey(x) == pairkey(st):
                    star = True
    return False


def oracle_multi(gfapy, case):
    lines = case["lines"]
    truth = doc_truth(lines)
    if truth is None:
        return []
    edges, steps = truth
    F = []
    g = gfapy.Gfa(vlevel=case["vlevel"], version="gfa1")

    def fields(L):
        return str(L).split("\t")[1:6]

    def prefix_check(n):
        """after the first n lines: every resolved step agrees with the link it is bound to, read as the flag says;
        steps which spell the same edge are bound to one link object"""
        seen = {}
        for name, sts in parse_doc(lines[:n])[1]:
            p = g.line(name)
            if p is None or len(p.links) != len(sts):
                continue        # reported by the checks of the whole document
            for k, st in enumerate(sts):
                ol = p.links[k]
                fl = fields(ol.line)
                rd = fl if ol.orient == "+" else compl_text(fl)
                if list(rd[:4]) != list(st[:4]) or (st[4] != "*" and rd[4] != "*" and key(rd) != key(st)):
                    sfx = "-star-path-first" if (st[4] != "*" and star_path_first(lines, name, k, st)) else ""
                    return ["multi-prefix-step-disagrees-with-link%s: %r: after these lines step %d (%s) of path %s is bound "
                            "with flag %s to the link %r (virtual: %s), which read that way is %s"
                            % (sfx, lines[:n], k, " ".join(st), name, ol.orient, " ".join(fl), bool(ol.line.virtual),
                               " ".join(rd))]
                if st[4] != "*":
                    c = canon(st)
                    if c in seen and seen[c][0] is not ol.line:
                        return ["multi-prefix-one-edge-two-links: %r: after these lines step %d (%s) of path %s is bound to "
                                "the link %r, step %d of path %s, which spells the same edge, to the link %r"
                                % (lines[:n], k, " ".join(st), name, " ".join(fl), seen[c][2], seen[c][1],
                                   " ".join(fields(seen[c][0])))]
                    seen.setdefault(c, (ol.line, name, k))
        return []

    for n, l in enumerate(lines):
        r = lib.outcome(g.add_line, l)
        if r[0] != "ok":
            return ["multi-add-raises: %r: adding %r: %s %s" % (lines, l, r[0], r[1])]
        if l[0] in "LP":
            bad = prefix_check(n + 1)
            if bad:
                return bad

    def stored_objects():
        real = [L for L in g.dovetails if not L.virtual]
        return real, {canon(fields(L)): L for L in real}

    real, by_canon = stored_objects()
    virt = [L for L in g.dovetails if L.virtual]
    got = sorted(key(fields(L)) for L in real)
    exp = sorted(key(l) for l in edges.values())
    if got != exp:
        F.append("multi-links-wrong: %r stores the links %r, expected %r" % (lines, got, exp))
        return F
    if virt:
        F.append("multi-link-left-virtual: %r leaves the placeholder links %r" % (lines, [str(v) for v in virt]))

    # the equivalence tests between the links of the Gfa (stored line objects; they are different edges, parallel
    # links differing only in the overlap - also in half of the symmetry only - included) and between each of them and a
    # free-standing line of its other form
    for i, L1 in enumerate(real):
        f1 = fields(L1)
        others = [(L2, fields(L2), "the stored link") for L2 in real[i:]]
        others.append((gfapy.Line(ltext(compl_text(f1))), compl_text(f1), "the free-standing link"))
        for L2, f2, what in others:
            for name, t in (("is_same", key(f1) == key(f2)), ("is_complement", key(f1) == key(compl_text(f2))),
                            ("is_eql", canon(f1) == canon(f2))):
                r1 = lib.outcome(getattr(L1, name), L2); r2 = lib.outcome(getattr(L2, name), L1)
                if (r1[0], bool(r1[1])) != ("ok", t) or (r2[0], bool(r2[1])) != ("ok", t):
                    F.append("multi-stored-%s-wrong: %r: the stored link %r and %s %r: %s gives %r one way and %r the other way, "
                             "the texts say %r" % (name, lines, " ".join(f1), what, " ".join(f2), name, r1[1], r2[1], t))
    if F:
        return F

    def check_step(tag, p, k, st, cs):
        if len(p.links) <= k:
            F.append("multi-%spath-links-missing: %r: path %s has %d links" % (tag, lines, p.name, len(p.links)))
            return
        ol = p.links[k]
        sfx = "-star-path-first" if (not tag and st[4] != "*" and star_path_first(lines, p.name, k, st)) else ""
        hit = [c for c in cs if ol.line is by_canon[c]]
        if not hit:
            F.append("multi-%spath-does-not-reference-stored-link%s: %r: step %d (%s) of path %s is resolved to %r, stored: %r"
                     % (tag, sfx, lines, k, " ".join(st), p.name, str(ol.line), [str(by_canon[c]) for c in cs]))
            return
        w = want_flag(edges[hit[0]], st)
        if w is not None and ol.orient != w:
            F.append("multi-%spath-flag-wrong%s: %r: step %d (%s) of path %s over %r has flag %s, expected %s"
                     % (tag, sfx, lines, k, " ".join(st), p.name, str(ol.line), ol.orient, w))

    for name, k, st, cs in steps:
        p = g.line(name)
        if p is None:
            F.append("multi-path-lost: %r: path %s" % (lines, name))
            continue
        check_step("", p, k, st, cs)
    # the links list the paths which are resolved to them
    for L in g.dovetails:
        users = sorted({p.name for p in g.paths if any(ol.line is L for ol in p.links)})
        if sorted({x.name for x in L.paths}) != users:
            F.append("multi-link-paths-backref-wrong: %r: link %r lists the paths %r, the paths resolved to it are %r"
                     % (lines, str(L), sorted(x.name for x in L.paths), users))
    if F:
        return F
    # ---- adding the other form of each stored link adds nothing, raises nothing
    for c in sorted(edges):
        t0 = str(g); n0 = len(g.dovetails)
        other = compl_text(edges[c])
        r = lib.outcome(g.add_line, ltext(other))
        if r[0] != "ok":
            F.append("multi-add-complement-raises: %r then %r (the complement of the stored %r): %s %s"
                     % (lines, ltext(other), ltext(edges[c]), r[0], r[1]))
        elif str(g) != t0 or len(g.dovetails) != n0:
            F.append("multi-add-complement-adds: %r then %r (the complement of the stored %r) changed the Gfa"
                     % (lines, ltext(other), ltext(edges[c])))
    if F:
        return F
    # ---- a path added now over each stored link, in either direction, finds it
    real, by_canon = stored_objects()
    n0 = len(g.dovetails)
    for i, c in enumerate(sorted(edges)):
        for j, st in enumerate((edges[c], compl_text(edges[c]))):
            name = "zz%d_%d" % (i, j)
            r = lib.outcome(g.add_line, "P\t%s\t%s%s,%s%s\t%s" % (name, st[0], st[1], st[2], st[3], st[4]))
            if r[0] != "ok":
                F.append("multi-late-path-raises: %r then a path over %s: %s %s" % (lines, " ".join(st), r[0], r[1]))
                continue
            check_step("late-", g.line(name), 0, st, [c])
    if len(g.dovetails) != n0:
        F.append("multi-late-path-adds-links: %r: %d links became %d" % (lines, n0, len(g.dovetails)))
    return F


def shrink(case, failure):
    if case.get("kind") != "multi":
        return case
    sig = signature(case, failure)
    cur = dict(case)

    def still(c):
        try:
            return any(signature(c, f) == sig for f in oracle(c))
        except Exception:  # noqa
            return False
    changed = True
    while changed:
        changed = False
        for i in range(len(cur["lines"]) - 1, -1, -1):
            c = dict(cur, lines=cur["lines"][:i] + cur["lines"][i + 1:])
            if c["lines"] and still(c):
                cur = c
                changed = True
    for v in (1, 0):
        c = dict(cur, vlevel=v)
        if v != cur["vlevel"] and still(c):
            cur = c
    return cur


# ------------------------------------------------------------- correspondence (model vs implementation)
def model_ops(case):
    gfapy = lib.import_gfapy()
    ops, exp = [], []
    a = case["a"]
    if case["kind"] != "alg":
        return ops, exp
    b = case["b"]

    def impl_compl(c):
        r = lib.outcome(lambda: str(gfapy.Alignment(c, version="gfa1").complement()))
        return "ok " + r[1] if r[0] == "ok" else "err"
    ops.append(op("cigar.compl", a[4])); exp.append(impl_compl(a[4]))

    def impl_lens(c):
        al = gfapy.Alignment(c, version="gfa1")
        if gfapy.is_placeholder(al):
            return "ok * *"
        return "ok %d %d" % (al.length_on_reference(), al.length_on_query())
    ops.append(op("cigar.lens", a[4])); exp.append(impl_lens(a[4]))
    la = gfapy.Line(ltext(a)); lb = gfapy.Line(ltext(b))
    ops.append(op("link.compl", *a)); exp.append("ok " + str(la.complement())[2:])
    la = gfapy.Line(ltext(a))
    if claim(a) and claim(b):
        ops.append(op("link.rel", *(a + b)))
        exp.append("ok same=%d compl=%d eql=%d canon=%d ends=%s%s,%s%s" % (
            la.is_same(lb), la.is_complement(lb), la.is_eql(lb), la.is_canonical(),
            la.from_end.name, la.from_end.end_type, la.to_end.name, la.to_end.end_type))
        ofrom = gfapy.OrientedLine(b[0], b[1]); oto = gfapy.OrientedLine(b[2], b[3])
        ops.append(op("link.compat", *(a + b)))
        exp.append("ok %d" % bool(la.is_compatible(ofrom, oto, b[4], True)))
    return ops, exp
