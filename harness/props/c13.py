"""C13 — the GFA version is inferred from content and enforced consistently.

Oracle (real library only).  A case is a small document (<= 6 lines quick) of one of the kinds
  pure1 / pure2   valid GFA1 / GFA2 document (props/_docgen.py)
  neutral         only H lines without VN and comments
  mixed           a valid document of one version plus one or two lines that exist only in the other version
                  (other-version S syntax, L/C/P resp. E/F/G/O/U on a segment of the document, H VN of the other
                  version)
  oddvn           a document with a VN header whose value gfapy does not know
  custom          a GFA2 document in which custom records carry the weight (gen_custom_doc): record types of several
                  characters, most of them beginning with the code of a GFA1-only record (LN, CL, Pth, LC, P2, ...) or
                  with H / S (Hx, S1, SEG; _docgen.CUSTOM_RT_WIDE); 60% `bare` - nothing but custom records, H lines
                  without VN and comments, so that nothing tells the version before the queue is processed at the
                  end - the others with segments (mostly no VN), the custom records waiting in the queue when they
                  come first; version parameter None or "gfa2"
  rgfa            a document obeying the rules of the rGFA dialect (S with SN:Z SO:i SR:i, links 0M, no H/C/P),
                  written in GFA1 syntax (valid rGFA) or, the same content, in GFA2 syntax (gen_rgfa_doc)
  refused         a valid document of one version (<= 4 lines) with a header line that defines TS (or, vlevel >= 2, a
                  tag xx:i) plus a header line `bad` = a VN tag (of the version of the document or of the other one)
                  + a contradicting definition of that tag (another TS value / xx:Z), which the Gfa must refuse
                  wherever it comes after the defining header line (gen_refused_case); 70% of the documents without
                  VN of their own, 80% without version parameter: the version is unknown when `bad` arrives
together with a `version` parameter in {None, "gfa1", "gfa2"}, a `dialect` parameter (None = not passed, or
"rgfa": most rgfa documents, 12% of the pure / mixed / neutral ones) and a validation level.  A case with a dialect
also has `dspell`, the spelling ("rgfa", "rGFA", "RGFA", "Rgfa") under which the name of the dialect is handed to the
`dialect` property of an existing Gfa - the setter takes the name in any case.
REPEATED LINES: in 30% of the pure / mixed documents (15% of the rgfa ones) a line that may legally occur several
times - a record without identifier: containment without ID tag, fragment, `*`-named E/G/O/U, GFA2 custom record;
or a comment - occurs two or three times (preferably of a record type that is queued while the version is unknown,
C resp. custom record, synthesised on a segment of the document if it has none).
Every order of the lines (all n!) is loaded as a list; a sample of the orders also as a string and through
from_file (the dialect is passed to all three entry points) and, when the case has a dialect, through two further
entry points which select the dialect AFTER the Gfa was created, `g.dialect = dspell`: `setter` (empty
Gfa(vlevel, version), the lines one by one with add_line, process_line_queue(), validate() at vlevel >= 1 - what the
constructor does) and `setter-file` (read_file()).  All entry points are held to the same expectations.  Independent classification of the lines (text only):
GFA1-only = S with 2 positional fields, L, C, P, H with VN:Z:1.0; GFA2-only = S with 3 positional fields, E, F, G, O,
U, H with VN:Z:2.0; neutral = other H, comments.
Required versions R = versions of the version-specific lines + the explicit parameter + gfa1 if dialect="rgfa"
(the dialect is a dialect of GFA1) + gfa2 if the document has a custom record (any record type which is not a
predefined code, whatever its first character) and nothing speaks for GFA1: custom records exist in GFA2 only, so
a document of custom records alone is valid in GFA2 and in no other version (which is also the documented default).

Checked at level >= 1:
  * the outcome (version string, or exception class) is the same for every order and entry point;
  * |R| = 1: loaded, and Gfa.version is that version;   |R| = 2: gfapy.VersionError (isinstance) and nothing else -
    in particular GFA2 content, or version="gfa2", with dialect="rgfa" (accepting it, or rejecting it for another
    rule of the dialect with another exception class, is a failure);
  * |R| = 0 (neutral): only consistency across orders and entry points (the documented default is "gfa2");
  * a loaded document contains every input record exactly as many times as the input does (count of (record type,
    positional fields) keys, a header tag = one key, a link = its complement): queued lines are added exactly
    once each - also when two of them have the same text.
At level 0 (documented to skip checks): no foreign exception in any order; for documents without a conflict the
outcome is the same in every order / entry point and the records are present exactly once.
Kind `refused` in addition (every level): a line that the Gfa refused is not content, so it decides nothing.  For
every order of the document the lines are added one by one; `bad` is offered (exception caught) at every place where
the text says it cannot be merged (an earlier header line gives TS another value, or - vlevel >= 2 - the tag another
datatype); if add_line raised a gfapy.Error there:
  * Gfa.version is the same immediately before and after the refused line (refused-line-set-version);
  * the finished Gfa (process_line_queue(), validate()) has the outcome - version or exception class - and the
    records of the same lines added without `bad` (refused-line-changed-outcome / -content): a document valid in one
    version is still accepted as that version, the queued lines are there once.
Places where the text does not force the refusal (before the defining header line: the line is accepted, its VN is
content) are not used, and that the line is in fact refused is not demanded (header consistency is not C13).

NOT CHECKED:
  * custom records together with GFA1 content, version="gfa1" or the rgfa dialect (gfapy has no custom records in
    GFA1; the GFA1 specification is silent): consistency only;
  * dialect="rgfa" without a contradiction: whether a GFA1 document that breaks another rule of the dialect (H/C/P
    lines, missing SN/SO/SR, overlap not 0M) is rejected, and how, is not C13's business - nothing is checked for
    it except the absence of foreign exceptions; a document valid as rGFA must load as gfa1.  When nothing but the
    dialect speaks for GFA1 (neutral document, no version parameter) gfapy's default guess gfa2 makes it raise
    VersionError; the property leaves the neutral case to the documented default, so nothing is checked either;
  * VN values other than 1.0 / 2.0; Gfa.version *during* loading (after each add_line) - except that a refused
    header line leaves it as it was (kind refused);
  * the dialect property itself (Gfa.dialect, is_rgfa() after the assignment); names other than the four spellings
    of rgfa; the dialect changed after lines were added;
  * which of several conflicts is reported, and messages; acceptance of mixed documents at level 0 (the dialect is
    not enforced at level 0);
  * repeated lines given as gfapy.Line objects (only strings are loaded).
"""
import itertools
import os
import tempfile
from collections import Counter
from harness import lib
from harness.props import _docgen as D

ID = "C13"
RULE = ("documents of 1-6 lines: pure GFA1, pure GFA2, neutral (H without VN, comments), mixed (valid document + 1-2 "
        "lines of the other version, or a contradicting VN header), rGFA-conforming content in GFA1 or GFA2 syntax, "
        "GFA2 documents of custom records with record types of several characters (beginning with L/C/P/H/S or not), "
        "60% of them without any version-specific line (expected: accepted as gfa2, every record once); "
        "optionally one identifier-less line (C, F, *-named E/G/O/U, custom record, comment) repeated 2-3 times; every "
        "order of the lines as a list, sampled orders as string and file; x version parameter in {None, gfa1, gfa2} x "
        "dialect in {not given, rgfa} x validation level 0..3; with a dialect also: dialect selected through the "
        "Gfa.dialect property (spelled rgfa / rGFA / RGFA / Rgfa) followed by add_line + validate, resp. read_file - "
        "same expectations (GFA2 content or version=gfa2 -> VersionError). Kind refused (1/12): valid one-version "
        "document of <= 4 lines with a header defining TS (or xx:i), and a header line VN + contradicting TS (or "
        "xx:Z) offered in every order at every place where it must be refused: Gfa.version unchanged by the refused "
        "line, outcome and records of the finished Gfa as without it. Non-trivial: >= 2 lines and at least one "
        "version-specific line or an explicit version / dialect.")
CASE_TIMEOUT = 120


def budget(tier):
    return 700 if tier == "quick" else 5000


OTHER1 = ["S\tZq\t*", "S\tZq\tACGT\tLN:i:4", "L\t{s}\t+\t{s}\t-\t*", "C\t{s}\t+\t{s}\t+\t0\t*", "P\tpz\t{s}+\t*",
          "H\tVN:Z:1.0", "L\t{s}\t+\t{s}\t+\t2M\txx:i:1"]
OTHER2 = ["S\tZq\t4\t*", "S\tZq\t4\tACGT", "E\t*\t{s}+\t{s}+\t0\t0\t0\t0\t*", "G\t*\t{s}+\t{s}-\t10\t*",
          "F\t{s}\tr1+\t0\t0\t0\t0\t*", "O\toz\t{s}+", "U\tuz\t{s}", "H\tVN:Z:2.0", "E\tez\t{s}-\t{s}+\t0\t0\t0\t0\t*"]
ODDVN = ["1.1", "1.2", "2.1", "3.0", "1", "2", "1.00", "gfa1"]
NEUTRAL = ["H", "H\txx:i:1", "H\tyy:Z:a b\tab:f:1.5", "# c", "#", "H\txx:i:2", "# S\tA\t*"]


RGFA_SN = ["chr1", "chr2", "s 1"]
# record types of custom records (GFA2) of more than one character which begin with the code of a GFA1-only record
# (L, C, P) - a reader which looked at the first character only would take them for GFA1 lines - and a few which
# begin with H / S or with no predefined code
CUSTOM_LCP = ["LN", "CL", "Pth", "Pos", "LC", "CP", "LCP", "P2", "LL", "L.C", "Lx", "C1", "PP", "Path", "Link"]
CUSTOM_FIELDS = ["foo", "bar baz", "12", "*", "A+", "x,y", "a:b", "+", "1", "2"]


def gen_custom_doc(rng):
    """A GFA2 document in which custom records (which exist in GFA2 only) carry the weight; the record types come
    from CUSTOM_LCP (+ X, Hx, S1) or from _docgen.CUSTOM_RT_WIDE.  60% `bare`: 1-4 lines, nothing but custom records,
    H lines without VN and comments - no VN, no segment, no E/F/G/O/U line, so that the version is decided only when
    the queue is processed at the end; 40%: a small GFA2 document (segments, mostly no VN) with a large share of
    custom records, which wait in the queue when they come before the first version-specific line."""
    pool = (CUSTOM_LCP + ["X", "Hx", "S1"]) if rng.random() < 0.6 else D.CUSTOM_RT_WIDE
    bare = rng.random() < 0.6
    ml = rng.choice([1, 2, 3, 4] if bare else [2, 3, 4, 5])
    d = D.gen_doc(rng, version="gfa2", max_lines=ml, neutral=bare, no_vn=bare or rng.random() < 0.7, custom_rt=pool,
                  custom_weight=8, same_id_groups=False, odd=0.15, taglike=0.2)
    lines = list(d["lines"])
    if bare:
        lines = [l for l in lines if line_class(l) in "nc"]
    if not any(line_class(l) == "c" for l in lines):
        lines = lines[:ml - 1] if len(lines) >= ml and bare else lines
        x = "\t".join([rng.choice(pool)] + [rng.choice(CUSTOM_FIELDS) for _ in range(rng.choice([0, 1, 2, 3]))] +
                      D.gen_custom_tags(rng, rng.choice([0, 0, 1]), odd=0.1, types="iZAf"))
        lines.insert(rng.randint(0, len(lines)), x)
    while len(lines) > 5 and any(line_class(l) == "n" for l in lines):      # keep the number of orders small
        lines.remove([l for l in lines if line_class(l) == "n"][-1])
    return lines


def gen_rgfa_doc(rng, syntax):
    """A document that satisfies the rules of the rGFA dialect (segments with SN:Z SO:i SR:i, links with overlap 0M
    and optional SR/L1/L2 integer tags, no H/C/P), written in GFA1 syntax - valid rGFA - or, the same content, in
    GFA2 syntax (S with a length, sometimes a `*` edge or a fragment): GFA2 content that passes every rule of the
    dialect except the one C13 is about, that the dialect means GFA1."""
    names = list(D.SEG1)
    rng.shuffle(names)
    names = names[:rng.choice([1, 2, 2, 3])]
    lines = []
    ends = set()
    for k, n in enumerate(names):
        ln = rng.choice([4, 6, 8])
        seq = rng.choice(["*", "ACGTACGT"[:ln]])
        tg = ["SN:Z:" + rng.choice(RGFA_SN), "SO:i:%d" % rng.choice([0, 4, 100]), "SR:i:%d" % rng.choice([0, 0, 1, 2])]
        if rng.random() < 0.3:
            tg += D.gen_custom_tags(rng, 1, odd=0.1, types="iZAf")
        rng.shuffle(tg)
        if syntax == "gfa1":
            lines.append("\t".join(["S", n, seq] + (["LN:i:%d" % ln] if seq == "*" and rng.random() < 0.5 else []) + tg))
        else:
            lines.append("\t".join(["S", n, str(ln), seq] + tg))
    for _ in range(rng.choice([0, 1, 1, 2])):
        if len(lines) >= 5:
            break
        a, b = rng.choice(names), rng.choice(names)
        if syntax == "gfa1":
            tg = [t for t in ["SR:i:1", "L1:i:4", "L2:i:6"] if rng.random() < 0.4]
            oa, ob = rng.choice("+-"), rng.choice("+-")
            if D.ends_key(a, oa, b, ob) in ends:
                continue
            ends.add(D.ends_key(a, oa, b, ob))
            x = "\t".join(["L", a, oa, b, ob, "0M"] + tg)
        else:
            x = rng.choice(["E\t*\t%s+\t%s-\t0\t0\t0\t0\t*" % (a, b), "F\t%s\tread1+\t0\t0\t0\t0\t*" % a,
                            "G\t*\t%s+\t%s-\t10\t*" % (a, b), "# c"])
        lines.append(x)
    if rng.random() < 0.25 and len(lines) < 5:
        lines.append("# rGFA")
    rng.shuffle(lines)
    return lines


# spellings of the name of the dialect given to the `dialect` property of an existing Gfa (the setter takes the name
# in any case; "rGFA" is the spelling of the format's own documentation)
DIALECT_SPELLINGS = ["rgfa", "rGFA", "rGFA", "RGFA", "Rgfa"]


def gen_refused_case(rng):
    """kind `refused`: a small valid document of one version (<= 4 lines) one of whose header lines defines TS (or, at
    vlevel >= 2, the tag xx with datatype i), plus `bad`: a header line which carries a VN tag - of the version of the
    document or of the other one - together with a contradicting definition of that tag (another TS value; xx with
    datatype Z), so that the Gfa must refuse it (InconsistencyError, or VersionError when the version is already
    known to be the other one) wherever it comes after the defining header line.  70% of the documents have no VN
    header of their own and 80% no version parameter, so that the version is still unknown when `bad` arrives."""
    base_v = rng.choice(["gfa1", "gfa1", "gfa2"])               # GFA1: L/C/P lines wait in the queue
    lines = None
    for _ in range(6):
        d = D.gen_doc(rng, version=base_v, max_lines=rng.choice([1, 2, 3, 3]), same_id_groups=False, odd=0.15,
                      taglike=0.2, no_custom=(base_v == "gfa1" or rng.random() < 0.5), no_vn=rng.random() < 0.7)
        cand = [l for l in d["lines"]
                if not (l.split("\t")[0] == "H" and any(t[:3] in ("TS:", "xx:") for t in l.split("\t")[1:]))]
        if 1 <= len(cand) <= 3:
            lines = cand
            break
    if lines is None:
        lines = ["S\tA\t*", "L\tA\t+\tA\t-\t*"] if base_v == "gfa1" else ["S\tA\t4\t*", "F\tA\tread1+\t0\t0\t0\t0\t*"]
    how = rng.choice(["ts", "ts", "ts", "datatype"])
    n, m = rng.choice([(100, 200), (16, 100), (100, 50), (5, 7)])
    vn = "VN:Z:" + rng.choice(["1.0", "2.0"])
    if how == "ts":
        deftags = ["TS:i:%d" % n] + (["qq:Z:a b"] if rng.random() < 0.3 else [])
        badtags = [vn, "TS:i:%d" % m] + (["zz:i:1"] if rng.random() < 0.2 else [])
        vlevel = rng.choice([1, 1, 2, 3, 0])
    else:
        deftags = ["xx:i:%d" % n] + (["TS:i:%d" % n] if rng.random() < 0.3 else [])
        badtags = [vn, "xx:Z:%d" % m]
        vlevel = rng.choice([2, 3])                              # the datatypes are compared at vlevel >= 2 only
    rng.shuffle(deftags)
    rng.shuffle(badtags)
    lines.insert(rng.randint(0, len(lines)), "\t".join(["H"] + deftags))
    return {"kind": "refused", "lines": lines, "label": base_v, "vparam": None if rng.random() < 0.8 else base_v,
            "vlevel": vlevel, "sample": rng.randrange(10 ** 6), "dialect": None, "bad": "\t".join(["H"] + badtags)}


def repeatable(l):
    """lines a document may contain several times: records without an identifier (the GFA specifications give
    identity only to named records), i.e. containments without ID tag, fragments, `*`-named E/G/O/U, custom
    records; and comments"""
    f = l.split("\t")
    if l.startswith("#"):
        return True
    if f[0] == "C":
        return not any(t.startswith("ID:") for t in f[7:])
    if f[0] == "F":
        return True
    if f[0] in ("E", "G", "O", "U"):
        return len(f) > 1 and f[1] == "*"
    return f[0] not in ("H", "S", "L", "P")


def add_repeats(rng, lines, version, maxn):
    """repeat one repeatable line of the document (a synthesised one on a segment of the document when it has
    none, most often of a record type that is queued while the version is unknown: C resp. a custom record)"""
    cand = [l for l in lines if repeatable(l)]
    queued = [l for l in cand if not l.startswith("#") and l.split("\t")[0] not in ("E", "F", "G", "O", "U")]
    if queued and rng.random() < 0.8:
        cand = queued
    segs = [l.split("\t")[1] for l in lines if l.startswith("S\t")]
    if (not queued and rng.random() < 0.7) or not cand:
        if version == "gfa1":
            if not segs:
                return lines
            x = "C\t%s\t%s\t%s\t%s\t0\t*" % (rng.choice(segs), rng.choice("+-"), rng.choice(segs), rng.choice("+-"))
        else:
            x = rng.choice(["X\tfoo", "Y\tbar baz\txx:i:1", "zz", "Q1\t12\t*"])
        if len(lines) >= maxn - 1:
            return lines
        lines = lines + [x]
    else:
        x = rng.choice(cand)
    out = list(lines)
    for _ in range(rng.choice([1, 1, 1, 2])):
        if len(out) < maxn:
            out.insert(rng.randint(0, len(out)), x)
    return out


def gen_case(rng, tier, i):
    kind = rng.choice(["pure1", "pure2", "neutral", "mixed", "mixed", "mixed", "pure1", "pure2", "oddvn", "rgfa", "custom",
                       "refused"])
    big = tier != "quick"
    dialect = None
    if kind == "refused":
        return gen_refused_case(rng)
    repeat = kind in ("pure1", "pure2", "mixed") and rng.random() < 0.3
    if kind == "custom":
        lines = gen_custom_doc(rng)
        if rng.random() < 0.2:
            lines = add_repeats(rng, lines, "gfa2", 5)
        return {"kind": kind, "lines": lines, "label": "gfa2", "vparam": rng.choice([None, None, "gfa2"]),
                "vlevel": rng.choice([1, 1, 2, 3, 0]), "sample": rng.randrange(10 ** 6), "dialect": None}
    if kind == "rgfa":
        label = rng.choice(["gfa1", "gfa2"])
        lines = gen_rgfa_doc(rng, label)
        dialect = "rgfa" if rng.random() < 0.85 else None
        if rng.random() < 0.15:
            lines = add_repeats(rng, lines, label, 6)
    elif kind == "neutral":
        lines = [rng.choice(NEUTRAL) for _ in range(rng.randint(1, 4))]
        label = None
    else:
        base_v = {"pure1": "gfa1", "pure2": "gfa2"}.get(kind) or rng.choice(["gfa1", "gfa2"])
        ml = rng.choice([1, 2, 3, 4, 5, 6] if kind != "mixed" else [1, 2, 3, 4, 5])
        if repeat:
            ml = min(ml, 4)
        if big:
            ml += rng.choice([0, 0, 1, 2])
        d = D.gen_doc(rng, version=base_v, max_lines=ml, same_id_groups=False, odd=0.15, taglike=0.2,
                      no_custom=(base_v == "gfa1" or rng.random() < 0.5))
        lines = list(d["lines"])
        label = base_v
        if kind == "oddvn":
            # a VN header with a value gfapy does not know: whatever the outcome, it is the same in every order
            lines = [l for l in lines if not (l.startswith("H\t") and "VN:Z:" in l)][:5]
            lines.insert(rng.randint(0, len(lines)), "H\tVN:Z:%s" % rng.choice(ODDVN))
            if rng.random() < 0.3:
                lines.insert(rng.randint(0, len(lines)), lines[[l.startswith("H\tVN") for l in lines].index(True)])
        if kind == "mixed":
            pool = OTHER2 if base_v == "gfa1" else OTHER1
            # custom records are outside the claim when GFA1 content is present
            lines = [l for l in lines if l.startswith("#") or l.split("\t")[0] in "HSLCPEFGOU"]
            segs = [l.split("\t")[1] for l in lines if l.startswith("S\t")]
            if not segs:
                lines.append("S\tA\t*" if base_v == "gfa1" else "S\tA\t4\t*")
                segs = ["A"]
            new_ids = set()
            for _ in range(rng.choice([1, 1, 2])):
                if len(lines) < (6 if not big else 8):
                    x = rng.choice(pool).format(s=rng.choice(segs))
                    f = x.split("\t")
                    nid = f[1] if f[0] in "SPOUEG" and f[1] != "*" else None
                    if x in lines or (nid and nid in new_ids):
                        continue
                    if nid:
                        new_ids.add(nid)
                    lines.insert(rng.randint(0, len(lines)), x)
        if repeat:
            lines = add_repeats(rng, lines, base_v, 6 if not big else 8)
    vparam = rng.choice([None, None, "gfa1", "gfa2"])
    if (kind.startswith("pure") or kind == "rgfa") and rng.random() < 0.6:
        vparam = rng.choice([None, None, label]) if kind == "rgfa" else rng.choice([None, label])
    if kind in ("pure1", "pure2", "mixed", "neutral") and rng.random() < 0.12:
        dialect = "rgfa"
    case = {"kind": kind, "lines": lines, "label": label, "vparam": vparam, "vlevel": rng.choice([1, 1, 2, 3, 0]),
            "sample": rng.randrange(10 ** 6), "dialect": dialect}
    if dialect:
        # the spelling under which the dialect is handed to the `dialect` property (entry points `setter` / `setter-file`)
        case["dspell"] = rng.choice(DIALECT_SPELLINGS)
    return case


# ------------------------------------------------------------------ independent classification (text only)
def line_class(l):
    if l.startswith("#"):
        return "n"
    f = l.split("\t")
    rt = f[0]
    if rt == "H":
        vn = [x for x in f[1:] if x.startswith("VN:Z:")]
        if vn:
            return {"VN:Z:1.0": "1", "VN:Z:2.0": "2"}.get(vn[0], "?")
        return "n"
    if rt == "S":
        i = D.split_tags(f)
        return {3: "1", 4: "2"}.get(i, "?")
    if rt in ("L", "C", "P"):
        return "1"
    if rt in ("E", "F", "G", "O", "U"):
        return "2"
    return "c"


def rgfa_valid(lines):
    """text-level: the document obeys the rules of the rGFA dialect (GFA1 syntax assumed)"""
    for l in lines:
        if l.startswith("#"):
            continue
        f = l.split("\t")
        tg = {t[:2]: t[3] for t in f[D.split_tags(f):]}
        if f[0] == "S":
            if (tg.get("SN"), tg.get("SO"), tg.get("SR")) != ("Z", "i", "i"):
                return False
        elif f[0] == "L":
            if len(f) < 6 or f[5] != "0M" or any(tg.get(t, "i") != "i" for t in ("SR", "L1", "L2")):
                return False
        else:
            return False
    return True


def required(case):
    cl = [line_class(l) for l in case["lines"]]
    R = set()
    if "1" in cl:
        R.add("gfa1")
    if "2" in cl:
        R.add("gfa2")
    if case["vparam"]:
        R.add(case["vparam"])
    rgfa = case.get("dialect") == "rgfa"
    content_or_param = set(R)
    if rgfa:
        R.add("gfa1")
    if "c" in cl and "gfa1" not in R:
        # custom records exist in GFA2 only: with nothing that speaks for GFA1 (content, parameter, dialect) the
        # document is valid in GFA2 and in no other version - also when nothing else in it tells the version
        R.add("gfa2")
    oddvn = any(c == "?" and l.startswith("H") for l, c in zip(case["lines"], cl))
    unspecified = any(c == "?" and not l.startswith("H") for l, c in zip(case["lines"], cl)) or ("c" in cl and "gfa1" in R)
    if rgfa and len(R) == 1 and ("gfa1" not in content_or_param or not rgfa_valid(case["lines"])):
        # no contradiction: whether the document is accepted is decided by the other rules of the dialect (or, when
        # nothing but the dialect speaks for GFA1, by the documented default guess gfa2), not by C13
        unspecified = True
    if oddvn and not unspecified:
        unspecified = "oddvn"
    header_only_conflict = False
    if len(R) == 2:
        # is the conflict visible without the VN header / through the header only?
        cl2 = [c for l, c in zip(case["lines"], cl) if not l.startswith("H\t")]
        R2 = set()
        if "1" in cl2:
            R2.add("gfa1")
        if "2" in cl2:
            R2.add("gfa2")
        if case["vparam"]:
            R2.add(case["vparam"])
        if rgfa:
            R2.add("gfa1")
        header_only_conflict = len(R2) < 2
    return R, unspecified, header_only_conflict


def nontrivial(case):
    R, _, _ = required(case)
    return len(case["lines"]) >= 2 and len(R) >= 1


def tags(case):
    R, unspec, hoc = required(case)
    t = [case["kind"], "param:%s" % case["vparam"], "vlevel%d" % case["vlevel"], "n=%d" % len(case["lines"]),
         "R=%d" % len(R)]
    if unspec:
        t.append("unspecified")
    if hoc:
        t.append("conflict-via-VN-only")
    if case.get("dialect"):
        t.append("dialect:" + case["dialect"])
        if case.get("dspell"):
            t.append("setter:" + case["dspell"])
    if case.get("bad"):
        t.append("refused-line-VN-" + ("same" if line_class(case["bad"]) == (case.get("label") or "")[-1:] else "other"))
    if any(n > 1 for n in Counter(case["lines"]).values()):
        t.append("repeated-line")
        if any(n > 1 and line_class(l) in "1c" and l.split("\t")[0] != "S" for l, n in Counter(case["lines"]).items()):
            t.append("repeated-queued-line")
    t += ["rt:" + (l.split("\t")[0] if not l.startswith("#") else "#") for l in case["lines"]]
    return sorted(set(t))


def signature(case, failure):
    return failure.split(":")[0]


def _count_keys(lines, version):
    c = Counter()
    for k, n in D.doc_keys(lines, version).items():
        c[(k[0], k[1]) if k[0] != "H" else k] += n
    return c


def load(gfapy, entry, lines, vlevel, vparam, dialect=None, dspell=None):
    """entry points: list / str (constructor), file (from_file) - the dialect is a parameter -, and setter /
    setter-file: an empty Gfa(vlevel, version) whose dialect is selected through the `dialect` property under the
    spelling `dspell`, then the lines one by one with add_line, process_line_queue() and (vlevel >= 1) validate(),
    as the constructor does, resp. read_file()."""
    kw = {"dialect": dialect} if dialect else {}
    try:
        if entry == "list":
            g = gfapy.Gfa(list(lines), vlevel=vlevel, version=vparam, **kw)
        elif entry == "setter":
            g = gfapy.Gfa(vlevel=vlevel, version=vparam)
            g.dialect = dspell
            for l in lines:
                g.add_line(l)
            g.process_line_queue()
            if vlevel >= 1:
                g.validate()
        elif entry == "str":
            g = gfapy.Gfa("\n".join(lines), vlevel=vlevel, version=vparam, **kw)
        else:
            fd, path = tempfile.mkstemp(prefix="c13_", suffix=".gfa", dir="/tmp")
            try:
                with os.fdopen(fd, "w", newline="") as f:
                    f.write("".join(l + "\n" for l in lines))
                if entry == "setter-file":
                    g = gfapy.Gfa(vlevel=vlevel, version=vparam)
                    g.dialect = dspell
                    g.read_file(path)
                else:
                    g = gfapy.Gfa.from_file(path, vlevel=vlevel, version=vparam, **kw)
            finally:
                try:
                    os.unlink(path)
                except OSError:
                    pass
    except gfapy.VersionError as e:
        return ("VersionError", str(e).split("\n")[0][:80]), None
    except gfapy.Error as e:
        return ("gerr:" + e.__class__.__name__, str(e).split("\n")[0][:80]), None
    except Exception as e:  # noqa
        return ("foreign:" + e.__class__.__name__, str(e).split("\n")[0][:80]), None
    return ("ok", g.version), g


def oracle(case):
    gfapy = lib.import_gfapy()
    lines, vparam, vlevel = case["lines"], case["vparam"], case["vlevel"]
    dialect = case.get("dialect")
    dspell = case.get("dspell")
    R, unspecified, hoc = required(case)
    n = len(lines)
    perms = list(itertools.permutations(range(n))) if n <= 6 else None
    if perms is None:
        r = lib.Rng(case["sample"])
        perms = [tuple(range(n)), tuple(reversed(range(n)))]
        for _ in range(700):
            p = list(range(n))
            r.shuffle(p)
            perms.append(tuple(p))
    r = lib.Rng(case["sample"] + 1)
    extra = {0, len(perms) - 1} | {r.randrange(len(perms)) for _ in range(4)}
    F = {}

    def add(sig, msg):
        F.setdefault(sig, "%s: %s" % (sig, msg))

    conflict = len(R) == 2
    oddvn = unspecified == "oddvn"
    if oddvn:
        unspecified = True
    check_expect = vlevel >= 1 and not unspecified
    check_consistency = (not unspecified and (vlevel >= 1 or not conflict)) or (oddvn and vlevel >= 1)
    expected_version = list(R)[0] if len(R) == 1 else None
    ref = None
    kin = None
    for pi, p in enumerate(perms):
        perm = [lines[i] for i in p]
        entries = ["list"]
        if pi in extra:
            entries = ["list", "str", "file"] + (["setter", "setter-file"] if dialect and dspell else [])
        for entry in entries:
            out, g = load(gfapy, entry, perm, vlevel, vparam, dialect, dspell)
            how = ""
            if dialect:
                how = ", dialect=%s" % dialect
                if entry.startswith("setter"):
                    how = ", Gfa.dialect = %r" % dspell
            where = "%s of %r (version=%s, vlevel=%d%s)" % (entry, perm, vparam, vlevel, how)
            if out[0].startswith("foreign:"):
                add("foreign-exception[%s]" % out[0][8:], "%s raised %s %s" % (where, out[0][8:], out[1]))
            if check_consistency:
                key = out if out[0] == "ok" else (out[0],)
                if ref is None:
                    ref = (key, where, out)
                elif key != ref[0]:
                    a, b = sorted([_short(ref[0]), _short(key)])
                    add("outcome-differs[%s|%s]" % (a, b), "%s -> %r but %s -> %r" % (ref[1], ref[2], where, out))
            if check_expect:
                if conflict:
                    if out[0] == "ok":
                        add("conflict-accepted", "%s loaded as %r although it requires %s" % (where, out[1], sorted(R)))
                    elif out[0] != "VersionError" and not out[0].startswith("foreign:"):
                        add("conflict-wrong-error[%s]" % out[0][5:], "%s raised %s %s, expected VersionError (requires %s)"
                            % (where, out[0][5:], out[1], sorted(R)))
                elif expected_version is not None:
                    if out[0] != "ok":
                        if not out[0].startswith("foreign:"):
                            add("valid-rejected[%s]" % out[0].replace("gerr:", ""), "%s raised %s, expected version %s"
                                % (where, out, expected_version))
                    elif out[1] != expected_version:
                        add("version-wrong", "%s has version %r, expected %s" % (where, out[1], expected_version))
            if g is not None and not unspecified and (not conflict):
                v = g.version if g.version in ("gfa1", "gfa2") else (expected_version or "gfa2")
                try:
                    if kin is None or kin[0] != v:
                        kin = (v, _count_keys(lines, v))
                    t = str(g)
                    kout = _count_keys(t.split("\n") if t else [], v)
                    for k in set(kin[1]) | set(kout):
                        a, b = kin[1].get(k, 0), kout.get(k, 0)
                        if b > a:
                            add("line-added-more-than-once", "%s: %s occurs %d times in the input, %d in the Gfa"
                                % (where, D.show_key((k[0], k[1], ())), a, b))
                        elif b < a:
                            add("line-lost", "%s: %s occurs %d times in the input, %d in the Gfa"
                                % (where, D.show_key((k[0], k[1], ())), a, b))
                except D.Unparsable as e:
                    add("output-unparsable", "%s: %s" % (where, e))
    if case.get("bad"):
        _refused_runs(gfapy, case, perms, add)
    return list(F.values())


# ------------------------------------------------------------------ a refused header line is not content
def header_defs(lines):
    """text-level: tag name -> (datatype, value) of the first definition in the header lines among `lines`"""
    defs = {}
    for l in lines:
        f = l.split("\t")
        if f[0] == "H":
            for t in f[1:]:
                m = D.TAG_RE.match(t)
                if m:
                    defs.setdefault(m.group(1), (m.group(2), m.group(3)))
    return defs


def must_be_refused(before, bad, vlevel):
    """text-level: after the lines `before` the header line `bad` cannot be merged: it gives TS (defined once per
    document) another value than an earlier header line or, at vlevel >= 2, gives a tag another datatype"""
    defs = header_defs(before)
    for name, (t, v) in header_defs([bad]).items():
        if name in defs:
            if name == "TS" and (t, v) != defs[name]:
                return True
            if vlevel >= 2 and t != defs[name][0]:
                return True
    return False


def incremental(gfapy, lines, vlevel, vparam, bad=None, k=None):
    """Gfa(vlevel, version), the lines one by one with add_line, process_line_queue() and (vlevel >= 1) validate() -
    what the constructor does with a list; before lines[k] the line `bad` is offered and the exception it raises is
    caught.  -> (outcome, Gfa or None, what happened to `bad`: None | ("accepted",) | ("refused", exception class,
    version before, version after) | ("foreign", exception class, message))"""
    badinfo = None
    try:
        g = gfapy.Gfa(vlevel=vlevel, version=vparam)
        for j in range(len(lines) + 1):
            if bad is not None and j == k:
                v0 = g.version
                try:
                    g.add_line(bad)
                    return None, None, ("accepted",)
                except gfapy.Error as e:
                    badinfo = ("refused", e.__class__.__name__, v0, g.version)
                except Exception as e:  # noqa
                    return None, None, ("foreign", e.__class__.__name__, str(e).split("\n")[0][:80])
            if j < len(lines):
                g.add_line(lines[j])
        g.process_line_queue()
        if vlevel >= 1:
            g.validate()
    except gfapy.VersionError as e:
        return ("VersionError", str(e).split("\n")[0][:80]), None, badinfo
    except gfapy.Error as e:
        return ("gerr:" + e.__class__.__name__, str(e).split("\n")[0][:80]), None, badinfo
    except Exception as e:  # noqa
        return ("foreign:" + e.__class__.__name__, str(e).split("\n")[0][:80]), None, badinfo
    return ("ok", g.version), g, badinfo


def _refused_runs(gfapy, case, perms, add):
    """every order of the document, the header line `bad` offered at every place where the text says that it must be
    refused: the refusal changes nothing - neither Gfa.version at that moment nor the outcome and the records of the
    finished Gfa, which are those of the same lines added without `bad`"""
    lines, vparam, vlevel, bad = case["lines"], case["vparam"], case["vlevel"], case["bad"]
    for p in perms:
        perm = [lines[i] for i in p]
        ref = None
        for k in range(1, len(perm) + 1):
            if not must_be_refused(perm[:k], bad, vlevel):
                continue
            out, g, info = incremental(gfapy, perm, vlevel, vparam, bad, k)
            where = "add_line of %r one by one (version=%s, vlevel=%d), %r offered after line %d" % (perm, vparam, vlevel,
                                                                                                    bad, k)
            if info is None:
                continue            # an earlier line of the document was rejected
            if info[0] == "foreign":
                add("foreign-exception[%s]" % info[1], "%s raised %s %s" % (where, info[1], info[2]))
                continue
            if info[0] != "refused":
                continue            # that the header line is refused is not C13's business
            where += " and refused (%s)" % info[1]
            if info[3] != info[2]:
                add("refused-line-set-version", "%s: Gfa.version was %r before the refused line and is %r after it"
                    % (where, info[2], info[3]))
            if ref is None:
                ref = incremental(gfapy, perm, vlevel, vparam)
            if out[0].startswith("foreign:"):
                add("foreign-exception[%s]" % out[0][8:], "%s: raised %s %s" % (where, out[0][8:], out[1]))
            ka, kb = (out if out[0] == "ok" else (out[0],)), (ref[0] if ref[0][0] == "ok" else (ref[0][0],))
            if ka != kb:
                a, b = sorted([_short(ka), _short(kb)])
                add("refused-line-changed-outcome[%s|%s]" % (a, b), "%s -> %r but the same lines without it -> %r"
                    % (where, out, ref[0]))
            elif g is not None and g.version in ("gfa1", "gfa2"):
                try:
                    ta, tb = str(g), str(ref[1])
                    ca = _count_keys(ta.split("\n") if ta else [], g.version)
                    cb = _count_keys(tb.split("\n") if tb else [], g.version)
                    for key in set(ca) | set(cb):
                        if ca.get(key, 0) != cb.get(key, 0):
                            add("refused-line-changed-content", "%s: %s occurs %d times in the Gfa, %d times when the same "
                                "lines are added without it" % (where, D.show_key((key[0], key[1], ())), ca.get(key, 0),
                                                                cb.get(key, 0)))
                except D.Unparsable as e:
                    add("output-unparsable", "%s: %s" % (where, e))


def _short(key):
    return key[0].replace(":", "=") if key[0] != "ok" else "ok=%s" % key[1]


def shrink(case, failure):
    sig = failure.split(":")[0]
    cur = dict(case)

    def still(c):
        try:
            return any(f.split(":")[0] == sig for f in oracle(c))
        except Exception:  # noqa
            return False

    changed = True
    while changed:
        changed = False
        for i in range(len(cur["lines"]) - 1, -1, -1):
            cand = cur["lines"][:i] + cur["lines"][i + 1:]
            if not cand:
                continue
            c = dict(cur, lines=cand)
            R, _, _ = required(c)
            ok_closed = True
            if len(R) <= 1:
                v = (list(R) or ["gfa2"])[0]
                ok_closed = D.refs_closed(cand, v)
            if ok_closed and still(c):
                cur = c
                changed = True
    return cur
