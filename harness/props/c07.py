"""C07 — only gfapy.Error exceptions escape, whatever the input.

Every call listed in the property's `observe_at` is made on fuzzed input under
    try: call()  except gfapy.Error: fine  except BaseException: FAILURE
with a 10 s alarm per call (expiry = failure `hang`).  The failure signature is
    foreign:<ExceptionClass>@<innermost gfapy source file>:<function>
taken from the traceback (stable when line numbers move).  RecursionError keeps its own prefix
`foreign:RecursionError@...`.

WHAT IS OFFERED (case kinds; x = exhaustive plan, r = random)
  tagx/posx/special/mutline/mutdoc/deep/apix (x), line/doc/api (r): as described in RULE below.
  oddname (x)  identifiers which str.isdigit()/int() treat in a special way (thousands of digits -- beyond the 4300-digit
               limit of int() --, leading zeros, superscript / Arabic-Indic / full-width / circled digits, vulgar
               fractions, signs) in every place a document writes an identifier (ODD_TEMPLATES: S, L, C, P, E, F, G, O,
               U, X lines, ID tags, list elements), through Gfa(text), add_line, Gfa(list); looked up (line,
               try_get_line, segment, try_get_segment), removed (rm) and given to an existing line (line.name = ...).
               The random `line`, `doc`, `api` and `graph` cases substitute / use the same identifiers now and then.
  plist (x)    GFA1 paths of 1..5 segments with every number of overlaps from none to nseg+2 (CIGARs and `*`), alone,
               with / before / after their segments, with and without the links (linear and circular), levels 0-3.
               Random `doc` and `graph` cases add paths whose number of overlaps is arbitrary.
  rawx (x), rawfile (r)   files given to Gfa.from_file whose bytes are not UTF-8: byte sequences of RAW_BYTES (lone
               continuation and lead bytes, truncated sequences, surrogates, overlong forms, BOMs, 0xFF/0xFE) inserted
               into / written over a valid document at its start, in a comment, a name, a tag, before a newline, at the
               end, after 120 lines and next to the 8192-byte buffer boundary; the same documents written in UTF-16,
               UTF-32, Latin-1, cp1252, UTF-8 with BOM; random byte damage of random documents.
  deps (x)     removal of a line which has two dependants: s1, s2 and every ordered pair of lines which depend on s1
               (DEPS1/DEPS2: dovetail, reverse, hairpin and self links / edges, containments, fragments, gaps, paths,
               sets, ordered groups; with and without an identifier of their own) and, for GFA2, every group which
               lists the first dependant and possibly s1 again (group of a group sharing a member; both orders in the
               file): rm(name) of each of the four lines, rm(line object), line.disconnect(), each on a fresh graph,
               then str(gfa) and gfa.validate().
  apiseq (x)   every two-call sequence on one line object of a three-line graph (the segment s1; its dependant, one of
               10 kinds): first a call which changes the line (delete(tag), set(tag, None) for every tag, set(field,
               string) for every positional field, line.name = new / existing / empty / placeholder / invalid name,
               disconnect(), gfa.rm(line)), then rm(line), disconnect(), connect(gfa), rm(old name), validate(),
               rename, delete(tag), set(tag, value); then str(gfa), gfa.validate().
               `segs=between` / `segs=never`: the same sequences on the dependant when it is the FIRST line of a graph
               built line by line (Gfa(); add_line): the segments it mentions are placeholders and the Gfa holds no S
               line at all (no line of any other kind when the dependant is a group) while the first call is made;
               the two S lines are added between the first and the second call / never (levels 1 and 3).
  unname (x)   the NAME of a line which groups list IS REMOVED: identifier := `*` through line.set(<identifier field>,
               "*"), line.set("name", "*"), line.<identifier field> = "*", line.name = "*" (gfapy refuses it as long
               as a group lists the line; building that refusal must not fail).  GFA2 graph in which every kind of
               member is listed (segments, edges, a gap by a set; segments and edges by a path; the named ones of
               these two groups, a segment and the gap by an outer set), for each of the 8 combinations of the three
               groups having an identifier or none (`U * ...`, `O * ...`: the identifier of a group is optional), and
               a GFA1 graph with two paths (segment, link with ID, path); every target x way on a fresh graph built
               by Gfa(list) / line by line, groups first; then str(gfa), validate, line(old name), rm(line), levels 0-3.
  graph (r)    a random small graph (rnd_graph: several links per segment end, hairpin / self links, containments,
               paths over links, fragments, gaps, groups of groups sharing members, mutually nested groups, forward
               references, undefined references, placeholders identifiers) built by Gfa(list) or add_line; the line
               objects are taken from Gfa.lines; then 1..6 random calls out of rm(name), rm(line), disconnect,
               connect, set, set(tag, None), delete, rename, get, field_to_s, validate, str, add_line, line /
               try_get_line, str(gfa), gfa.validate() -- also on line objects which an earlier call removed,
               disconnected or renamed; at the end str(gfa), gfa.validate(), str() of every line object taken and
               validate() of every line of the graph; then the graph is taken apart: rm(line object) for every
               object taken (also those no longer in the graph), try_get_line(name) and rm(name) for every line
               still left, str(gfa), gfa.validate() -- a line which an earlier call left registered under another
               identifier than its own, or half connected, must still be refused or removed with a gfapy.Error.
               About a third of the scripts start on an INCOMPLETE graph (split_graph): lines are held back
               (`late`) and added before step `late_at` or never -- either the lines arrive from the most to the
               least dependent record type (groups, paths, gaps, fragments, edges, segments, i.e. every line before
               the lines it mentions) and the script starts after the first few, or whole record types are held
               back; so calls are made while segments / edges / members are placeholders and while whole
               collections of the Gfa (e.g. its segments) are empty.  `shrink` removes steps and lines.
               16% of the GFA2 scripts (force_unname) get a group WITHOUT identifier which lists a named line (an
               existing group loses its identifier -- groups listing it then mention an undefined line -- or a new
               `U *` / `O *` line is inserted) and a step `unname` at a random place of the script: the line is looked
               up by name (Gfa.line) and its identifier is set to `*` (one time in four to the empty string) in one
               of the four ways of `unname` above.

`line.set(tag, None)` is made although None is not a string: it is the documented way to remove a tag
(doc/tutorial/tags.rst); it is only made for tags the line has.

FINDING ON THE UNCHANGED TREE (genuine, not hidden; signature foreign:AttributeError@gfa.py:__validate_group_items)
  mutually nested groups (`U u0 o1` + `O o1 u0+`, or `O o1 o3+` + `O o3 o1+`) at vlevel 3: rm() of one of them stops
  half-way with gfapy.TypeError (a member reference is already None when the items field is validated during the
  disconnection), both lines stay in the graph and the following Gfa.validate() raises the builtin AttributeError
  "'str' object has no attribute 'virtual'".  Reached by random `graph` cases (mutually nested groups), about one
  case in 3000.

NOT CHECKED
  * unreadable / missing files (OSError comes from the operating system, not from the text offered);
  * non-string arguments (numbers, objects; None except as above) to the string-taking API: the property speaks of strings;
  * bin/gfapy-validate's exit status;
  * which gfapy.Error subclass is raised, whether anything should have been raised at all (C04/C18), and the state in
    which a refused call leaves the graph (C09/C12/C13): only the class of what escapes is judged here;
  * memory exhaustion.
"""
import itertools, os, tempfile
from harness import lib
from harness.props import _misc as M
from harness.props import c04_oracle as G

ID = "C07"
ALARM = 10
RULE = ("exhaustive: the short-string enumerations of C04 (every tag datatype, every kind of positional field) and every "
        "single-point mutation of 25 valid lines and 3 valid documents, each at levels 0-3 and with version None/gfa1/gfa2 "
        "(documents also dialect rgfa, through Gfa(text), Gfa(list), add_line one by one and from_file); empty, blank, "
        "truncated and over-long lines; deep nesting (JSON depth 10..2000, group chains 10..2000); the string-taking API "
        "(line, segment, rm, try_get_line, try_get_segment, set, get, delete, field_to_s, validate, str) with identifiers, "
        "field names and values from a pool of present / absent / malformed strings; identifiers made of very many or of "
        "non-ASCII digits in every identifier position; GFA1 paths with every number of overlaps; files whose bytes are "
        "not UTF-8 (damaged at 8 kinds of places, other encodings); removal (by name, by object, disconnect) of each line "
        "of every graph made of a segment and two lines depending on it or on each other; every two-call sequence "
        "(change a line, then use it) on the lines of 10 three-line graphs, also with the dependant added first and its "
        "segments added between the two calls or never; removal of the name (identifier := '*', 4 ways) of every kind of "
        "line listed by groups, the groups having an identifier or none (8 combinations, GFA2; GFA1 paths); "
        "random: random byte-ish strings, random "
        "multi-point mutations, random byte damage of files, random API scripts on a fixed document and on the line "
        "objects of random small graphs with a rich dependency structure (a third of them still incomplete when the "
        "script starts: lines arrive during the script, dependants before the lines they mention; 16% of the GFA2 ones with "
        "a group without identifier and a call removing the name of a line it lists), every graph taken "
        "apart line by line at the end.  Non-trivial: every case (each makes at least "
        "one call).")
CASE_TIMEOUT = 120

VERSIONS = [None, "gfa1", "gfa2"]

SPECIAL_LINES = ["L\tA\t+\tB\t+\t*\tID:i:5", 'L\tA\t+\tB\t+\t*\tID:J:["c", 1]', "C\tA\t+\tB\t+\t0\t*\tID:f:1.5",
                 "L\tA\t+\tB\t+\t*\tID:B:c,1", "L\tA\t+\tB\t+\t*\tID:A:x", "L\tA\t+\tB\t+\t*\tID:H:0A", "", " ", "\t", "\t\t", "S", "S\t", "S\tA", "L", "L\tA", "L\tA\t+", "C\tA\t+\tB", "P", "P\tp", "E", "E\t*", "F\tA", "G",
                 "O", "O\t*", "U", "U\t*", "H\t", "H\t\t", "#", "##", "\n", "\r", "S\tA\t*\r", "\x00", "S\t\x00\t*", "é", "S\té\t*",
                 "\tS\tA\t*", " S\tA\t*", "S \tA\t*", "S\tA\t*\t", "S\tA\t*\t\t", "S\tA\t*\txx", "S\tA\t*\txx:", "S\tA\t*\txx:i",
                 "S\tA\t*\txx:i:", "S\tA\t*\t:i:1", "S\tA\t*\txx::1", "S\tA\t*\txx:Q:1", "E\t*\tA+\tB-\t$\t1\t0\t1\t*",
                 "E\t*\tA+\tB-\t0\t$\t0\t1\t*", "F\tA\tr+\t$\t$\t$\t$\t*", "E\t*\t+\t-\t0\t1\t0\t1\t*", "E\t*\tA\tB\t0\t1\t0\t1\t*",
                 "G\t*\t+\t-\t1\t*", "O\t*\t+", "O\t*\t ", "O\t*\t", "U\t*\t ", "U\t*\t", "P\tp\t+\t*", "P\tp\t,\t*", "P\tp\t,+\t*",
                 "P\tp\tA+,\t*", "P\tp\t,A+\t*", "P\tp\tA+\t,", "P\tp\tA+\t", "P\tp\t\t", "L\tA\t\tB\t\t", "C\tA\t+\tB\t-\t\t",
                 "F\tA\tr+\t0\t1\t0\t1\t*\tVN:Z:x", "F\tA\tr+\t0\t1\t0\t1\t*\tVN:i:1", "H\tVN:Z:", "H\tVN:Z:1.0\tVN:Z:1.0",
                 "H\tTS:i:x", "S\tA\t*\tLN:i:x", "S\tA\tACGT\tLN:i:x", "S\tA\tACGT\tLN:Z:4", "S\tA\t*\txx:B:", "S\tA\t*\txx:B:,",
                 "S\tA\t*\txx:B:c", "S\tA\t*\txx:B:f,", "S\tA\t*\txx:B:f,x", "S\tA\t*\txx:B:c,x", "S\tA\t*\txx:B:q,1", "S\tA\t*\txx:H:",
                 "S\tA\t*\txx:H:G", "S\tA\t*\txx:H:0", "S\tA\t*\txx:J:", "S\tA\t*\txx:J:{", "S\tA\t*\txx:J:nul", "S\tA\t*\txx:J:\"",
                 "S\tA\t*\txx:J:[1e999999]", "S\tA\t*\txx:f:1e999999", "S\tA\t*\txx:i:" + "9" * 5000,
                 "S\t" + "A" * 20000 + "\t*", "S\tA\t" + "ACGT" * 5000, "S\tA\t*" + "\txx:i:1" * 300,
                 "X", "X\t", "X\ta\txx:i:x", "X\txx:i:1", "\x7f\ta", "L\tA\t+\tB\t-\t*", "SS\tA\t*", "S1\tA", "H1", "HVN:Z:1.0",
                 "E\te\tA+\tB-\t0\t1\t0\t1\t1,a", "E\te\tA+\tB-\t0\t1\t0\t1\t1,", "E\te\tA+\tB-\t0\t1\t0\t1\t,1",
                 "E\te\tA+\tB-\t0\t1\t0\t1\t1M,", "L\tA\t+\tB\t-\tM", "L\tA\t+\tB\t-\t1", "L\tA\t+\tB\t-\t1M1", "L\tA\t+\tB\t-\t*M",
                 "C\tA\t+\tB\t-\t$\t*", "C\tA\t+\tB\t-\t1$\t*", "S\tA\t$\t*", "S\tA\t1$\t*", "G\t*\tA+\tB-\t$\t*", "G\t*\tA+\tB-\t1\t$"]

ID_POOL = ["A", "B", "e1", "l1", "p", "o", "u", "g", "zz", "", " ", "*", "A+", "A-", "+", "\t", "\n", "é", "1", "-1", "$", "0$",
           "xx:i:1", "A\tB", "A B", "A,B", "A" * 3000, "name", "None", "0", "r", "r+", "#", "S", "H", "\x00"]
FIELD_POOL = ["name", "sid", "slen", "sequence", "from_segment", "from_orient", "to_segment", "to_orient", "overlap", "pos",
              "path_name", "segment_names", "overlaps", "eid", "sid1", "sid2", "beg1", "end1", "beg2", "end2", "alignment",
              "external", "s_beg", "s_end", "f_beg", "f_end", "gid", "disp", "var", "pid", "items", "content", "spacer",
              "record_type", "field1", "LN", "RC", "ID", "VN", "TS", "xx", "ab", "a1", "zz", "XX", "", " ", "a", "abc", "1a", "é",
              "a\tb", "a:", "virtual", "gfa", "vlevel", "version", "__class__", "_data", "tagnames", "length", "container", "oriented_from",
              "from_name", "LN:i:1", "*", "+"]
VALUE_POOL = ["1", "-1", "+1", "1.5", "x", "", " ", "*", "A", "B", "zz", "A+", "B-", "zz+", "+", "-", "2M", "1M1I", "1,2", "0", "4$", "$",
              "ACGT", "ac", "[1]", "{\"a\":1}", "{", "c,1", "c,300", "f,1", "f,x", "00FF", "0g", "a b", "a\tb", "a\nb", "é", "\x7f",
              "A+,B-", "A+ B-", "A B", "A+,zz+", "e1+", "1_0", " 5", "inf", "nan", "9" * 400, "x" * 5000, "1.0", "2.0", "3.0", "9" * 5000, "9" * 5000 + "M", "1," + "9" * 5000, "9" * 5000 + "$", "-" + "9" * 4400]

API_DOCS = [
    ("gfa1", ["H\tVN:Z:1.0\txx:i:1", "S\tA\tACGT\tLN:i:4", "S\tB\t*\tLN:i:5\tzz:J:[1]", "L\tA\t+\tB\t-\t2M\tID:Z:l1",
              "C\tA\t+\tB\t+\t1\t2M", "P\tp\tA+,B-\t2M", "# c"]),
    ("gfa2", ["H\tVN:Z:2.0\tTS:i:10", "S\tA\t4\tACGT", "S\tB\t5\t*\tbb:B:c,1", "E\te1\tA+\tB-\t2\t4$\t3\t5$\t2M",
              "F\tA\tr+\t0\t2\t0\t2$\t*", "G\tg\tA+\tB+\t10\t3", "O\to\tA+ e1+ B-", "U\tu\tA g o", "X\tcust\txx:i:1", "# c"]),
]
API_CALLS = ["line", "segment", "rm", "try_get_line", "try_get_segment", "set", "get", "delete", "field_to_s", "validate_line",
             "str", "validate", "add_line", "validate_field"]

# identifiers which look like numbers to str.isdigit() / int() without being small ASCII decimals, and neighbours
ODD_NAMES = ["1" * 5000, "9" * 4301, "9" * 4300, "0" * 6000, "1" * 100, "²", "¹²", "1²", "٣", "١٢٣",
             "１２", "①", "⅕", "१२", "三", "-1", "+1", "1_0", "1.0", "1e3", "0x10", "00", "٣a"]
# {n}: the identifier under test; every position of a document in which an identifier is written
ODD_TEMPLATES = [
    ("gfa1", ["S\t{n}\t*"]),
    ("gfa1", ["S\t{n}\t*", "S\tB\t*", "L\t{n}\t+\tB\t-\t*", "P\tp\t{n}+,B-\t*"]),
    ("gfa1", ["S\tB\t*", "L\tB\t+\t{n}\t-\t*"]),
    ("gfa1", ["S\tA\t*", "S\tB\t*", "L\tA\t+\tB\t-\t*\tID:Z:{n}"]),
    ("gfa1", ["S\tA\t*", "S\tB\t*", "C\tA\t+\tB\t-\t0\t*\tID:Z:{n}"]),
    ("gfa1", ["C\t{n}\t+\tB\t-\t0\t*"]),
    ("gfa1", ["S\tA\t*", "S\tB\t*", "P\t{n}\tA+,B-\t*"]),
    ("gfa1", ["P\tp\tA+,{n}-\t*"]),
    ("gfa1", ["S\t7\t*", "S\t{n}\t*", "S\t8\t*"]),
    ("gfa2", ["S\t{n}\t4\t*"]),
    ("gfa2", ["S\tA\t4\t*", "S\tB\t4\t*", "E\t{n}\tA+\tB-\t0\t1\t0\t1\t*"]),
    ("gfa2", ["S\tB\t4\t*", "E\te\t{n}+\tB-\t0\t1\t0\t1\t*"]),
    ("gfa2", ["F\t{n}\tr+\t0\t1\t0\t1\t*"]),
    ("gfa2", ["S\tA\t4\t*", "F\tA\t{n}+\t0\t1\t0\t1\t*"]),
    ("gfa2", ["S\tA\t4\t*", "S\tB\t4\t*", "G\t{n}\tA+\tB-\t1\t*"]),
    ("gfa2", ["G\tg\t{n}+\tB-\t1\t*"]),
    ("gfa2", ["S\tA\t4\t*", "O\t{n}\tA+"]),
    ("gfa2", ["S\tA\t4\t*", "O\to\tA+ {n}+"]),
    ("gfa2", ["S\tA\t4\t*", "U\t{n}\tA"]),
    ("gfa2", ["S\tA\t4\t*", "U\tu\tA {n}", "U\tv\t{n} u"]),
    ("gfa2", ["X\t{n}\txx:i:1", "S\t{n}\t4\t*"]),
]

# lines which depend on the segment s1 (GFA1 / GFA2); {id}: the dependant's own identifier ("" = it has none)
DEPS1 = {
    "Ldove": "L\ts1\t+\ts2\t+\t*{idtag}", "Lrev": "L\ts2\t-\ts1\t-\t*{idtag}", "Lhair": "L\ts1\t+\ts1\t-\t*{idtag}",
    "Lhair2": "L\ts1\t-\ts1\t+\t*{idtag}", "Lself": "L\ts1\t+\ts1\t+\t*{idtag}", "C12": "C\ts1\t+\ts2\t+\t0\t*{idtag}",
    "C21": "C\ts2\t+\ts1\t-\t0\t*{idtag}", "Cself": "C\ts1\t+\ts1\t-\t0\t*{idtag}", "P1": "P\t{id}\ts1+\t*",
    "P11": "P\t{id}\ts1+,s1-\t*", "P12": "P\t{id}\ts1+,s2+\t*", "P21": "P\t{id}\ts2-,s1-\t*",
}
DEPS2 = {
    "Edove": "E\t{id}\ts1+\ts2+\t6\t10$\t0\t4\t*", "Ehair": "E\t{id}\ts1+\ts1-\t6\t10$\t6\t10$\t*",
    "Eself": "E\t{id}\ts1+\ts1+\t6\t10$\t0\t4\t*", "Eint": "E\t{id}\ts2-\ts1+\t2\t5\t3\t6\t*",
    "F": "F\ts1\tr+\t0\t10$\t0\t10\t*", "G": "G\t{id}\ts1+\ts2-\t5\t*", "Gself": "G\t{id}\ts1-\ts1+\t5\t*",
    "U1": "U\t{id}\ts1", "U12": "U\t{id}\ts1 s2", "U11": "U\t{id}\ts1 s1", "O1": "O\t{id}\ts1+", "O11": "O\t{id}\ts1+ s1-",
}
# second-level dependants: lines which mention the first dependant ({d}) and possibly s1 again
DEPS2_OVER = {
    "U(d)": "U\t{id}\t{d}", "U(s1,d)": "U\t{id}\ts1 {d}", "U(d,s1)": "U\t{id}\t{d} s1", "U(s1,d,s2)": "U\t{id}\ts1 {d} s2",
    "O(d)": "O\t{id}\t{d}+", "O(s1,d)": "O\t{id}\ts1+ {d}+", "O(d,s1)": "O\t{id}\t{d}- s1+",
}

RAW_BYTES = ["80", "ff", "c3", "c328", "e282", "eda080", "f8888080", "fffe", "feff", "c0af", "e9"]
RAW_WHERE = ["start", "comment", "name", "tag", "newline", "end", "far", "chunk"]
RAW_ENCODINGS = ["enc:utf-16", "enc:utf-16-le", "enc:utf-32", "enc:latin-1", "enc:cp1252", "enc:utf-8-sig"]


# ---------------------------------------------------------------------------------------------------- plan
def _plan(tier):
    plan = []
    n = G.maxlen(tier)
    for dt in "AifZJHB":
        tot = G.n_strings(G.TAG_ALPHA[dt], n)
        for v in (0, 1, 2, 3):
            for c in range(0, tot, 300):
                plan.append({"kind": "tagx", "dt": dt, "vlevel": v, "from": c, "to": min(tot, c + 300), "n": n})
    for ctx in G.POS_CTX:
        tot = G.n_strings(G.POS_CTX[ctx][2], n)
        for v in (0, 1, 2, 3):
            for c in range(0, tot, 300):
                plan.append({"kind": "posx", "ctx": ctx, "vlevel": v, "from": c, "to": min(tot, c + 300), "n": n})
    for v in (0, 1, 2, 3):
        for ver in VERSIONS:
            for c in range(0, len(SPECIAL_LINES), 30):
                plan.append({"kind": "special", "vlevel": v, "version": ver, "from": c, "to": c + 30})
    nalpha = len(G.MUT_ALPHA) if tier == "thorough" else 4
    for b in range(len(G.BASE_LINES)):
        for v in (0, 1, 2, 3):
            for ver in VERSIONS:
                if tier != "thorough" and ver not in (None, G.BASE_LINES[b][0]) and v not in (0, 1):
                    continue
                for o in G.OPS:
                    plan.append({"kind": "mutline", "base": b, "vlevel": v, "version": ver, "op": o, "nalpha": nalpha})
    for d in range(len(G.BASE_DOCS)):
        text = "\n".join(G.BASE_DOCS[d][2])
        for v in (0, 1, 2, 3):
            for ver in VERSIONS:
                for dia in ("standard", "rgfa"):
                    if tier != "thorough" and (ver not in (None, G.BASE_DOCS[d][0]) or (dia != G.BASE_DOCS[d][1] and v != 1)):
                        continue
                    for how in ("text", "list", "add", "file"):
                        if tier != "thorough" and how != "text" and v not in (0, 1):
                            continue
                        for o in G.DOC_OPS:
                            if o in ("del", "ins", "rep"):
                                for c in range(0, len(text) + 1, 60):
                                    plan.append({"kind": "mutdoc", "doc": d, "vlevel": v, "version": ver, "dialect": dia, "how": how,
                                                 "op": o, "from": c, "to": c + 60, "nalpha": 2 if tier != "thorough" else len(G.MUT_ALPHA)})
                            else:
                                plan.append({"kind": "mutdoc", "doc": d, "vlevel": v, "version": ver, "dialect": dia, "how": how,
                                             "op": o, "from": 0, "to": 10 ** 6, "nalpha": 0})
    for depth in ([10, 100, 500, 990, 1100, 2000] if tier != "thorough" else [10, 50, 100, 300, 500, 800, 950, 990, 1000, 1100, 1500, 2000]):
        for v in (0, 1, 2, 3):
            for shape in ("json-list", "json-dict", "O-chain", "U-chain", "U-twice", "json-set"):
                plan.append({"kind": "deep", "shape": shape, "depth": depth, "vlevel": v})
    for d in range(len(API_DOCS)):
        for v in (0, 1, 2, 3):
            for call in API_CALLS:
                plan.append({"kind": "apix", "doc": d, "vlevel": v, "call": call})
    for t in range(len(ODD_TEMPLATES)):
        for v in (0, 1, 2, 3):
            plan.append({"kind": "oddname", "tpl": t, "vlevel": v})
    for ver, tab in (("gfa1", DEPS1), ("gfa2", DEPS2)):
        for first in sorted(tab):
            for v in (0, 1, 2, 3):
                plan.append({"kind": "deps", "version": ver, "first": first, "vlevel": v})
    for nseg in (1, 2, 3, 4, 5):
        for v in (0, 1, 2, 3):
            plan.append({"kind": "plist", "nseg": nseg, "vlevel": v})
    for shape in range(len(LONGLIST)):
        for v in (0, 1, 2, 3):
            plan.append({"kind": "longlist", "shape": shape, "vlevel": v})
    for d in range(len(G.BASE_DOCS)):
        for v in (0, 1):
            plan.append({"kind": "progress", "doc": d, "vlevel": v})
    for ver, dep in APISEQ_DOCS:
        for v in (0, 1, 2, 3):
            plan.append({"kind": "apiseq", "version": ver, "dep": dep, "vlevel": v})
            # the dependant arrives before its segments: they are added between the two calls / never
            for segs in (("between", "never") if v in (1, 3) else ("between",)):
                plan.append({"kind": "apiseq", "version": ver, "dep": dep, "vlevel": v, "segs": segs})
    for d in range(len(G.BASE_DOCS)):
        for where in RAW_WHERE + RAW_ENCODINGS:
            for v in (0, 1, 2, 3):
                plan.append({"kind": "rawx", "doc": d, "where": where, "vlevel": v})
    # (appended last: the indices of the cases above stay what they were)
    for v in (0, 1, 2, 3):
        for how in ("list", "add"):
            plan.append({"kind": "unname", "vlevel": v, "how": how})
    return plan


_PLAN = {}


def plan(tier):
    if tier not in _PLAN:
        _PLAN[tier] = _plan(tier)
    return _PLAN[tier]


def n_exhaustive(tier):
    return len(plan(tier))


def exhaustive_case(i, tier):
    return dict(plan(tier)[i])


def budget(tier):
    return 3000 if tier == "quick" else 120000


# ---------------------------------------------------------------------------------------------------- random
def rnd_string(rng, n):
    alpha = rng.pick([
        "\t\t\tSLCPEFGOUH#X", "ABab01+-*$,: \t", "".join(chr(c) for c in range(32, 127)) + "\t",
        "".join(chr(c) for c in range(0, 32)) + "\x7f\x80é€\u2028\ud7ff" + "SA\t*",
        "0123456789MIDP,*$\t", "[]{}\",:1a \t", "cCsSiIf,-+.e19\t"])
    return "".join(rng.pick(alpha) for _ in range(n))


def subst_name(text, old, new):
    """the text with the identifier `old` replaced by `new` wherever it is written as a whole field, as an
    oriented reference or as an element of a list field"""
    out = []
    for ln in text.split("\n"):
        f = ln.split("\t")
        for j in range(1, len(f)):
            for sep in (",", " "):
                els = f[j].split(sep)
                els = [new + e[len(old):] if (e == old or (e[:len(old)] == old and e[len(old):] in ("+", "-"))) else e for e in els]
                f[j] = sep.join(els)
        out.append("\t".join(f))
    return "\n".join(out)


def _inv(o):
    return "-" if o == "+" else "+"


def rnd_path_overlaps(rng, n):
    """an overlaps field for a path of n segments: `*`, the number a linear / a circular path needs, or any other number"""
    k = rng.random()
    cnt = None
    if k < 0.4:
        return "*"
    if k < 0.6:
        cnt = n - 1
    elif k < 0.7:
        cnt = n
    else:
        cnt = rng.pick([0, 1, 2, 3, n + 1, n + 2, 2 * n])
    if cnt <= 0:
        return rng.pick(["*", "", ","])
    one = rng.pick([["2M"], ["*"], ["2M", "*"], ["2M", "1M1I", "0M"]])
    return ",".join(rng.pick(one) for _ in range(cnt))


def rnd_graph(rng, ver):
    """-> (lines, names): a small graph whose lines depend on each other in many ways: several links on one segment end,
    hairpin and self links, containments, paths over links (with any number of overlaps), fragments, gaps, groups of
    groups which share members, forward references, references to undefined lines.  NOT necessarily valid."""
    segs = rng.sample(["A", "B", "C", "1", "s2"], rng.pick([1, 2, 2, 3, 3, 4]))
    ref = lambda: "Z" if rng.chance(0.06) else rng.pick(segs)
    o = lambda: rng.pick("+-")
    L = []
    names = list(segs)
    if ver == "gfa1":
        if rng.chance(0.3):
            L.append("H\tVN:Z:1.0")
        for x in segs:
            L.append("S\t%s\t%s" % (x, rng.pick(["*", "*", "ACGTACGT"])))
        links = []
        for j in range(rng.pick([0, 1, 2, 2, 3, 4])):
            a = ref(); b = a if rng.chance(0.3) else ref()
            l = (a, o(), b, o())
            links.append(l)
            t = "L\t%s\t%s\t%s\t%s\t%s" % (l + (rng.pick(["*", "*", "2M"]),))
            if rng.chance(0.5):
                t += "\tID:Z:l%d" % j; names.append("l%d" % j)
            L.append(t)
        for j in range(rng.pick([0, 0, 1, 2])):
            a = ref(); b = a if rng.chance(0.15) else ref()
            t = "C\t%s\t%s\t%s\t%s\t%s\t%s" % (a, o(), b, o(), rng.pick(["0", "1"]), rng.pick(["*", "2M"]))
            if rng.chance(0.5):
                t += "\tID:Z:c%d" % j; names.append("c%d" % j)
            L.append(t)
        for j in range(rng.pick([0, 0, 1, 1, 2])):
            if links and rng.chance(0.7):
                l = rng.pick(links)
                steps = [l[0] + l[1], l[2] + l[3]]
                for _ in range(rng.pick([0, 0, 1, 2])):
                    cands = [m for m in links if m[0] + m[1] == steps[-1]]
                    if not cands:
                        break
                    m = rng.pick(cands); steps.append(m[2] + m[3])
                if rng.chance(0.3):
                    steps = [x[:-1] + _inv(x[-1]) for x in reversed(steps)]
            else:
                steps = [ref() + o() for _ in range(rng.pick([1, 2, 3]))]
            L.append("P\tp%d\t%s\t%s" % (j, ",".join(steps), rnd_path_overlaps(rng, len(steps))))
            names.append("p%d" % j)
        if rng.chance(0.1):
            L.append("# c")
    else:
        if rng.chance(0.3):
            L.append("H\tVN:Z:2.0")
        for x in segs:
            L.append("S\t%s\t10\t*" % x)
        eids = []
        for j in range(rng.pick([0, 1, 2, 2, 3])):
            a = ref(); b = a if rng.chance(0.3) else ref()
            c = rng.pick([("6", "10$", "0", "4"), ("0", "4", "6", "10$"), ("2", "5", "3", "6"), ("0", "10$", "2", "8"),
                          ("6", "10$", "6", "10$"), ("0", "4", "0", "4")])
            eid = "e%d" % j if rng.chance(0.75) else "*"
            if eid != "*":
                eids.append(eid)
            L.append("E\t%s\t%s%s\t%s%s\t%s\t%s\t%s\t%s\t%s" % ((eid, a, o(), b, o()) + c + (rng.pick(["*", "*", "4M"]),)))
        for j in range(rng.pick([0, 0, 1, 2])):
            L.append("F\t%s\tr%d%s\t0\t10$\t0\t10\t*" % (ref(), rng.pick([1, 1, 2]), o()))
        gids = []
        for j in range(rng.pick([0, 0, 1, 2])):
            gid = "g%d" % j if rng.chance(0.75) else "*"
            if gid != "*":
                gids.append(gid)
            a = ref(); b = a if rng.chance(0.2) else ref()
            L.append("G\t%s\t%s%s\t%s%s\t%s\t%s" % (gid, a, o(), b, o(), rng.pick(["5", "-3"]), rng.pick(["*", "2"])))
        kinds = [rng.pick("OU") for _ in range(rng.pick([0, 1, 2, 2, 3, 4]))]
        grp = ["%s%d" % (k.lower(), j) for j, k in enumerate(kinds)]
        for j, k in enumerate(kinds):
            pool = segs + segs + eids + [x for x in grp if x != grp[j] and (k == "U" or x[0] == "o" or rng.chance(0.2))]
            if k == "U":
                pool = pool + gids
            items = [("zz" if rng.chance(0.04) else rng.pick(pool)) for _ in range(rng.pick([1, 2, 2, 3]))]
            if k == "O":
                items = [x + o() for x in items]
            L.append("%s\t%s\t%s" % (k, "*" if rng.chance(0.12) else grp[j], " ".join(items)))
        names += eids + gids + grp
    if rng.chance(0.4):
        rng.shuffle(L)
    return L, names


GRAPH_OPS = [("rm_name", 20), ("rm_line", 10), ("disconnect", 10), ("connect", 5), ("set", 14), ("unset", 5), ("delete", 8),
             ("rename", 9), ("get", 3), ("validate", 3), ("str", 2), ("gstr", 2), ("gvalidate", 3), ("add", 4), ("lookup", 2)]
# (the step `unname` is not drawn from this table: force_unname() inserts it)
UNNAME_WAYS = ["set-id", "set-name", "attr-id", "attr-name"]


def rnd_api_value(rng, names):
    k = rng.random()
    if k < 0.35:
        return rng.pick(names) + rng.pick(["", "+", "-"])
    if k < 0.5:
        return rng.pick([",", " "]).join(rng.pick(names) + rng.pick(["", "+", "-"]) for _ in range(rng.pick([2, 3])))
    if k < 0.6:
        return rng.pick(ODD_NAMES)
    return rng.pick(VALUE_POOL)


def rnd_fsel(rng):
    """which field of a line: by position in (positional field names + tag names), or by a name from the pool"""
    return ["i", rng.randrange(12)] if rng.chance(0.75) else ["s", rng.pick(FIELD_POOL)]


def rnd_graph_steps(rng, lines, names, ver):
    tot = sum(w for _o, w in GRAPH_OPS)
    steps = []
    for _ in range(rng.pick([1, 2, 3, 4, 6])):
        x = rng.randrange(tot)
        for op, w in GRAPH_OPS:
            x -= w
            if x < 0:
                break
        li = rng.randrange(16)
        if op == "rm_name" or op == "lookup":
            steps.append([op, rng.pick(names) if rng.chance(0.85) else rng.pick(ID_POOL + ODD_NAMES)])
        elif op in ("rm_line", "disconnect", "connect", "validate", "str"):
            steps.append([op, li])
        elif op == "set":
            steps.append([op, li, rnd_fsel(rng), rnd_api_value(rng, names)])
        elif op in ("unset", "delete", "get"):
            steps.append([op, li, rnd_fsel(rng)])
        elif op == "rename":
            steps.append([op, li, rng.pick(names + ["n1", "n2", "*", "", "a b", "x+", "A,B", "7"] + ODD_NAMES[:8])])
        elif op == "add":
            steps.append([op, rng.pick(lines) if lines and rng.chance(0.6) else G.rnd_line(rng, ver)])
        else:
            steps.append([op])
    return steps


def force_unname(rng, L, steps):
    """a GFA2 graph (lines L, changed in place) gets a group WITHOUT identifier (`U * ...` / `O * ...`: the identifier
    of a group is optional) which lists a named line, and the script (steps, changed in place) gets a call which
    removes the name of that line (step `unname`: the identifier is set to the placeholder `*`).  Returns False if
    the graph has no named line a group can list."""
    named = []
    for x in L:
        f = x.split("\t")
        if f[0] in "SEGOU" and len(f) > 2 and f[1] not in ("*", ""):
            named.append((f[0], f[1]))
    if not named:
        return False
    gi = [j for j, x in enumerate(L) if x[:2] in ("U\t", "O\t")]
    if gi and rng.chance(0.6):
        # an existing group loses its identifier (groups which list it now mention an undefined line)
        j = rng.pick(gi)
        f = L[j].split("\t")
        f[1] = "*"
        L[j] = "\t".join(f)
        kind = f[0]
        items = [y.rstrip("+-") if kind == "O" else y for y in f[2].split(" ")] if len(f) > 2 else []
        cands = [n for _rt, n in named if n in items]
    else:
        cands = []
    if not cands:
        # a new unnamed group which lists one or two of the named lines
        kind = rng.pick("UO")
        pool = [n for rt, n in named if kind == "U" or rt in "SEO"] or [n for _rt, n in named]
        cands = rng.sample(pool, min(len(pool), rng.pick([1, 2])))
        L.insert(rng.randrange(len(L) + 1), "%s\t*\t%s" % (kind, " ".join(n + (rng.pick("+-") if kind == "O" else "") for n in cands)))
    steps.insert(rng.randrange(len(steps) + 1), ["unname", rng.pick(cands), rng.pick(UNNAME_WAYS), rng.pick(["*", "*", "*", ""])])
    return True


# the record types from the most dependent to the least dependent one: a line may mention lines of the later types
DEP_ORDER = "UOPGFECLSH#"


def split_graph(rng, case):
    """some lines of the graph arrive late: the script starts on a graph which is still incomplete (lines mention
    lines which are not there yet; whole collections - e.g. the segments - are still empty) and the lines held back
    (`late`) are added before step `late_at` (None: never).  Either every line arrives before the lines it may
    mention (groups, then paths, gaps, fragments, edges, then segments) and the script starts after the first few of
    them, or whole record types are held back"""
    L = case["lines"]
    if rng.chance(0.5):
        byorder = sorted(L, key=lambda x: DEP_ORDER.index(x[0]) if x[:1] in DEP_ORDER else 0)   # stable
        m = rng.randrange(1, len(byorder)) if len(byorder) > 1 else 1
        first, late = byorder[:m], byorder[m:]
    else:
        held = [t for t in "SELCFGPOU" if rng.chance(0.5)]
        first = [x for x in L if x[:1] not in held]
        late = [x for x in L if x[:1] in held]
    if not late:
        return
    case["lines"] = first
    case["late"] = late
    case["late_at"] = None if rng.chance(0.15) else rng.randrange(len(case["steps"]) + 1)


def rnd_raw(rng):
    """bytes of a small document, damaged so that they are (most of the time) not UTF-8"""
    ver0 = rng.pick(["gfa1", "gfa2"])
    L = G.rnd_doc(rng, ver0)
    if rng.chance(0.3):
        L.insert(rng.randrange(len(L) + 1), "# " + rng.pick(["é", "€", " ", "x" * 9000, "é" * 5000]))
    b = bytearray("\n".join(L).encode("utf-8"))
    if rng.chance(0.5):
        b += b"\n"
    for _ in range(rng.pick([1, 1, 2, 3])):
        ins = bytes.fromhex(rng.pick(RAW_BYTES)) if rng.chance(0.7) else bytes([rng.randrange(128, 256) for _ in range(rng.pick([1, 2, 3]))])
        at = rng.pick([0, len(b), rng.randrange(len(b) + 1), rng.randrange(len(b) + 1)])
        if rng.chance(0.5):
            b[at:at] = ins
        else:
            b[at:at + len(ins)] = ins
    if rng.chance(0.1):
        b = b[:rng.randrange(len(b) + 1)]
    return bytes(b)


def gen_case(rng, tier, i):
    k = rng.random()
    v = rng.pick([0, 1, 2, 3])
    ver = rng.pick(VERSIONS)
    if k < 0.15:
        s = rnd_string(rng, rng.pick([0, 1, 2, 3, 5, 8, 13, 30]))
        if rng.chance(0.6):
            s = rng.pick(["S\t", "L\t", "C\t", "P\t", "E\t", "F\t", "G\t", "O\t", "U\t", "H\t", "#", "X\t", "S\tA\t*\txx:%s:" % rng.pick("AifZJHB")]) + s
        return {"kind": "line", "text": s, "vlevel": v, "version": ver}
    if k < 0.33:
        ver0 = rng.pick(["gfa1", "gfa2"])
        s = G.rnd_line(rng, ver0)
        if rng.chance(0.15):
            s = subst_name(s, rng.pick(G.NAMES), rng.pick(ODD_NAMES))
        for _ in range(rng.pick([1, 2, 3])):
            s, _d = G.mutate(rng, s)
        return {"kind": "line", "text": s, "vlevel": v, "version": rng.pick([None, ver0, ver0, "gfa1", "gfa2"])}
    if k < 0.58:
        ver0 = rng.pick(["gfa1", "gfa2"])
        L = G.rnd_doc(rng, ver0)
        if rng.chance(0.3):
            L.insert(rng.randrange(len(L) + 1), rng.pick(SPECIAL_LINES))
        if ver0 == "gfa1" and rng.chance(0.25):
            # a path with any number of segments and any number of overlaps
            n = rng.pick([1, 2, 3, 3, 4, 6])
            L.insert(rng.randrange(len(L) + 1), "P\tq\t%s\t%s" % (",".join(rng.pick(["A", "B", "C", "1", "Z"]) + rng.pick("+-") for _ in range(n)),
                                                                  rnd_path_overlaps(rng, n)))
        text = "\n".join(L)
        if rng.chance(0.12):
            text = subst_name(text, rng.pick(["A", "B", "C", "1", "e1", "p1", "o1", "u1", "g1"]), rng.pick(ODD_NAMES))
        for _ in range(rng.pick([0, 1, 2, 3])):
            text, _d = G.mutate(rng, text)
        if rng.chance(0.2):
            text += rng.pick(["\n", "\n\n", "\r\n", " "])
        return {"kind": "doc", "text": text, "vlevel": v, "version": rng.pick([None, None, ver0, "gfa1", "gfa2"]),
                "dialect": rng.pick(["standard", "standard", "rgfa"]), "how": rng.pick(["text", "list", "add", "file"])}
    if k < 0.63:
        return {"kind": "rawfile", "hex": rnd_raw(rng).hex(), "vlevel": v, "version": rng.pick([None, None, "gfa1", "gfa2"])}
    if k < 0.88:
        # API script on the lines of a small graph
        ver0 = rng.pick(["gfa1", "gfa2"])
        L, names = rnd_graph(rng, ver0)
        case = {"kind": "graph", "lines": L, "vlevel": v, "version": rng.pick([None, ver0, ver0]), "how": rng.pick(["list", "add", "add"]),
                "steps": rnd_graph_steps(rng, L, names, ver0)}
        if ver0 == "gfa2" and rng.chance(0.16):
            # the name of a line which a group WITHOUT identifier lists is removed
            force_unname(rng, case["lines"], case["steps"])
        if rng.chance(0.35):
            split_graph(rng, case)
        return case
    # API script on a fixed document
    d = rng.randrange(len(API_DOCS))
    steps = []
    for _ in range(rng.pick([1, 2, 3, 5])):
        call = rng.pick(API_CALLS)
        if call in ("line", "segment", "rm", "try_get_line", "try_get_segment"):
            steps.append([call, rng.pick(ID_POOL) if rng.chance(0.9) else rng.pick(ODD_NAMES)])
        elif call == "set":
            steps.append([call, rng.randrange(12), rng.pick(FIELD_POOL), rng.pick(VALUE_POOL) if rng.chance(0.9) else rng.pick(ODD_NAMES)])
        elif call in ("get", "delete", "field_to_s", "validate_field"):
            steps.append([call, rng.randrange(12), rng.pick(FIELD_POOL)])
        elif call == "validate_line":
            steps.append([call, rng.randrange(12)])
        elif call == "add_line":
            steps.append([call, rng.pick(SPECIAL_LINES) if rng.chance(0.5) else G.mutate(rng, G.rnd_line(rng, API_DOCS[d][0]))[0]])
        else:
            steps.append([call])
    return {"kind": "api", "doc": d, "vlevel": v, "steps": steps}


# ---------------------------------------------------------------------------------------------------- oracle
class Probe:
    def __init__(self):
        self.F = []
        self.ncalls = 0

    def call(self, label, shown, fn, *a, **k):
        """-> ('ok', value) | ('gerr', None) | ('fail', None)"""
        gfapy = lib.import_gfapy()
        self.ncalls += 1
        try:
            return "ok", M.with_alarm(ALARM, fn, *a, **k)
        except gfapy.Error:
            return "gerr", None
        except M.Hang:
            self.F.append("hang: %s on %s did not return within %d s" % (label, short(shown), ALARM))
        except RecursionError as e:
            self.F.append("foreign:RecursionError@%s: %s on %s" % (M.recursion_cycle_frame(e), label, short(shown)))
        except BaseException as e:   # noqa
            if isinstance(e, (KeyboardInterrupt, SystemExit)):
                raise
            self.F.append("foreign:%s@%s: %s on %s -> %s" % (e.__class__.__name__, M.innermost_gfapy_frame(e), label, short(shown),
                                                           str(e)[:80].replace("\n", " ")))
        return "fail", None


def short(x):
    r = repr(x)
    return r if len(r) < 400 else r[:200] + "...(%d chars)..." % len(r) + r[-100:]


def probe_line(P, text, vlevel, version):
    gfapy = lib.import_gfapy()
    ctx = "vlevel=%d version=%s" % (vlevel, version)
    st, l = P.call("Line(%s)" % ctx, text, gfapy.Line, text, vlevel=vlevel, version=version)
    if st != "ok":
        return
    P.call("Line(%s).validate()" % ctx, text, l.validate)
    P.call("str(Line(%s))" % ctx, text, str, l)
    st, names = P.call("Line(%s).positional_fieldnames+tagnames" % ctx, text, lambda: list(l.positional_fieldnames) + list(l.tagnames))
    if st == "ok":
        for n in names:
            P.call("Line(%s).get(%r)" % (ctx, n), text, l.get, n)
            P.call("Line(%s).field_to_s(%r)" % (ctx, n), text, l.field_to_s, n)
    P.call("str(Line(%s)) after reads" % ctx, text, str, l)


def probe_doc(P, text, vlevel, version, dialect, how):
    gfapy = lib.import_gfapy()
    ctx = "vlevel=%d version=%s dialect=%s" % (vlevel, version, dialect)
    g = None
    if how == "text":
        st, g = P.call("Gfa(text, %s)" % ctx, text, gfapy.Gfa, text, vlevel=vlevel, version=version, dialect=dialect)
    elif how == "list":
        st, g = P.call("Gfa(list, %s)" % ctx, text, gfapy.Gfa, text.split("\n"), vlevel=vlevel, version=version, dialect=dialect)
    elif how == "add":
        st, g = P.call("Gfa(%s)" % ctx, text, gfapy.Gfa, vlevel=vlevel, version=version, dialect=dialect)
        if st == "ok":
            for ln in text.split("\n"):
                P.call("add_line (%s)" % ctx, ln, g.add_line, ln)
            P.call("process_line_queue (%s)" % ctx, text, g.process_line_queue)
    else:
        fd, path = tempfile.mkstemp(prefix="c07_", suffix=".gfa", dir="/tmp")
        try:
            with os.fdopen(fd, "w", encoding="utf-8", errors="surrogatepass", newline="") as f:
                f.write(text)
            st, g = P.call("Gfa.from_file(%s)" % ctx, text, gfapy.Gfa.from_file, path, vlevel=vlevel, version=version, dialect=dialect)
        finally:
            try:
                os.unlink(path)
            except OSError:
                pass
    if st != "ok" or g is None:
        return
    P.call("str(Gfa) (%s, %s)" % (how, ctx), text, str, g)
    P.call("Gfa.validate() (%s, %s)" % (how, ctx), text, g.validate)
    st, lines = P.call("Gfa.lines (%s, %s)" % (how, ctx), text, lambda: list(g.lines))
    if st == "ok":
        for l in lines[:30]:
            P.call("line.validate() in Gfa (%s, %s)" % (how, ctx), text, l.validate)
    P.call("str(Gfa) after validate (%s, %s)" % (how, ctx), text, str, g)


def deep_text(shape, depth):
    if shape == "json-list":
        return ["S\tA\t*\txx:J:" + "[" * depth + "]" * depth]
    if shape == "json-dict":
        return ["S\tA\t*\txx:J:" + "{\"a\":" * depth + "1" + "}" * depth]
    if shape == "json-set":
        return None
    if shape == "O-chain":
        return ["S\tA\t4\t*", "O\to0\tA+"] + ["O\to%d\to%d+" % (i, i - 1) for i in range(1, depth + 1)]
    if shape == "U-chain":
        return ["S\tA\t4\t*", "U\tu0\tA"] + ["U\tu%d\tu%d" % (i, i - 1) for i in range(1, depth + 1)]
    if shape == "U-twice":
        # every set lists its subset twice (and the sets two levels down once more): expanding every mention is exponential
        d = min(depth, 60)
        return ["S\tA\t4\t*", "S\tB\t4\t*", "U\tu0\tA B"] + \
               ["U\tu%d\tu%d u%d%s" % (i, i - 1, i - 1, " u%d" % (i - 2) if i >= 2 else "") for i in range(1, d + 1)]


def probe_deep(P, shape, depth, vlevel):
    gfapy = lib.import_gfapy()
    ctx = "vlevel=%d depth=%d" % (vlevel, depth)
    if shape == "json-set":
        # a nested Python value assigned through the API
        st, l = P.call("Line", "S\tA\t*", gfapy.Line, "S\tA\t*", vlevel=vlevel)
        if st != "ok":
            return
        v = []
        for _ in range(depth):
            v = [v]
        P.call("line.set('xx', nested list) (%s)" % ctx, "depth %d" % depth, l.set, "xx", v)
        P.call("str(line) nested list (%s)" % ctx, "depth %d" % depth, str, l)
        P.call("line.validate() nested list (%s)" % ctx, "depth %d" % depth, l.validate)
        return
    L = deep_text(shape, depth)
    shown = "%s depth %d" % (shape, depth)
    if shape.startswith("json"):
        st, l = P.call("Line(%s)" % ctx, shown, gfapy.Line, L[0], vlevel=vlevel)
        if st == "ok":
            P.call("line.get('xx') (%s)" % ctx, shown, l.get, "xx")
            P.call("line.validate() (%s)" % ctx, shown, l.validate)
            P.call("str(line) (%s)" % ctx, shown, str, l)
            P.call("line.clone() (%s)" % ctx, shown, l.clone)
        st, g = P.call("Gfa(%s)" % ctx, shown, gfapy.Gfa, L, vlevel=vlevel)
        if st == "ok":
            P.call("str(Gfa) (%s)" % ctx, shown, str, g)
        return
    st, g = P.call("Gfa(%s)" % ctx, shown, gfapy.Gfa, L, vlevel=vlevel)
    if st != "ok":
        return
    P.call("Gfa.validate() (%s)" % ctx, shown, g.validate)
    P.call("str(Gfa) (%s)" % ctx, shown, str, g)
    top = ("o%d" if shape == "O-chain" else "u%d") % (min(depth, 60) if shape == "U-twice" else depth)
    st, l = P.call("Gfa.line(top) (%s)" % ctx, shown, g.line, top)
    if st == "ok" and l is not None:
        if shape == "O-chain":
            P.call("captured_path of the outermost group (%s)" % ctx, shown, lambda: l.captured_path)
        else:
            P.call("induced_set of the outermost group (%s)" % ctx, shown, lambda: l.induced_set)
    P.call("Gfa.rm('A') (%s)" % ctx, shown, g.rm, "A")
    P.call("str(Gfa) after rm (%s)" % ctx, shown, str, g)


def probe_raw(P, data, vlevel, version, shown=None):
    """a file with the bytes `data` (any bytes: not necessarily text in any encoding) given to Gfa.from_file"""
    gfapy = lib.import_gfapy()
    shown = shown if shown is not None else data
    ctx = "vlevel=%d version=%s" % (vlevel, version)
    fd, path = tempfile.mkstemp(prefix="c07_", suffix=".gfa", dir="/tmp")
    try:
        with os.fdopen(fd, "wb") as f:
            f.write(data)
        st, g = P.call("Gfa.from_file(bytes, %s)" % ctx, shown, gfapy.Gfa.from_file, path, vlevel=vlevel, version=version)
    finally:
        try:
            os.unlink(path)
        except OSError:
            pass
    if st == "ok" and g is not None:
        P.call("str(Gfa) (bytes file, %s)" % ctx, shown, str, g)
        P.call("Gfa.validate() (bytes file, %s)" % ctx, shown, g.validate)


def raw_variants(d, where):
    """-> iterator of (description, bytes): the document BASE_DOCS[d] with bytes that are not UTF-8 at the place `where`,
    or written in another encoding"""
    lines = list(G.BASE_DOCS[d][2])
    if where.startswith("enc:"):
        text = "\n".join(lines + ["# café €", "S\tXé\t*" if G.BASE_DOCS[d][0] == "gfa1" else "S\tXé\t1\t*"]) + "\n"
        yield where, text.encode(where[4:], errors="replace")
        return
    pre = b""
    if where == "far":
        pre = b"# pad\n" * 120
    elif where == "chunk":
        pre = b"#" + b"x" * 8185 + b"\n"          # the document starts a few bytes before the 8192-byte boundary
    body = "\n".join(lines + ["# last"]).encode("utf-8") + b"\n"
    first_s = body.index(b"S\t") + 2
    tagpos = body.index(b":Z:") + 3 if b":Z:" in body else body.index(b":i:") + 3
    at = {"start": 0, "comment": len(body) - 2, "name": first_s, "tag": tagpos, "newline": body.index(b"\n"),
          "end": len(body), "far": first_s, "chunk": first_s}[where]
    for hx in RAW_BYTES:
        ins = bytes.fromhex(hx)
        yield "%s:insert %s" % (where, hx), pre + body[:at] + ins + body[at:]
        yield "%s:replace %s" % (where, hx), pre + body[:at] + ins + body[at + len(ins):]


def probe_rawx(P, d, where, vlevel):
    ver = G.BASE_DOCS[d][0]
    for desc, data in raw_variants(d, where):
        probe_raw(P, data, vlevel, ver, "doc %d %s" % (d, desc))
        if vlevel == 1:
            probe_raw(P, data, vlevel, None, "doc %d %s" % (d, desc))


def probe_oddname(P, t, vlevel):
    """every identifier of ODD_NAMES in the identifier position(s) of template t: parsed, looked up, removed, and
    given to an existing line as its new name"""
    gfapy = lib.import_gfapy()
    ver, tpl = ODD_TEMPLATES[t]
    for n in ODD_NAMES:
        lines = [x.replace("{n}", n) for x in tpl]
        text = "\n".join(lines)
        shown = [x.replace("{n}", "{%s}" % short(n)) for x in tpl]
        ctx = "vlevel=%d %s" % (vlevel, ver)
        for x in lines:
            if x not in tpl:
                probe_line(P, x, vlevel, ver)
        probe_doc(P, text, vlevel, ver, "standard", "text")
        probe_doc(P, text, vlevel, None, "standard", "add")
        st, g = P.call("Gfa(list, %s)" % ctx, shown, gfapy.Gfa, lines, vlevel=vlevel, version=ver)
        if st == "ok":
            for call in ("line", "try_get_line", "segment", "try_get_segment", "rm"):
                P.call("Gfa.%s(%s) (%s)" % (call, short(n)[:30], ctx), shown, getattr(g, call), n)
            P.call("str(Gfa) after rm (%s)" % ctx, shown, str, g)
            P.call("Gfa.validate() after rm (%s)" % ctx, shown, g.validate)
        # rename: the same document with an ordinary name, then <line>.name = n
        st, g = P.call("Gfa(list, %s)" % ctx, tpl, gfapy.Gfa, [x.replace("{n}", "q7") for x in tpl], vlevel=vlevel, version=ver)
        if st != "ok":
            continue
        st, l = P.call("Gfa.line('q7') (%s)" % ctx, tpl, g.line, "q7")
        if st == "ok" and l is not None:
            P.call("line.name = %s (%s)" % (short(n)[:30], ctx), shown, setattr, l, "name", n)
            P.call("str(Gfa) after rename (%s)" % ctx, shown, str, g)
            P.call("Gfa.line(new name) (%s)" % ctx, shown, g.line, n)
            P.call("Gfa.validate() after rename (%s)" % ctx, shown, g.validate)
            P.call("Gfa.rm(new name) (%s)" % ctx, shown, g.rm, n)
            P.call("str(Gfa) after rename and rm (%s)" % ctx, shown, str, g)


def deps_docs(ver, first):
    """-> iterator of (lines, names): s1, s2, the dependant `first` of s1 and every second line which depends on s1
    and/or on the first dependant"""
    tab = DEPS1 if ver == "gfa1" else DEPS2
    base = ["S\ts1\t*", "S\ts2\t*"] if ver == "gfa1" else ["S\ts1\t10\t*", "S\ts2\t10\t*"]

    def inst(tpl, ident, d=None):
        return tpl.format(id=ident, idtag=("\tID:Z:%s" % ident if ident else ""), d=d)
    t1 = tab[first]
    if "{idtag}" in t1:
        idents = ["d1", ""]
    elif "{id}" in t1 and ver == "gfa2":
        idents = ["d1", "*"]
    elif "{id}" in t1:
        idents = ["d1"]
    else:
        idents = [""]
    for i1 in idents:
        l1 = inst(t1, i1)
        for second in sorted(tab):
            i2 = "d2" if i1 == "d1" or "{idtag}" not in tab[second] else ""
            yield base + [l1, inst(tab[second], i2)], ["s1", "s2", "d1", "d2"]
        if ver == "gfa2" and i1 == "d1":
            for second in sorted(DEPS2_OVER):
                if second.startswith("O") and first[0] not in "EO":
                    continue
                yield base + [l1, inst(DEPS2_OVER[second], "d2", "d1")], ["s1", "s2", "d1", "d2"]
                # and in the other order in the file (forward reference)
                yield base + [inst(DEPS2_OVER[second], "d2", "d1"), l1], ["s1", "s2", "d1", "d2"]


def probe_deps(P, ver, first, vlevel):
    """a line with two dependants, every combination: each of the lines is removed by name, by line object and
    disconnected, each time from a freshly built graph"""
    gfapy = lib.import_gfapy()
    ctx = "vlevel=%d %s" % (vlevel, ver)
    for lines, names in deps_docs(ver, first):
        nl = len(lines)
        if vlevel == 1:
            modes = (("rm(name)", names), ("rm(line)", range(2, nl)), ("disconnect", range(1, nl)))
        elif vlevel == 0:
            modes = (("rm(name)", ["s1", "d1"]), ("disconnect", range(3, nl)))
        else:
            modes = (("rm(name)", ["s1"]),)
        for mode, targets in modes:
            for t in targets:
                st, g = P.call("Gfa(list, %s)" % ctx, lines, gfapy.Gfa, list(lines), vlevel=vlevel, version=ver)
                if st != "ok":
                    break
                if mode == "rm(name)":
                    P.call("Gfa.rm(%r) (%s)" % (t, ctx), lines, g.rm, t)
                else:
                    st, ls = P.call("Gfa.lines", lines, lambda: list(g.lines))
                    if st != "ok":
                        break
                    # the line objects in the order of the text
                    st, bytext = P.call("str(line)", lines, lambda: dict((str(l), l) for l in ls))
                    if st != "ok":
                        break
                    byt = [bytext[x] for x in lines if x in bytext]
                    if t >= len(byt):
                        continue
                    l = byt[t]
                    if mode == "rm(line)":
                        P.call("Gfa.rm(%s-line) (%s)" % (l.record_type, ctx), lines, g.rm, l)
                    else:
                        P.call("%s-line.disconnect() (%s)" % (l.record_type, ctx), lines, l.disconnect)
                P.call("str(Gfa) after %s (%s)" % (mode, ctx), lines, str, g)
                P.call("Gfa.validate() after %s (%s)" % (mode, ctx), lines, g.validate)


# long lists: (version, line template with one %s for the list, element, separator)
LONGLIST = [("gfa1", "P\tp\t%s\t*", "a+", ","), ("gfa1", "P\tp\ta+,b+\t%s", "1M", ","), ("gfa1", "P\tp\t%s\t*", "seg1+", ","),
            ("gfa2", "O\to\t%s", "a+", " "), ("gfa2", "U\tu\t%s", "a", " "), ("gfa2", "U\tu\t%s", "segment_with_a_long_name", " "),
            ("gfa2", "E\t*\ta+\tb+\t0\t1\t0\t1\t%s", "1", ","), ("gfa1", "S\ta\t*\txx:B:%s", "c,1", ","),
            ("gfa1", "S\ta\t*\txx:H:%s", "0A", ""), ("gfa1", "L\ta\t+\tb\t+\t%s", "1M", "")]
LONGLIST_TAILS = ["", "\x7f", " ", ",", "é", "+", "-", "\u00a0", ",,", " \t"]


def probe_longlist(P, shape, vlevel):
    """lists of 24-64 elements that are valid, or valid up to the last character: a validation that tries every way
    of splitting the list takes time exponential in its length (the alarm of Probe.call reports a hang)"""
    ver, tpl, elem, sep = LONGLIST[shape]
    for n in (24, 40, 64):
        base = sep.join([elem] * n)
        for tail in LONGLIST_TAILS:
            text = tpl % (base + tail)
            probe_line(P, text, vlevel, ver)
            if any(f.startswith("hang") for f in P.F):
                return          # one report is enough: every further hanging call costs the whole alarm time
    gfapy = lib.import_gfapy()
    # the same through the API: the list assigned as a string
    fld = {0: "segment_names", 1: "overlaps", 2: "segment_names", 3: "items", 4: "items", 5: "items", 6: "alignment", 9: "overlap"}.get(shape)
    if fld is not None:
        for tail in ("\x7f", " ", ",,"):
            st, l = P.call("Line(template)", tpl, gfapy.Line, tpl % sep.join([elem] * 2), vlevel=vlevel, version=ver)
            if st == "ok":
                val = sep.join([elem] * 48) + tail
                P.call("%s-line.set(%r, long list) (vlevel=%d)" % (l.record_type, fld, vlevel), val, l.set, fld, val)
                P.call("%s-line.validate() after set(long list) (vlevel=%d)" % (l.record_type, vlevel), val, l.validate)
                P.call("str(line) after set(long list) (vlevel=%d)" % vlevel, val, str, l)


def probe_progress(P, d, vlevel):
    """Gfa.read_file with progress logging switched on: intact file, file with undecodable bytes, missing newline"""
    gfapy = lib.import_gfapy()
    text = "\n".join(G.BASE_DOCS[d][2])
    for label, data in (("intact", text.encode() + b"\n"), ("bad-bytes", text.encode()[:20] + b"\xff\xfe" + text.encode()[20:]),
                        ("bad-tail", text.encode() + b"\n\xc3"), ("empty", b""), ("latin-1", text.replace("A", "\u00e9", 1).encode("latin-1"))):
        fd, path = tempfile.mkstemp(prefix="c07p_", suffix=".gfa", dir="/tmp")
        try:
            with os.fdopen(fd, "wb") as f:
                f.write(data)

            def run():
                g = gfapy.Gfa(vlevel=vlevel)
                with open(os.devnull, "w") as sink:
                    g.enable_progress_logging(part=0.3, channel=sink)
                    g.read_file(path)
                return g
            st, g = P.call("Gfa.read_file with progress logging (%s, vlevel=%d)" % (label, vlevel), data, run)
        finally:
            try:
                os.unlink(path)
            except OSError:
                pass
        if st == "ok" and g is not None:
            P.call("str(Gfa) after read_file with progress logging (%s)" % label, data, str, g)


def probe_plist(P, nseg, vlevel):
    """GFA1 paths of nseg segments with every number of overlaps from none to nseg+2, over defined / undefined
    segments and links"""
    segs = ["a", "b", "c", "d", "e"][:nseg]
    names = ",".join(x + "+" for x in segs)
    S = ["S\t%s\t*" % x for x in segs]
    for novl in range(0, nseg + 3):
        for one in ("1M", "*"):
            if novl == 0:
                ovs = ["*", ""] if one == "*" else [","]
            else:
                ovs = [",".join([one] * novl)]
            for ov in ovs:
                pl = "P\tp\t%s\t%s" % (names, ov)
                probe_line(P, pl, vlevel, "gfa1")
                for lk in (None, "1M", "*"):
                    Lk = [] if lk is None else ["L\t%s\t+\t%s\t+\t%s" % (segs[i], segs[i + 1], lk) for i in range(nseg - 1)]
                    if lk is None:
                        docs = [[pl], S + [pl], [pl] + S]
                    else:
                        docs = [S + Lk + [pl]] + ([[pl] + Lk + S] if lk == "1M" else [])
                    if lk is not None and nseg > 1:
                        docs.append(S + Lk + ["L\t%s\t+\t%s\t+\t%s" % (segs[-1], segs[0], lk), pl])
                    for doc in docs:
                        probe_doc(P, "\n".join(doc), vlevel, "gfa1", "standard", "text")
                        if lk != "*" and one == "1M":
                            probe_doc(P, "\n".join(doc), vlevel, None, "standard", "add")


APISEQ_DOCS = [("gfa1", "Ldove"), ("gfa1", "Lhair"), ("gfa1", "C12"), ("gfa1", "P12"),
               ("gfa2", "Edove"), ("gfa2", "Ehair"), ("gfa2", "F"), ("gfa2", "G"), ("gfa2", "U12"), ("gfa2", "O1")]
APISEQ_VALUES = ["zz", "s2+", "1", "*", "s2", "d1", "", "2M"]


def apiseq_doc(ver, dep):
    base = ["S\ts1\t*\txx:i:1", "S\ts2\t*"] if ver == "gfa1" else ["S\ts1\t10\t*\txx:i:1", "S\ts2\t10\t*"]
    tab = DEPS1 if ver == "gfa1" else DEPS2
    return base + [tab[dep].format(id="d1", idtag="\tID:Z:d1") + "\tab:Z:x"]


def apiseq_first_ops(l, vlevel):
    """the calls which change the line l: one per tag (delete; set to None), per positional field (set to a string),
    renames, disconnect (public attributes of l only)"""
    ops = []
    for t in list(l.tagnames):
        ops.append(["delete", t]); ops.append(["unset", t])
    for j, f in enumerate(list(l.positional_fieldnames)):
        ops.append(["set", f, APISEQ_VALUES[(j + 3 * vlevel) % len(APISEQ_VALUES)]])
    for n in ("n1", "s2", "", "*", "a b"):
        ops.append(["rename", n])
    ops.append(["disconnect"]); ops.append(["rm_line"])
    return ops


APISEQ_SECOND = [["rm_line"], ["disconnect"], ["connect"], ["rm_old_name"], ["validate"], ["rename", "n2"], ["delete_first_tag"],
                 ["set", "xx", "2"]]


def apiseq_call(P, g, l, op, oldname, ctx, shown):
    who = "%s-line" % l.record_type
    k = op[0]
    if k == "delete":
        P.call("%s.delete(%r) (%s)" % (who, op[1], ctx), shown, l.delete, op[1])
    elif k == "unset":
        P.call("%s.set(%r, None) (%s)" % (who, op[1], ctx), shown, l.set, op[1], None)
    elif k == "set":
        P.call("%s.set(%r, %r) (%s)" % (who, op[1], op[2], ctx), shown, l.set, op[1], op[2])
    elif k == "rename":
        P.call("%s.name = %r (%s)" % (who, op[1], ctx), shown, setattr, l, "name", op[1])
    elif k == "disconnect":
        P.call("%s.disconnect() (%s)" % (who, ctx), shown, l.disconnect)
    elif k == "connect":
        P.call("%s.connect(gfa) (%s)" % (who, ctx), shown, l.connect, g)
    elif k == "rm_line":
        P.call("Gfa.rm(%s) (%s)" % (who, ctx), shown, g.rm, l)
    elif k == "rm_old_name":
        P.call("Gfa.rm(%r) (%s)" % (oldname, ctx), shown, g.rm, oldname)
    elif k == "validate":
        P.call("%s.validate() (%s)" % (who, ctx), shown, l.validate)
    elif k == "delete_first_tag":
        st, tn = P.call("%s.tagnames" % who, shown, lambda: list(l.tagnames))
        if st == "ok" and tn:
            P.call("%s.delete(%r) (%s)" % (who, tn[0], ctx), shown, l.delete, tn[0])
    P.call("str(%s) after %s (%s)" % (who, k, ctx), shown, str, l)


def probe_apiseq(P, ver, dep, vlevel, segs="first"):
    """every two-call sequence (a call which changes a line; a second call on the same line object or on the graph)
    on the segment s1 and on its dependant, each on a freshly built graph.
    segs = between / never: the graph is built line by line and the dependant is its first line (the segments it
    mentions are placeholders, the Gfa has no S line); the calls are made on the dependant, the two S lines are
    added between the first and the second call / are not added at all"""
    gfapy = lib.import_gfapy()
    lines = apiseq_doc(ver, dep)
    ctx = "vlevel=%d %s" % (vlevel, ver) + ("" if segs == "first" else " segments: %s" % segs)

    def fresh(which):
        if segs == "first":
            st, g = P.call("Gfa(list, %s)" % ctx, lines, gfapy.Gfa, list(lines), vlevel=vlevel, version=ver)
            if st != "ok":
                return None, None
        else:
            st, g = P.call("Gfa(%s)" % ctx, lines, gfapy.Gfa, vlevel=vlevel, version=ver)
            if st != "ok":
                return None, None
            if P.call("add_line (%s)" % ctx, lines[which], g.add_line, lines[which])[0] != "ok":
                return None, None
        st, ls = P.call("Gfa.lines", lines, lambda: [l for l in g.lines if str(l) == lines[which]])
        if st != "ok" or not ls:
            return None, None
        return g, ls[0]
    for which, oldname in (((0, "s1"), (2, "d1")) if segs == "first" else ((2, "d1"),)):
        g, l = fresh(which)
        if g is None:
            return
        first = apiseq_first_ops(l, vlevel)
        for op1 in first:
            for op2 in APISEQ_SECOND:
                g, l = fresh(which)
                if g is None:
                    return
                shown = {"lines": lines, "line": lines[which], "calls": [op1, op2]}
                apiseq_call(P, g, l, op1, oldname, ctx, shown)
                if segs == "between":
                    for x in lines[:2]:
                        P.call("add_line (%s)" % ctx, shown, g.add_line, x)
                apiseq_call(P, g, l, op2, oldname, ctx, shown)
                P.call("str(Gfa) after the two calls (%s)" % ctx, shown, str, g)
                P.call("Gfa.validate() after the two calls (%s)" % ctx, shown, g.validate)


def graph_field(l, fsel):
    """the field name a step's field selector stands for, on line l (public attributes only)"""
    if fsel[0] == "s":
        return fsel[1]
    names = list(l.positional_fieldnames) + list(l.tagnames)
    return names[fsel[1] % len(names)] if names else "xx"


def graph_step(P, g, lines, step, ctx):
    op = step[0]
    if op == "rm_name":
        P.call("Gfa.rm(%s) (%s)" % (short(step[1])[:30], ctx), step, g.rm, step[1])
    elif op == "lookup":
        P.call("Gfa.line(%s) (%s)" % (short(step[1])[:30], ctx), step, g.line, step[1])
        P.call("Gfa.try_get_line(%s) (%s)" % (short(step[1])[:30], ctx), step, g.try_get_line, step[1])
    elif op == "gstr":
        P.call("str(Gfa) (%s)" % ctx, step, str, g)
    elif op == "gvalidate":
        P.call("Gfa.validate() (%s)" % ctx, step, g.validate)
    elif op == "add":
        P.call("Gfa.add_line (%s)" % ctx, step, g.add_line, step[1])
    elif op == "unname":
        st, l = P.call("Gfa.line(%r) (%s)" % (step[1], ctx), step, g.line, step[1])
        if st == "ok" and l is not None:
            unname_call(P, l, step[2], step[3], ctx, step)
    elif lines:
        l = lines[step[1] % len(lines)]
        st, rt = P.call("line.record_type", step, lambda: l.record_type)
        who = "%s-line" % (rt if st == "ok" else "?")
        if op == "rm_line":
            P.call("Gfa.rm(%s) (%s)" % (who, ctx), step, g.rm, l)
        elif op == "disconnect":
            P.call("%s.disconnect() (%s)" % (who, ctx), step, l.disconnect)
        elif op == "connect":
            P.call("%s.connect(gfa) (%s)" % (who, ctx), step, l.connect, g)
        elif op == "validate":
            P.call("%s.validate() (%s)" % (who, ctx), step, l.validate)
        elif op == "str":
            P.call("str(%s) (%s)" % (who, ctx), step, str, l)
        elif op == "rename":
            P.call("%s.name = %s (%s)" % (who, short(step[2])[:30], ctx), step, setattr, l, "name", step[2])
        else:
            st, f = P.call("%s.positional_fieldnames+tagnames" % who, step, graph_field, l, step[2])
            if st != "ok":
                return
            if op == "set":
                P.call("%s.set(%r, %s) (%s)" % (who, f, short(step[3])[:30], ctx), step, l.set, f, step[3])
            elif op == "unset":
                # the documented way to remove a tag: set it to None (positional fields: not a string-taking call, skipped)
                st, tn = P.call("%s.tagnames" % who, step, lambda: list(l.tagnames))
                if st == "ok" and f in tn:
                    P.call("%s.set(%r, None) (%s)" % (who, f, ctx), step, l.set, f, None)
            elif op == "delete":
                P.call("%s.delete(%r) (%s)" % (who, f, ctx), step, l.delete, f)
            elif op == "get":
                P.call("%s.get(%r) (%s)" % (who, f, ctx), step, l.get, f)
                P.call("%s.field_to_s(%r) (%s)" % (who, f, ctx), step, l.field_to_s, f)
        P.call("str(%s) after %s (%s)" % (who, op, ctx), step, str, l)


def unname_call(P, l, way, value, ctx, shown):
    """the identifier of the line l is set to `value` (the placeholder `*`: the name is removed; or the empty string):
    through set() or the attribute syntax, under the name of the identifier field (sid, eid, gid, pid, name,
    path_name: the first positional field of S, E, G, O, U, P lines) or under the alias `name`"""
    st, rt = P.call("line.record_type", shown, lambda: l.record_type)
    who = "%s-line" % (rt if st == "ok" else "?")
    f = "name"
    if way.endswith("-id") and st == "ok" and rt in ("S", "E", "G", "O", "U", "P"):
        st, pf = P.call("%s.positional_fieldnames" % who, shown, lambda: list(l.positional_fieldnames))
        if st == "ok" and pf:
            f = pf[0]
    if way.startswith("set"):
        P.call("%s.set(%r, %r) (%s)" % (who, f, value, ctx), shown, l.set, f, value)
    else:
        P.call("%s.%s = %r (%s)" % (who, f, value, ctx), shown, setattr, l, f, value)
    P.call("str(%s) after the removal of its name (%s)" % (who, ctx), shown, str, l)


# every line which a group can list, in a graph whose groups have / do not have an identifier of their own
UNNAME_IDS = [(u, o, w) for u in ("u1", "*") for o in ("o1", "*") for w in ("w1", "*")]


def unname_doc(ver, uid, oid, wid):
    """-> (lines, targets): a graph in which every kind of line that can be a member of a group is one: a set (uid) and
    a path (oid) over segments, edges and a gap, and an outer set (wid) over the named ones of these two groups;
    each of the three identifiers is a name or the placeholder `*`"""
    if ver == "gfa1":
        return (["S\ts1\t*", "S\ts2\t*", "S\ts3\t*", "L\ts1\t+\ts2\t+\t*\tID:Z:l1", "L\ts2\t+\ts3\t+\t*",
                 "P\tp1\ts1+,s2+,s3+\t*", "P\tp2\ts3-,s2-\t*"], ["s1", "s3", "l1", "p1"])
    inner = [x for x in (uid, oid) if x != "*"]
    L = ["S\ts1\t100\t*", "S\ts2\t100\t*", "S\ts3\t100\t*", "E\te1\ts1+\ts2+\t90\t100$\t0\t10\t*",
         "E\te2\ts2+\ts3+\t90\t100$\t0\t10\t*", "G\tg1\ts1+\ts3+\t500\t*",
         "U\t%s\ts1 e1 g1" % uid, "O\t%s\ts1+ e1+ s2+ e2+ s3+" % oid, "U\t%s\t%s" % (wid, " ".join(inner + ["s2", "g1"]))]
    return L, ["s1", "s2", "e1", "e2", "g1"] + inner


def probe_unname(P, vlevel, how):
    """the name of a line which groups list is removed (identifier := `*`, by set / attribute, under the name of the
    field / the alias `name`), for every kind of member and every combination of named / unnamed groups listing it;
    each call on a fresh graph; then the graph is written, validated, searched and the line removed"""
    gfapy = lib.import_gfapy()
    docs = [("gfa1", unname_doc("gfa1", None, None, None))] + [("gfa2", unname_doc("gfa2", u, o, w)) for u, o, w in UNNAME_IDS]
    for ver, (lines, targets) in docs:
        ctx = "vlevel=%d %s how=%s" % (vlevel, ver, how)
        for t in targets:
            for way in UNNAME_WAYS:
                if how == "list":
                    st, g = P.call("Gfa(list, %s)" % ctx, lines, gfapy.Gfa, list(lines), vlevel=vlevel)
                    if st != "ok":
                        break
                else:
                    st, g = P.call("Gfa(%s)" % ctx, lines, gfapy.Gfa, vlevel=vlevel)
                    if st != "ok":
                        break
                    # the groups first: their members are placeholders lines when they arrive
                    for ln in reversed(lines):
                        P.call("add_line (%s)" % ctx, ln, g.add_line, ln)
                    P.call("process_line_queue (%s)" % ctx, lines, g.process_line_queue)
                shown = {"lines": lines, "line": t, "way": way}
                st, l = P.call("Gfa.line(%r) (%s)" % (t, ctx), shown, g.line, t)
                if st != "ok" or l is None:
                    continue
                unname_call(P, l, way, "*", ctx, shown)
                P.call("str(Gfa) after the removal of a name (%s)" % ctx, shown, str, g)
                P.call("Gfa.validate() after the removal of a name (%s)" % ctx, shown, g.validate)
                P.call("Gfa.line(old name) after the removal of a name (%s)" % ctx, shown, g.line, t)
                P.call("Gfa.rm(line) after the removal of a name (%s)" % ctx, shown, g.rm, l)
                P.call("str(Gfa) after the removal of a name and rm (%s)" % ctx, shown, str, g)


def probe_graph(P, case):
    """the lines of a small graph are added, the line objects are taken (Gfa.lines) and the steps of the script are
    called on the graph and on those objects -- also on objects which an earlier step has removed or renamed"""
    gfapy = lib.import_gfapy()
    v = case["vlevel"]; ver = case["version"]
    ctx = "vlevel=%d version=%s how=%s" % (v, ver, case["how"])
    if case["how"] == "list":
        st, g = P.call("Gfa(list, %s)" % ctx, case["lines"], gfapy.Gfa, list(case["lines"]), vlevel=v, version=ver)
        if st != "ok":
            return
    else:
        st, g = P.call("Gfa(%s)" % ctx, case["lines"], gfapy.Gfa, vlevel=v, version=ver)
        if st != "ok":
            return
        for ln in case["lines"]:
            P.call("add_line (%s)" % ctx, ln, g.add_line, ln)
        P.call("process_line_queue (%s)" % ctx, case["lines"], g.process_line_queue)
    st, lines = P.call("Gfa.lines (%s)" % ctx, case["lines"], lambda: list(g.lines))
    if st != "ok":
        return
    shown = {"lines": case["lines"], "steps": case["steps"]}
    late, late_at = case.get("late") or [], case.get("late_at")
    if late:
        shown["late"] = late; shown["late_at"] = late_at

    def add_late():
        for ln in late:
            P.call("add_line of a line held back (%s)" % ctx, ln, g.add_line, ln)
        P.call("process_line_queue (%s)" % ctx, shown, g.process_line_queue)
        st, now = P.call("Gfa.lines (%s)" % ctx, shown, lambda: list(g.lines))
        if st == "ok":
            have = set(id(x) for x in lines)
            lines.extend(x for x in now if id(x) not in have)
    for k, step in enumerate(case["steps"]):
        if late and late_at == k:
            add_late()
        graph_step(P, g, lines, step, ctx + " step %d" % k)
    if late and late_at is not None and late_at >= len(case["steps"]):
        add_late()
    P.call("str(Gfa) at the end of the script (%s)" % ctx, shown, str, g)
    P.call("Gfa.validate() at the end of the script (%s)" % ctx, shown, g.validate)
    for l in lines:
        P.call("str(line) at the end of the script (%s)" % ctx, shown, str, l)
    st, now = P.call("Gfa.lines at the end of the script (%s)" % ctx, shown, lambda: list(g.lines))
    if st == "ok":
        for l in now[:40]:
            P.call("line.validate() at the end of the script (%s)" % ctx, shown, l.validate)
    # the graph is taken apart: every line object taken during the script is removed (whether it is still in the
    # graph or not), the lines still left are looked up and removed by the name they have now
    for l in lines:
        P.call("Gfa.rm(line object) when the graph is taken apart (%s)" % ctx, shown, g.rm, l)
    st, now = P.call("Gfa.lines after the removals (%s)" % ctx, shown, lambda: list(g.lines))
    if st == "ok":
        for l in now[:40]:
            st, n = P.call("line.name", shown, getattr, l, "name", None)       # headers, comments: no name
            if st == "ok" and isinstance(n, str):
                P.call("Gfa.try_get_line(name of a line left) (%s)" % ctx, shown, g.try_get_line, n)
                P.call("Gfa.rm(name of a line left) (%s)" % ctx, shown, g.rm, n)
    P.call("str(Gfa) after the graph was taken apart (%s)" % ctx, shown, str, g)
    P.call("Gfa.validate() after the graph was taken apart (%s)" % ctx, shown, g.validate)


def build_api_doc(P, d, vlevel):
    gfapy = lib.import_gfapy()
    ver, lines = API_DOCS[d]
    st, g = P.call("Gfa(valid %s document)" % ver, lines, gfapy.Gfa, list(lines), vlevel=vlevel, version=ver)
    return g if st == "ok" else None


def api_step(P, g, step, ctx):
    call = step[0]
    if call in ("line", "segment", "rm", "try_get_line", "try_get_segment"):
        P.call("Gfa.%s(%r) (%s)" % (call, step[1] if len(step[1]) < 40 else step[1][:20] + "...", ctx), step, getattr(g, call), step[1])
    elif call in ("set", "get", "delete", "field_to_s", "validate_line", "validate_field"):
        st, lines = P.call("Gfa.lines", step, lambda: list(g.lines))
        if st != "ok" or not lines:
            return
        l = lines[step[1] % len(lines)]
        who = "%s-line" % l.record_type
        if call == "set":
            P.call("%s.set(%r, %s) (%s)" % (who, step[2], short(step[3])[:40], ctx), step, l.set, step[2], step[3])
        elif call == "validate_line":
            P.call("%s.validate() (%s)" % (who, ctx), step, l.validate)
        else:
            P.call("%s.%s(%r) (%s)" % (who, call, step[2], ctx), step, getattr(l, call), step[2])
        P.call("str(%s) after %s (%s)" % (who, call, ctx), step, str, l)
    elif call == "str":
        P.call("str(Gfa) (%s)" % ctx, step, str, g)
    elif call == "validate":
        P.call("Gfa.validate() (%s)" % ctx, step, g.validate)
    elif call == "add_line":
        P.call("Gfa.add_line (%s)" % ctx, step, g.add_line, step[1])


def probe_apix(P, d, vlevel, call):
    """one API call with every pool entry, each on a fresh valid document"""
    ctx = "vlevel=%d %s" % (vlevel, API_DOCS[d][0])
    if call in ("line", "segment", "rm", "try_get_line", "try_get_segment"):
        for x in ID_POOL:
            g = build_api_doc(P, d, vlevel)
            if g is None:
                return
            api_step(P, g, [call, x], ctx)
            api_step(P, g, ["str"], ctx + " after %s(%r)" % (call, x[:20]))
            api_step(P, g, ["validate"], ctx + " after %s(%r)" % (call, x[:20]))
    elif call in ("get", "delete", "field_to_s", "validate_field"):
        g = build_api_doc(P, d, vlevel)
        if g is None:
            return
        n = len(API_DOCS[d][1])
        for li in range(n):
            for f in FIELD_POOL:
                if call == "delete":
                    g = build_api_doc(P, d, vlevel)
                    if g is None:
                        return
                api_step(P, g, [call, li, f], ctx)
    elif call == "set":
        n = len(API_DOCS[d][1])
        for li in range(n):
            for k, f in enumerate(FIELD_POOL):
                # every field name with a rotating choice of values, each on a fresh document
                for j in range(3):
                    val = VALUE_POOL[(k * 3 + j + li * 7) % len(VALUE_POOL)]
                    g = build_api_doc(P, d, vlevel)
                    if g is None:
                        return
                    api_step(P, g, ["set", li, f, val], ctx)
                    api_step(P, g, ["validate_line", li], ctx + " after set(%r, %s)" % (f, short(val)[:30]))
                    api_step(P, g, ["str"], ctx + " after set(%r, %s)" % (f, short(val)[:30]))
                    api_step(P, g, ["validate"], ctx + " after set(%r, %s)" % (f, short(val)[:30]))
    elif call == "validate_line":
        g = build_api_doc(P, d, vlevel)
        if g is None:
            return
        for li in range(len(API_DOCS[d][1])):
            api_step(P, g, [call, li], ctx)
    elif call == "add_line":
        for x in SPECIAL_LINES:
            g = build_api_doc(P, d, vlevel)
            if g is None:
                return
            api_step(P, g, [call, x], ctx)
            api_step(P, g, ["str"], ctx + " after add_line")
    else:
        g = build_api_doc(P, d, vlevel)
        if g is not None:
            api_step(P, g, [call], ctx)


def oracle(case):
    P = Probe()
    k = case["kind"]
    v = case["vlevel"]
    if k == "tagx":
        for s in itertools.islice(G.strings(G.TAG_ALPHA[case["dt"]], case["n"]), case["from"], case["to"]):
            probe_line(P, "S\tA\t*\txx:%s:%s" % (case["dt"], s), v, "gfa1")
    elif k == "posx":
        ver, tpl, al = G.POS_CTX[case["ctx"]]
        for s in itertools.islice(G.strings(al, case["n"]), case["from"], case["to"]):
            probe_line(P, tpl % s, v, ver)
    elif k == "special":
        for s in SPECIAL_LINES[case["from"]:case["to"]]:
            probe_line(P, s, v, case["version"])
            for how in ("text", "add"):
                probe_doc(P, s, v, case["version"], "standard", how)
            probe_doc(P, "S\tA\t*\n" + s + "\nS\tB\t*", v, case["version"], "standard", "text")
            probe_doc(P, "S\tA\t1\t*\n" + s, v, case["version"], "standard", "text")
    elif k == "mutline":
        for t in G.iter_line_mutations(G.BASE_LINES[case["base"]][1], case["op"], case["nalpha"]):
            probe_line(P, t, v, case["version"])
    elif k == "mutdoc":
        text = "\n".join(G.BASE_DOCS[case["doc"]][2])
        for t in G.iter_line_mutations(text, case["op"], case["nalpha"], case["from"], case["to"]):
            probe_doc(P, t, v, case["version"], case["dialect"], case["how"])
    elif k == "deep":
        probe_deep(P, case["shape"], case["depth"], v)
    elif k == "apix":
        probe_apix(P, case["doc"], v, case["call"])
    elif k == "rawfile":
        probe_raw(P, bytes.fromhex(case["hex"]), v, case.get("version"))
    elif k == "rawx":
        probe_rawx(P, case["doc"], case["where"], v)
    elif k == "oddname":
        probe_oddname(P, case["tpl"], v)
    elif k == "deps":
        probe_deps(P, case["version"], case["first"], v)
    elif k == "plist":
        probe_plist(P, case["nseg"], v)
    elif k == "longlist":
        probe_longlist(P, case["shape"], v)
    elif k == "progress":
        probe_progress(P, case["doc"], v)
    elif k == "apiseq":
        probe_apiseq(P, case["version"], case["dep"], v, case.get("segs", "first"))
    elif k == "unname":
        probe_unname(P, v, case["how"])
    elif k == "graph":
        probe_graph(P, case)
    elif k == "line":
        probe_line(P, case["text"], v, case["version"])
    elif k == "doc":
        probe_doc(P, case["text"], v, case["version"], case["dialect"], case["how"])
    elif k == "api":
        g = build_api_doc(P, case["doc"], v)
        if g is not None:
            ctx = "vlevel=%d %s" % (v, API_DOCS[case["doc"]][0])
            for st in case["steps"]:
                api_step(P, g, st, ctx)
            api_step(P, g, ["str"], ctx + " at the end of the script")
            api_step(P, g, ["validate"], ctx + " at the end of the script")
    seen = set(); out = []
    for f in P.F:
        s = signature(case, f)
        if s not in seen:
            seen.add(s); out.append(f)
    return out


def nontrivial(case):
    return True


def shrink(case, failure, max_runs=200):
    """graph scripts: greedy removal of steps, then of lines, keeping the failure signature"""
    if case.get("kind") != "graph":
        return case
    sig = signature(case, failure)
    runs = [0]

    def still(c):
        runs[0] += 1
        try:
            return any(signature(c, f) == sig for f in oracle(c))
        except Exception:
            return False
    cur = dict(case)
    for key in ("steps", "lines", "late", "steps"):
        if key not in cur:
            continue
        progress = True
        while progress and runs[0] < max_runs:
            progress = False
            for i in range(len(cur[key]) - 1, -1, -1):
                if runs[0] >= max_runs:
                    break
                cand = dict(cur)
                cand[key] = cur[key][:i] + cur[key][i + 1:]
                if still(cand):
                    cur = cand
                    progress = True
    return cur


def tags(case):
    t = [case["kind"], "v%d" % case["vlevel"]]
    for k in ("version", "dialect", "how", "op", "shape", "call", "where", "first", "dep", "segs"):
        if k in case:
            t.append("%s=%s" % (k, case[k]))
    if case.get("late"):
        t.append("late" if case.get("late_at") is not None else "late-never")
    if any(st[0] == "unname" for st in case.get("steps") or [] if st):
        t.append("unname-step")
    return t


def signature(case, failure):
    return failure.split(": ")[0]
