"""C07 — only gfapy.Error exceptions escape, whatever the input.

Every call listed in the property's `observe_at` is made on fuzzed input under
    try: call()  except gfapy.Error: fine  except BaseException: FAILURE
with a 10 s alarm per call (expiry = failure `hang`).  The failure signature is
    foreign:<ExceptionClass>@<innermost gfapy source file>:<function>
taken from the traceback (stable when line numbers move).  RecursionError keeps its own prefix
`foreign:RecursionError@...`.

NOT CHECKED
  * files that are not valid UTF-8 (UnicodeDecodeError comes from Python's file object, inside
    Gfa.read_file; switch INCLUDE_NON_UTF8_FILE on to probe it), unreadable / missing files (OSError);
  * non-string arguments (None, numbers, objects) to the string-taking API: the property speaks of strings;
  * bin/gfapy-validate's exit status;
  * which gfapy.Error subclass is raised, and whether anything should have been raised at all (C04/C18);
  * memory exhaustion.
"""
import itertools, os, tempfile
from harness import lib
from harness.props import _misc as M
from harness.props import c04_oracle as G

ID = "C07"
INCLUDE_NON_UTF8_FILE = False
ALARM = 10
RULE = ("exhaustive: the short-string enumerations of C04 (every tag datatype, every kind of positional field) and every "
        "single-point mutation of 25 valid lines and 3 valid documents, each at levels 0-3 and with version None/gfa1/gfa2 "
        "(documents also dialect rgfa, through Gfa(text), Gfa(list), add_line one by one and from_file); empty, blank, "
        "truncated and over-long lines; deep nesting (JSON depth 10..2000, group chains 10..2000); the string-taking API "
        "(line, segment, rm, try_get_line, try_get_segment, set, get, delete, field_to_s, validate, str) with identifiers, "
        "field names and values from a pool of present / absent / malformed strings; random: random byte-ish strings, "
        "random multi-point mutations, random API scripts.  Non-trivial: every case (each makes at least one call).")
CASE_TIMEOUT = 120

VERSIONS = [None, "gfa1", "gfa2"]

SPECIAL_LINES = ["", " ", "\t", "\t\t", "S", "S\t", "S\tA", "L", "L\tA", "L\tA\t+", "C\tA\t+\tB", "P", "P\tp", "E", "E\t*", "F\tA", "G",
                 "O", "O\t*", "U", "U\t*", "H\t", "H\t\t", "#", "##", "\n", "\r", "S\tA\t*\r", "\x00", "S\t\x00\t*", "é", "S\té\t*",
                 "\tS\tA\t*", " S\tA\t*", "S \tA\t*", "S\tA\t*\t", "S\tA\t*\t\t", "S\tA\t*\txx", "S\tA\t*\txx:", "S\tA\t*\txx:i",
                 "S\tA\t*\txx:i:", "S\tA\t*\t:i:1", "S\tA\t*\txx::1", "S\tA\t*\txx:Q:1", "E\t*\tA+\tB-\t$\t1\t0\t1\t*",
                 "E\t*\tA+\tB-\t0\t$\t0\t1\t*", "F\tA\tr+\t$\t$\t$\t$\t*", "E\t*\t+\t-\t0\t1\t0\t1\t*", "E\t*\tA\tB\t0\t1\t0\t1\t*",
                 "G\t*\t+\t-\t1\t*", "O\t*\t+", "O\t*\t ", "O\t*\t", "U\t*\t ", "U\t*\t", "P\tp\t+\t*", "P\tp\t,\t*", "P\tp\t,+\t*",
                 "P\tp\tA+,\t*", "P\tp\t,A+\t*", "P\tp\tA+\t,", "P\tp\tA+\t", "P\tp\t\t", "L\tA\t\tB\t\t", "C\tA\t+\tB\t-\t\t",
                 "F\tA\tr+\t0\t1\t0\t1\t*\tVN:Z:x", "F\tA\tr+\t0\t1\t0\t1\t*\tVN:i:1", "H\tVN:Z:", "H\tVN:Z:1.0\tVN:Z:1.0",
                 "H\tTS:i:x", "S\tA\t*\tLN:i:x", "S\tA\tACGT\tLN:i:x", "S\tA\tACGT\tLN:Z:4", "S\tA\t*\txx:B:", "S\tA\t*\txx:B:,",
                 "S\tA\t*\txx:B:c", "S\tA\t*\txx:B:f,", "S\tA\t*\txx:B:f,x", "S\tA\t*\txx:B:c,x", "S\tA\t*\txx:B:q,1", "S\tA\t*\txx:H:",
                 "S\tA\t*\txx:H:G", "S\tA\t*\txx:H:0", "S\tA\t*\txx:J:", "S\tA\t*\txx:J:{", "S\tA\t*\txx:J:nul", "S\tA\t*\txx:J:\"",
                 "S\tA\t*\txx:J:[1e999999]", "S\tA\t*\txx:f:1e999999", "S\tA\t*\txx:i:" + "9" * 5000,
                 "S\t" + "A" * 20000 + "\t*", "S\tA\t" + "ACGT" * 5000, "S\tA\t*" + "\txx:i:1" * 300,
                 "X", "X\t", "X\ta\txx:i:x", "X\txx:i:1", "\x7f\ta", "L\tA\t+\tB\t-\t*", "SS\tA\t*", "S1\tA", "H1", "HVN:Z:1.0",
                 "E\te\tA+\tB-\t0\t1\t0\t1\t1,a", "E\te\tA+\tB-\t0\t1\t0\t1\t1,", "E\te\tA+\tB-\t0\t1\t0\t1\t,1",
                 "E\te\tA+\tB-\t0\t1\t0\t1\t1M,", "L\tA\t+\tB\t-\tM", "L\tA\t+\tB\t-\t1", "L\tA\t+\tB\t-\t1M1", "L\tA\t+\tB\t-\t*M",
                 "C\tA\t+\tB\t-\t$\t*", "C\tA\t+\tB\t-\t1$\t*", "S\tA\t$\t*", "S\tA\t1$\t*", "G\t*\tA+\tB-\t$\t*", "G\t*\tA+\tB-\t1\t$"]

ID_POOL = ["A", "B", "e1", "l1", "p", "o", "u", "g", "zz", "", " ", "*", "A+", "A-", "+", "\t", "\n", "é", "1", "-1", "$", "0$",
           "xx:i:1", "A\tB", "A B", "A,B", "A" * 3000, "name", "None", "0", "r", "r+", "#", "S", "H", "\x00"]
FIELD_POOL = ["name", "sid", "slen", "sequence", "from_segment", "from_orient", "to_segment", "to_orient", "overlap", "pos",
              "path_name", "segment_names", "overlaps", "eid", "sid1", "sid2", "beg1", "end1", "beg2", "end2", "alignment",
              "external", "s_beg", "s_end", "f_beg", "f_end", "gid", "disp", "var", "pid", "items", "content", "spacer",
              "record_type", "field1", "LN", "RC", "ID", "VN", "TS", "xx", "ab", "a1", "zz", "XX", "", " ", "a", "abc", "1a", "é",
              "a\tb", "a:", "virtual", "gfa", "vlevel", "version", "__class__", "_data", "tagnames", "length", "container", "oriented_from",
              "from_name", "LN:i:1", "*", "+"]
VALUE_POOL = ["1", "-1", "+1", "1.5", "x", "", " ", "*", "A", "B", "zz", "A+", "B-", "zz+", "+", "-", "2M", "1M1I", "1,2", "0", "4$", "$",
              "ACGT", "ac", "[1]", "{\"a\":1}", "{", "c,1", "c,300", "f,1", "f,x", "00FF", "0g", "a b", "a\tb", "a\nb", "é", "\x7f",
              "A+,B-", "A+ B-", "A B", "A+,zz+", "e1+", "1_0", " 5", "inf", "nan", "9" * 400, "x" * 5000, "1.0", "2.0", "3.0"]

API_DOCS = [
    ("gfa1", ["H\tVN:Z:1.0\txx:i:1", "S\tA\tACGT\tLN:i:4", "S\tB\t*\tLN:i:5\tzz:J:[1]", "L\tA\t+\tB\t-\t2M\tID:Z:l1",
              "C\tA\t+\tB\t+\t1\t2M", "P\tp\tA+,B-\t2M", "# c"]),
    ("gfa2", ["H\tVN:Z:2.0\tTS:i:10", "S\tA\t4\tACGT", "S\tB\t5\t*\tbb:B:c,1", "E\te1\tA+\tB-\t2\t4$\t3\t5$\t2M",
              "F\tA\tr+\t0\t2\t0\t2$\t*", "G\tg\tA+\tB+\t10\t3", "O\to\tA+ e1+ B-", "U\tu\tA g o", "X\tcust\txx:i:1", "# c"]),
]
API_CALLS = ["line", "segment", "rm", "try_get_line", "try_get_segment", "set", "get", "delete", "field_to_s", "validate_line",
             "str", "validate", "add_line"]


# ---------------------------------------------------------------------------------------------------- plan
def _plan(tier):
    plan = []
    n = G.maxlen(tier)
    for dt in "AifZJHB":
        tot = G.n_strings(G.TAG_ALPHA[dt], n)
        for v in (0, 1, 2, 3):
            for c in range(0, tot, 300):
                plan.append({"kind": "tagx", "dt": dt, "vlevel": v, "from": c, "to": min(tot, c + 300), "n": n})
    for ctx in G.POS_CTX:
        tot = G.n_strings(G.POS_CTX[ctx][2], n)
        for v in (0, 1, 2, 3):
            for c in range(0, tot, 300):
                plan.append({"kind": "posx", "ctx": ctx, "vlevel": v, "from": c, "to": min(tot, c + 300), "n": n})
    for v in (0, 1, 2, 3):
        for ver in VERSIONS:
            for c in range(0, len(SPECIAL_LINES), 30):
                plan.append({"kind": "special", "vlevel": v, "version": ver, "from": c, "to": c + 30})
    nalpha = len(G.MUT_ALPHA) if tier == "thorough" else 4
    for b in range(len(G.BASE_LINES)):
        for v in (0, 1, 2, 3):
            for ver in VERSIONS:
                if tier != "thorough" and ver not in (None, G.BASE_LINES[b][0]) and v not in (0, 1):
                    continue
                for o in G.OPS:
                    plan.append({"kind": "mutline", "base": b, "vlevel": v, "version": ver, "op": o, "nalpha": nalpha})
    for d in range(len(G.BASE_DOCS)):
        text = "\n".join(G.BASE_DOCS[d][2])
        for v in (0, 1, 2, 3):
            for ver in VERSIONS:
                for dia in ("standard", "rgfa"):
                    if tier != "thorough" and (ver not in (None, G.BASE_DOCS[d][0]) or (dia != G.BASE_DOCS[d][1] and v != 1)):
                        continue
                    for how in ("text", "list", "add", "file"):
                        if tier != "thorough" and how != "text" and v not in (0, 1):
                            continue
                        for o in G.DOC_OPS:
                            if o in ("del", "ins", "rep"):
                                for c in range(0, len(text) + 1, 60):
                                    plan.append({"kind": "mutdoc", "doc": d, "vlevel": v, "version": ver, "dialect": dia, "how": how,
                                                 "op": o, "from": c, "to": c + 60, "nalpha": 2 if tier != "thorough" else len(G.MUT_ALPHA)})
                            else:
                                plan.append({"kind": "mutdoc", "doc": d, "vlevel": v, "version": ver, "dialect": dia, "how": how,
                                             "op": o, "from": 0, "to": 10 ** 6, "nalpha": 0})
    for depth in ([10, 100, 500, 990, 1100, 2000] if tier != "thorough" else [10, 50, 100, 300, 500, 800, 950, 990, 1000, 1100, 1500, 2000]):
        for v in (0, 1, 2, 3):
            for shape in ("json-list", "json-dict", "O-chain", "U-chain", "json-set"):
                plan.append({"kind": "deep", "shape": shape, "depth": depth, "vlevel": v})
    for d in range(len(API_DOCS)):
        for v in (0, 1, 2, 3):
            for call in API_CALLS:
                plan.append({"kind": "apix", "doc": d, "vlevel": v, "call": call})
    if INCLUDE_NON_UTF8_FILE:
        plan.append({"kind": "rawfile", "hex": "5309410aff0a", "vlevel": 1})
    return plan


_PLAN = {}


def plan(tier):
    if tier not in _PLAN:
        _PLAN[tier] = _plan(tier)
    return _PLAN[tier]


def n_exhaustive(tier):
    return len(plan(tier))


def exhaustive_case(i, tier):
    return dict(plan(tier)[i])


def budget(tier):
    return 3000 if tier == "quick" else 120000


# ---------------------------------------------------------------------------------------------------- random
def rnd_string(rng, n):
    alpha = rng.pick([
        "\t\t\tSLCPEFGOUH#X", "ABab01+-*$,: \t", "".join(chr(c) for c in range(32, 127)) + "\t",
        "".join(chr(c) for c in range(0, 32)) + "\x7f\x80é€\u2028\ud7ff" + "SA\t*",
        "0123456789MIDP,*$\t", "[]{}\",:1a \t", "cCsSiIf,-+.e19\t"])
    return "".join(rng.pick(alpha) for _ in range(n))


def gen_case(rng, tier, i):
    k = rng.random()
    v = rng.pick([0, 1, 2, 3])
    ver = rng.pick(VERSIONS)
    if k < 0.2:
        s = rnd_string(rng, rng.pick([0, 1, 2, 3, 5, 8, 13, 30]))
        if rng.chance(0.6):
            s = rng.pick(["S\t", "L\t", "C\t", "P\t", "E\t", "F\t", "G\t", "O\t", "U\t", "H\t", "#", "X\t", "S\tA\t*\txx:%s:" % rng.pick("AifZJHB")]) + s
        return {"kind": "line", "text": s, "vlevel": v, "version": ver}
    if k < 0.45:
        ver0 = rng.pick(["gfa1", "gfa2"])
        s = G.rnd_line(rng, ver0)
        for _ in range(rng.pick([1, 2, 3])):
            s, _d = G.mutate(rng, s)
        return {"kind": "line", "text": s, "vlevel": v, "version": rng.pick([None, ver0, ver0, "gfa1", "gfa2"])}
    if k < 0.75:
        ver0 = rng.pick(["gfa1", "gfa2"])
        L = G.rnd_doc(rng, ver0)
        if rng.chance(0.3):
            L.insert(rng.randrange(len(L) + 1), rng.pick(SPECIAL_LINES))
        text = "\n".join(L)
        for _ in range(rng.pick([0, 1, 2, 3])):
            text, _d = G.mutate(rng, text)
        if rng.chance(0.2):
            text += rng.pick(["\n", "\n\n", "\r\n", " "])
        return {"kind": "doc", "text": text, "vlevel": v, "version": rng.pick([None, None, ver0, "gfa1", "gfa2"]),
                "dialect": rng.pick(["standard", "standard", "rgfa"]), "how": rng.pick(["text", "list", "add", "file"])}
    # API script
    d = rng.randrange(len(API_DOCS))
    steps = []
    for _ in range(rng.pick([1, 2, 3, 5])):
        call = rng.pick(API_CALLS)
        if call in ("line", "segment", "rm", "try_get_line", "try_get_segment"):
            steps.append([call, rng.pick(ID_POOL)])
        elif call == "set":
            steps.append([call, rng.randrange(12), rng.pick(FIELD_POOL), rng.pick(VALUE_POOL)])
        elif call in ("get", "delete", "field_to_s"):
            steps.append([call, rng.randrange(12), rng.pick(FIELD_POOL)])
        elif call == "validate_line":
            steps.append([call, rng.randrange(12)])
        elif call == "add_line":
            steps.append([call, rng.pick(SPECIAL_LINES) if rng.chance(0.5) else G.mutate(rng, G.rnd_line(rng, API_DOCS[d][0]))[0]])
        else:
            steps.append([call])
    return {"kind": "api", "doc": d, "vlevel": v, "steps": steps}


# ---------------------------------------------------------------------------------------------------- oracle
class Probe:
    def __init__(self):
        self.F = []
        self.ncalls = 0

    def call(self, label, shown, fn, *a, **k):
        """-> ('ok', value) | ('gerr', None) | ('fail', None)"""
        gfapy = lib.import_gfapy()
        self.ncalls += 1
        try:
            return "ok", M.with_alarm(ALARM, fn, *a, **k)
        except gfapy.Error:
            return "gerr", None
        except M.Hang:
            self.F.append("hang: %s on %s did not return within %d s" % (label, short(shown), ALARM))
        except RecursionError as e:
            self.F.append("foreign:RecursionError@%s: %s on %s" % (M.recursion_cycle_frame(e), label, short(shown)))
        except BaseException as e:   # noqa
            if isinstance(e, (KeyboardInterrupt, SystemExit)):
                raise
            self.F.append("foreign:%s@%s: %s on %s -> %s" % (e.__class__.__name__, M.innermost_gfapy_frame(e), label, short(shown),
                                                           str(e)[:80].replace("\n", " ")))
        return "fail", None


def short(x):
    r = repr(x)
    return r if len(r) < 400 else r[:200] + "...(%d chars)..." % len(r) + r[-100:]


def probe_line(P, text, vlevel, version):
    gfapy = lib.import_gfapy()
    ctx = "vlevel=%d version=%s" % (vlevel, version)
    st, l = P.call("Line(%s)" % ctx, text, gfapy.Line, text, vlevel=vlevel, version=version)
    if st != "ok":
        return
    P.call("Line(%s).validate()" % ctx, text, l.validate)
    P.call("str(Line(%s))" % ctx, text, str, l)
    st, names = P.call("Line(%s).positional_fieldnames+tagnames" % ctx, text, lambda: list(l.positional_fieldnames) + list(l.tagnames))
    if st == "ok":
        for n in names:
            P.call("Line(%s).get(%r)" % (ctx, n), text, l.get, n)
            P.call("Line(%s).field_to_s(%r)" % (ctx, n), text, l.field_to_s, n)
    P.call("str(Line(%s)) after reads" % ctx, text, str, l)


def probe_doc(P, text, vlevel, version, dialect, how):
    gfapy = lib.import_gfapy()
    ctx = "vlevel=%d version=%s dialect=%s" % (vlevel, version, dialect)
    g = None
    if how == "text":
        st, g = P.call("Gfa(text, %s)" % ctx, text, gfapy.Gfa, text, vlevel=vlevel, version=version, dialect=dialect)
    elif how == "list":
        st, g = P.call("Gfa(list, %s)" % ctx, text, gfapy.Gfa, text.split("\n"), vlevel=vlevel, version=version, dialect=dialect)
    elif how == "add":
        st, g = P.call("Gfa(%s)" % ctx, text, gfapy.Gfa, vlevel=vlevel, version=version, dialect=dialect)
        if st == "ok":
            for ln in text.split("\n"):
                P.call("add_line (%s)" % ctx, ln, g.add_line, ln)
            P.call("process_line_queue (%s)" % ctx, text, g.process_line_queue)
    else:
        fd, path = tempfile.mkstemp(prefix="c07_", suffix=".gfa", dir="/tmp")
        try:
            with os.fdopen(fd, "w", encoding="utf-8", errors="surrogatepass", newline="") as f:
                f.write(text)
            try:
                open(path, encoding=None).read()
                readable = True
            except Exception:
                readable = False          # not text in the platform's encoding: NOT CHECKED
            if readable:
                st, g = P.call("Gfa.from_file(%s)" % ctx, text, gfapy.Gfa.from_file, path, vlevel=vlevel, version=version, dialect=dialect)
            else:
                st = "skip"
        finally:
            try:
                os.unlink(path)
            except OSError:
                pass
    if st != "ok" or g is None:
        return
    P.call("str(Gfa) (%s, %s)" % (how, ctx), text, str, g)
    P.call("Gfa.validate() (%s, %s)" % (how, ctx), text, g.validate)
    st, lines = P.call("Gfa.lines (%s, %s)" % (how, ctx), text, lambda: list(g.lines))
    if st == "ok":
        for l in lines[:30]:
            P.call("line.validate() in Gfa (%s, %s)" % (how, ctx), text, l.validate)
    P.call("str(Gfa) after validate (%s, %s)" % (how, ctx), text, str, g)


def deep_text(shape, depth):
    if shape == "json-list":
        return ["S\tA\t*\txx:J:" + "[" * depth + "]" * depth]
    if shape == "json-dict":
        return ["S\tA\t*\txx:J:" + "{\"a\":" * depth + "1" + "}" * depth]
    if shape == "json-set":
        return None
    if shape == "O-chain":
        return ["S\tA\t4\t*", "O\to0\tA+"] + ["O\to%d\to%d+" % (i, i - 1) for i in range(1, depth + 1)]
    if shape == "U-chain":
        return ["S\tA\t4\t*", "U\tu0\tA"] + ["U\tu%d\tu%d" % (i, i - 1) for i in range(1, depth + 1)]


def probe_deep(P, shape, depth, vlevel):
    gfapy = lib.import_gfapy()
    ctx = "vlevel=%d depth=%d" % (vlevel, depth)
    if shape == "json-set":
        # a nested Python value assigned through the API
        st, l = P.call("Line", "S\tA\t*", gfapy.Line, "S\tA\t*", vlevel=vlevel)
        if st != "ok":
            return
        v = []
        for _ in range(depth):
            v = [v]
        P.call("line.set('xx', nested list) (%s)" % ctx, "depth %d" % depth, l.set, "xx", v)
        P.call("str(line) nested list (%s)" % ctx, "depth %d" % depth, str, l)
        P.call("line.validate() nested list (%s)" % ctx, "depth %d" % depth, l.validate)
        return
    L = deep_text(shape, depth)
    shown = "%s depth %d" % (shape, depth)
    if shape.startswith("json"):
        st, l = P.call("Line(%s)" % ctx, shown, gfapy.Line, L[0], vlevel=vlevel)
        if st == "ok":
            P.call("line.get('xx') (%s)" % ctx, shown, l.get, "xx")
            P.call("line.validate() (%s)" % ctx, shown, l.validate)
            P.call("str(line) (%s)" % ctx, shown, str, l)
            P.call("line.clone() (%s)" % ctx, shown, l.clone)
        st, g = P.call("Gfa(%s)" % ctx, shown, gfapy.Gfa, L, vlevel=vlevel)
        if st == "ok":
            P.call("str(Gfa) (%s)" % ctx, shown, str, g)
        return
    st, g = P.call("Gfa(%s)" % ctx, shown, gfapy.Gfa, L, vlevel=vlevel)
    if st != "ok":
        return
    P.call("Gfa.validate() (%s)" % ctx, shown, g.validate)
    P.call("str(Gfa) (%s)" % ctx, shown, str, g)
    top = ("o%d" if shape == "O-chain" else "u%d") % depth
    st, l = P.call("Gfa.line(top) (%s)" % ctx, shown, g.line, top)
    if st == "ok" and l is not None:
        if shape == "O-chain":
            P.call("captured_path of the outermost group (%s)" % ctx, shown, lambda: l.captured_path)
        else:
            P.call("induced_set of the outermost group (%s)" % ctx, shown, lambda: l.induced_set)
    P.call("Gfa.rm('A') (%s)" % ctx, shown, g.rm, "A")
    P.call("str(Gfa) after rm (%s)" % ctx, shown, str, g)


def build_api_doc(P, d, vlevel):
    gfapy = lib.import_gfapy()
    ver, lines = API_DOCS[d]
    st, g = P.call("Gfa(valid %s document)" % ver, lines, gfapy.Gfa, list(lines), vlevel=vlevel, version=ver)
    return g if st == "ok" else None


def api_step(P, g, step, ctx):
    call = step[0]
    if call in ("line", "segment", "rm", "try_get_line", "try_get_segment"):
        P.call("Gfa.%s(%r) (%s)" % (call, step[1] if len(step[1]) < 40 else step[1][:20] + "...", ctx), step, getattr(g, call), step[1])
    elif call in ("set", "get", "delete", "field_to_s", "validate_line"):
        st, lines = P.call("Gfa.lines", step, lambda: list(g.lines))
        if st != "ok" or not lines:
            return
        l = lines[step[1] % len(lines)]
        who = "%s-line" % l.record_type
        if call == "set":
            P.call("%s.set(%r, %s) (%s)" % (who, step[2], short(step[3])[:40], ctx), step, l.set, step[2], step[3])
        elif call == "validate_line":
            P.call("%s.validate() (%s)" % (who, ctx), step, l.validate)
        else:
            P.call("%s.%s(%r) (%s)" % (who, call, step[2], ctx), step, getattr(l, call), step[2])
        P.call("str(%s) after %s (%s)" % (who, call, ctx), step, str, l)
    elif call == "str":
        P.call("str(Gfa) (%s)" % ctx, step, str, g)
    elif call == "validate":
        P.call("Gfa.validate() (%s)" % ctx, step, g.validate)
    elif call == "add_line":
        P.call("Gfa.add_line (%s)" % ctx, step, g.add_line, step[1])


def probe_apix(P, d, vlevel, call):
    """one API call with every pool entry, each on a fresh valid document"""
    ctx = "vlevel=%d %s" % (vlevel, API_DOCS[d][0])
    if call in ("line", "segment", "rm", "try_get_line", "try_get_segment"):
        for x in ID_POOL:
            g = build_api_doc(P, d, vlevel)
            if g is None:
                return
            api_step(P, g, [call, x], ctx)
            api_step(P, g, ["str"], ctx + " after %s(%r)" % (call, x[:20]))
            api_step(P, g, ["validate"], ctx + " after %s(%r)" % (call, x[:20]))
    elif call in ("get", "delete", "field_to_s"):
        g = build_api_doc(P, d, vlevel)
        if g is None:
            return
        n = len(API_DOCS[d][1])
        for li in range(n):
            for f in FIELD_POOL:
                if call == "delete":
                    g = build_api_doc(P, d, vlevel)
                    if g is None:
                        return
                api_step(P, g, [call, li, f], ctx)
    elif call == "set":
        n = len(API_DOCS[d][1])
        for li in range(n):
            for k, f in enumerate(FIELD_POOL):
                # every field name with a rotating choice of values, each on a fresh document
                for j in range(3):
                    val = VALUE_POOL[(k * 3 + j + li * 7) % len(VALUE_POOL)]
                    g = build_api_doc(P, d, vlevel)
                    if g is None:
                        return
                    api_step(P, g, ["set", li, f, val], ctx)
                    api_step(P, g, ["validate_line", li], ctx + " after set(%r, %s)" % (f, short(val)[:30]))
                    api_step(P, g, ["str"], ctx + " after set(%r, %s)" % (f, short(val)[:30]))
                    api_step(P, g, ["validate"], ctx + " after set(%r, %s)" % (f, short(val)[:30]))
    elif call == "validate_line":
        g = build_api_doc(P, d, vlevel)
        if g is None:
            return
        for li in range(len(API_DOCS[d][1])):
            api_step(P, g, [call, li], ctx)
    elif call == "add_line":
        for x in SPECIAL_LINES:
            g = build_api_doc(P, d, vlevel)
            if g is None:
                return
            api_step(P, g, [call, x], ctx)
            api_step(P, g, ["str"], ctx + " after add_line")
    else:
        g = build_api_doc(P, d, vlevel)
        if g is not None:
            api_step(P, g, [call], ctx)


def oracle(case):
    P = Probe()
    k = case["kind"]
    v = case["vlevel"]
    if k == "tagx":
        for s in itertools.islice(G.strings(G.TAG_ALPHA[case["dt"]], case["n"]), case["from"], case["to"]):
            probe_line(P, "S\tA\t*\txx:%s:%s" % (case["dt"], s), v, "gfa1")
    elif k == "posx":
        ver, tpl, al = G.POS_CTX[case["ctx"]]
        for s in itertools.islice(G.strings(al, case["n"]), case["from"], case["to"]):
            probe_line(P, tpl % s, v, ver)
    elif k == "special":
        for s in SPECIAL_LINES[case["from"]:case["to"]]:
            probe_line(P, s, v, case["version"])
            for how in ("text", "add"):
                probe_doc(P, s, v, case["version"], "standard", how)
            probe_doc(P, "S\tA\t*\n" + s + "\nS\tB\t*", v, case["version"], "standard", "text")
            probe_doc(P, "S\tA\t1\t*\n" + s, v, case["version"], "standard", "text")
    elif k == "mutline":
        for t in G.iter_line_mutations(G.BASE_LINES[case["base"]][1], case["op"], case["nalpha"]):
            probe_line(P, t, v, case["version"])
    elif k == "mutdoc":
        text = "\n".join(G.BASE_DOCS[case["doc"]][2])
        for t in G.iter_line_mutations(text, case["op"], case["nalpha"], case["from"], case["to"]):
            probe_doc(P, t, v, case["version"], case["dialect"], case["how"])
    elif k == "deep":
        probe_deep(P, case["shape"], case["depth"], v)
    elif k == "apix":
        probe_apix(P, case["doc"], v, case["call"])
    elif k == "rawfile":
        gfapy = lib.import_gfapy()
        fd, path = tempfile.mkstemp(prefix="c07_", suffix=".gfa", dir="/tmp")
        try:
            with os.fdopen(fd, "wb") as f:
                f.write(bytes.fromhex(case["hex"]))
            P.call("Gfa.from_file(non-UTF-8 bytes)", case["hex"], gfapy.Gfa.from_file, path, vlevel=v)
        finally:
            os.unlink(path)
    elif k == "line":
        probe_line(P, case["text"], v, case["version"])
    elif k == "doc":
        probe_doc(P, case["text"], v, case["version"], case["dialect"], case["how"])
    elif k == "api":
        g = build_api_doc(P, case["doc"], v)
        if g is not None:
            ctx = "vlevel=%d %s" % (v, API_DOCS[case["doc"]][0])
            for st in case["steps"]:
                api_step(P, g, st, ctx)
            api_step(P, g, ["str"], ctx + " at the end of the script")
            api_step(P, g, ["validate"], ctx + " at the end of the script")
    seen = set(); out = []
    for f in P.F:
        s = signature(case, f)
        if s not in seen:
            seen.add(s); out.append(f)
    return out


def nontrivial(case):
    return True


def tags(case):
    t = [case["kind"], "v%d" % case["vlevel"]]
    for k in ("version", "dialect", "how", "op", "shape", "call"):
        if k in case:
            t.append("%s=%s" % (k, case[k]))
    return t


def signature(case, failure):
    return failure.split(": ")[0]
