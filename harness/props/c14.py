"""C14 — linear-path merging spells the right sequence and keeps the rest intact.

Oracle: real library only.  The expectation is re-derived from the WRITTEN TEXT str(g) taken before the operation,
read by harness/props/_graphgen.parse (tab splitting; E lines classified by geometry):
  * linear_paths(): adjacency dict of segment ends -> dovetails; a join is usable iff both joined ends carry exactly
    that one dovetail (a hairpin counts twice on its end); maximal chains of >= 2 segments; compared with the
    library's answer as sets of paths up to reversal; linear_path(s) (name and instance) for members of a chain.
  * merge_linear_paths(): per chain one new segment named by the "_"-joined member names (documented default),
    sequence = members oriented by the traversal, successors trimmed by the overlap length (sum of M/= lengths,
    `*` = 0), LN/slen = that length (or the sum of the lengths minus the overlaps when sequences are `*`), exactly
    the images of the dovetails on the chain's two outer ends (end map: entry end -> L, exit end -> R of the merged
    segment), every line not touching a chain textually unchanged, nothing else new, components preserved with each
    chain collapsed, references closed and mirrored, a second merge changes nothing.
  * GFA2, "inherits exactly the chain's outward dovetails": every outward E line is also compared with its
    INTERVALS: the image covers, on the merged segment, a prefix (entry end) or a suffix (exit end) exactly as long
    as the interval it covered on the chain member, the interval on a segment that is not merged is the one it had,
    and the alignment is the one it had (signature outward-dovetail-intervals-wrong).  The comparison is made on
    (segment end, interval length) per side, the two sides taken in either order (with I/D exchanged in a CIGAR when
    the sides are exchanged), so that the written direction of the re-attached edge stays free.

Generator (gen_case): _graphgen.gen_graph, a validation level, IUPAC codes in 40% of the documents, and - GFA2, 60%
of the documents - outward dovetails whose two intervals have DIFFERENT lengths (_unequal_outward): dovetails that
are not usable joins (junction edges, parallel edges, hairpins and self-links on chain ends, ...) get another
interval length on one side (0 .. length-1, still a prefix/suffix on the same end) and an alignment which agrees
with the two lengths: a CIGAR with insertions/deletions (3M1D, 2M2I1M), `*`, or a trace.  The usable joins keep
their match-only overlaps (merging through other operations is outside the quantifier), so the chains, the
spelled sequences and the expected merged lengths are those of the unmodified document.
GFA1 documents get two more kinds of content (drawn after everything above, so the earlier kinds are all kept):
  * 30%: _covered_members - usable joins whose overlap is exactly as long as the shorter joined segment (kM, k=,
    jM(k-j)M with k = min of the two lengths; gen_graph stops at min-1).  This is the boundary of "each successor
    trimmed by the overlap length": the covered member adds no base of its own, the merged segment still carries the
    spelled sequence of the chain (every member has one) and the length sum(lengths) - sum(overlaps).
  * 40%: _walk_paths - 1-3 P lines that are random walks of 2-8 oriented segments over the L lines of the document
    (both strands, repeated links/segments, across junctions, 2 of 3 started on a chain member), with the overlaps
    of the walked links or `*`, placed at the end or ahead of the L lines.  A path that walks through a chain is
    removed by the merge (it mentions a merged member: not checked); the L lines it walks OUTSIDE of the chain do not
    touch a chain and must be textually unchanged (untouched-line-changed), the outward dovetails of every chain on
    the path keep their overlaps (outward-dovetails-wrong), and a second chain further along the same path is still
    spelled with the overlap its join had (merged-sequence-wrong / merged-length-wrong).

Both versions, 20% of the documents, drawn last of all (so every kind above is kept, 80% of them unchanged):
  * _end_like_name - one member Y of a chain or cycle is renamed (S line and every L/C/P, E/G/F/O/U reference) to the
    WRITTEN FORM OF A SEGMENT END of another segment X of the document: `XL` or `XR` (legal names: chr2 / chr2L /
    chr2R), where X is the first or last member of a chain and the letter names its outer end - the end on which
    that chain stops - and Y is preferably declared after another member of X's chain (so that X's chain is walked
    to its end before Y's chain is looked at); 1 of 5 renamings take any end of any segment and any other segment.
    The property speaks of the dovetails only: linear_paths()/linear_path(s) must still return exactly the maximal
    chains of the text, names apart (linear-paths-missing / -unexpected, linear-path-of-segment-wrong), the merged
    segment is named by the "_"-joined (new) names, and the merge is idempotent (not-idempotent-paths / -text).
    This is the situation in which a segment NAME and the string form of a SegmentEnd (which gfapy compares and
    hashes as equal: SegmentEnd("t","R") == "tR") can be mistaken for one another in the library's bookkeeping.

Signatures of merge-phase failures carry a domain prefix (vlevel3- / mixedseq- / gfa2-, see oracle()) so that the
open roots seen on the tree (merge at validation level 3; chains mixing `*` and sequence members; GFA2 edge
coordinates never recomputed for the merged segment) do not share signatures with plain GFA1 regressions.  When an
E line of the result has positions that are invalid for its segments (`$` not at the segment length, end beyond
the length) only `merged-edge-positions-invalid` is reported, because every later text comparison would echo it;
otherwise the result is read with gfapy's own `$`-based rule so that orientation errors stay visible.

NOT CHECKED (the property text does not settle it, or the documented behaviour is unclear):
  * whether a pure cycle (every join usable) is reported by linear_paths(): accepted either way; if it is reported,
    any rotation/direction is accepted and the merge is then checked for that rotation (closing join -> self-link).
  * linear_path(s) for a segment that belongs to no chain or to a cycle.
  * options merged_name='short', enable_tracking, cut_counts, redundant_junctions.
  * tags of the merged segment (count tags are dropped/summed by the code) and tags / identifiers of the
    re-attached dovetails; the written direction (L line or its complement, sid1/sid2 order) of re-attached edges.
  * what happens to containments, internal alignments, paths, groups, gaps, fragments that mention a merged
    member, beyond: no line of the result may mention a removed segment, and nothing new may appear.
  * spelled sequence/length of a chain through a GFA2 edge whose alignment is `*` but whose intervals are not
    empty (cut 0 by the alignment, k by the coordinates).
  * overlaps with operations other than M/= (outside the quantifier).
"""
import re
from harness import lib
from harness.props import _graphgen as G

ID = "C14"
RULE = ("random assembly-like graphs (_graphgen.gen_graph: chains 2-8 with all orientation mixes, junctions, dead ends, "
        "cycles, self-links/hairpins on chain ends, parallel edges, containments, internals, GFA1/GFA2, with and "
        "without sequences, overlaps * / kM / k=), <= 10 segments quick, <= 30 thorough; in 60% of the GFA2 documents "
        "the dovetails that are not usable joins get intervals of different length on their two segments with an "
        "alignment that agrees (CIGAR with I/D, `*`, trace); in 30% of the GFA1 documents usable joins get an overlap "
        "exactly as long as the shorter joined segment (a member entirely covered by its overlap); 40% of the GFA1 "
        "documents get 1-3 P lines that are random walks (2-8 oriented segments, both strands, repeats, across "
        "junctions) over the L lines, stating their overlaps or `*`: paths through a chain and beyond it, whose "
        "other links must come out of the merge unchanged; in 20% of all documents (both versions) one member of a "
        "chain or cycle is renamed, with all its references, to the written form XL / XR of an end of another segment "
        "X of the document (mostly the outer end of the first/last member of a chain): the chains, the per-segment "
        "linear_path and the idempotence of the merge must not depend on the names. Non-trivial: the text has at "
        "least one chain or cycle of usable joins; distinct by case hash.")
CASE_TIMEOUT = 60


def budget(tier):
    return 1500 if tier == "quick" else 60000


# IUPAC nucleotide codes and their complements (written out here, independent of gfapy.sequence.WCC)
IUPAC = {"A": "T", "C": "G", "G": "C", "T": "A", "R": "Y", "Y": "R", "K": "M", "M": "K", "S": "S", "W": "W",
         "B": "V", "V": "B", "D": "H", "H": "D", "N": "N"}
IUPAC.update({k.lower(): v.lower() for k, v in list(IUPAC.items())})


def rc(seq):
    return "".join(IUPAC[c] for c in reversed(seq))


def gen_case(rng, tier, i):
    c = G.gen_graph(rng, tier)
    c["vlevel"] = rng.choice([0, 1, 1, 1, 2, 3])
    if rng.random() < 0.4:
        # ambiguity codes and lower case in the sequences (same lengths): the reverse complement of every code matters
        codes = "RYKMSWBVDHNacgtrykmswbvdhn"
        out = []
        col = 2 if c["version"] == "gfa1" else 3
        for l in c["lines"]:
            f = l.split("\t")
            if f[0] == "S" and len(f) > col and f[col] != "*":
                f[col] = "".join(rng.choice(codes) if rng.random() < 0.5 else ch for ch in f[col])
            out.append("\t".join(f))
        c["lines"] = out
    if c["version"] == "gfa2" and rng.random() < 0.6:
        c["lines"] = _unequal_outward(rng, c["lines"])
    # (the draws below come last, so that the kinds of document described above are generated as before)
    if c["version"] == "gfa1":
        if rng.random() < 0.3:
            c["lines"] = _covered_members(rng, c["lines"])
        if rng.random() < 0.4:
            c["lines"] = _walk_paths(rng, c["lines"])
    # (again the last draw: every kind of document above is generated as before, 20% of them with one name changed)
    if rng.random() < 0.2:
        c["lines"] = _end_like_name(rng, c["lines"], c["version"])
    return c


def _alignment_for(rng, n1, n2):
    """an alignment field that is legal for an interval of n1 positions on sid1 and of n2 positions on sid2"""
    r = rng.random()
    m = min(n1, n2)
    if r < 0.3 or n1 == n2 == 0:
        return "*"
    if m == 0:
        return rng.choice(["*", "%dD" % n1 if n1 else "%dI" % n2])
    if r < 0.45:
        return rng.choice(["1", "2", "1,1", "2,1", "%d" % max(n2, 1)])      # a trace
    gap = "%dD" % (n1 - m) if n1 > m else "%dI" % (n2 - m)
    if m >= 2 and rng.random() < 0.5:
        j = rng.randint(1, m - 1)
        return "%dM%s%dM" % (j, gap, m - j)
    return ("%dM%s" % (m, gap)) if rng.random() < 0.7 else ("%s%dM" % (gap, m))


def _unequal_outward(rng, lines, p_edge=0.7):
    """GFA2: the dovetails that are NOT usable joins get an interval of another length on one of their sides (still
    a prefix/suffix on the same segment end, never the whole segment) and an alignment that agrees with the two
    lengths.  Chains, cycles and joins of the document are unchanged (they depend on the ends only)."""
    d = G.parse(lines, "gfa2")
    if len(d.lines) != len(lines):
        return lines
    _, _, joins = G.chains(d)
    usable = set(id(e) for e in joins.values())
    out = list(d.lines)
    for e in d.dovetails:
        if e["rt"] != "E" or not e["valid"] or id(e) in usable or rng.random() >= p_edge:
            continue
        f = e["line"].split("\t")
        side = rng.randrange(2)
        n = d.segs[(e["a"], e["b"])[side]]["len"]
        end = e["ends"][side][1]
        old = G._pos(f[5 + 2 * side])[0] - G._pos(f[4 + 2 * side])[0]
        cand = [k for k in range(0, n) if k != old]
        if not cand:
            continue
        k = rng.choice(cand)
        b, en = (0, k) if end == "L" else (n - k, n)
        f[4 + 2 * side] = "%d$" % b if b == n else str(b)
        f[5 + 2 * side] = "%d$" % en if en == n else str(en)
        n1 = G._pos(f[5])[0] - G._pos(f[4])[0]
        n2 = G._pos(f[7])[0] - G._pos(f[6])[0]
        f[8] = _alignment_for(rng, n1, n2)
        out[e["idx"]] = "\t".join(f)
    return out


def _complement_ovl(ovl):
    """a match-only CIGAR read from the other strand (the operations in reverse order)"""
    if ovl == "*":
        return "*"
    return "".join("%d%s" % (n, k) for n, k in reversed(G.cigar_ops(ovl)))


def _path_steps(f):
    """P line fields -> [((seg, orient), (seg, orient), index into the overlap list)] (a circular path, which has
    as many overlaps as segments, closes with a step from the last to the first segment)"""
    items = [(x[:-1], x[-1]) for x in f[2].split(",")]
    ovls = f[3].split(",")
    steps = [(items[i], items[i + 1], i) for i in range(len(items) - 1)]
    if len(ovls) == len(items) and len(items) > 1 and f[3] != "*":
        steps.append((items[-1], items[0], len(items) - 1))
    return steps


def _covered_members(rng, lines, p_join=0.6):
    """GFA1: usable joins (at least one, each further one with probability p_join) get an overlap as long as the
    SHORTER of the two joined segments (kM, k= or jM(k-j)M with k = min of the two lengths): the boundary value of
    the overlap length, at which the shorter member is entirely covered by the overlap and contributes no base of
    its own when it is the successor in the traversal (in GFA2 such an edge would be a containment; in GFA1 it is an
    L line like any other).  The chains are unchanged (they depend on the ends only); a P line which states the
    overlap of such a link is rewritten to state the new one."""
    d = G.parse(lines, "gfa1")
    if len(d.lines) != len(lines):
        return lines
    _, _, joins = G.chains(d)
    cand = [e for e in joins.values() if e["rt"] == "L" and d.segs[e["a"]]["len"] is not None
            and d.segs[e["b"]]["len"] is not None]
    cand.sort(key=lambda e: e["idx"])
    if not cand:
        return lines
    sure = rng.choice(cand)
    out = list(d.lines)
    changed = {}
    for e in cand:
        if e is not sure and rng.random() >= p_join:
            continue
        k = min(d.segs[e["a"]]["len"], d.segs[e["b"]]["len"])
        r = rng.random()
        if r < 0.25:
            ovl = "%d=" % k
        elif r < 0.4 and k >= 2:
            j = rng.randint(1, k - 1)
            ovl = "%dM%dM" % (j, k - j)
        else:
            ovl = "%dM" % k
        f = e["line"].split("\t")
        f[5] = ovl
        out[e["idx"]] = "\t".join(f)
        changed[((e["a"], e["oa"]), (e["b"], e["ob"]))] = ovl
    for r_ in d.recs:
        if r_["rt"] != "P":
            continue
        f = r_["line"].split("\t")
        if f[3] == "*":
            continue
        ovls = f[3].split(",")
        for x, y, i in _path_steps(f):
            if i >= len(ovls) or ovls[i] == "*":
                continue
            if (x, y) in changed:
                ovls[i] = changed[(x, y)]
            elif ((y[0], G.INV[y[1]]), (x[0], G.INV[x[1]])) in changed:
                ovls[i] = _complement_ovl(changed[((y[0], G.INV[y[1]]), (x[0], G.INV[x[1]]))])
        f[3] = ",".join(ovls)
        out[r_["idx"]] = "\t".join(f)
    return out


def _walk_paths(rng, lines):
    """GFA1: 1-3 more P lines (p2, p3, p4), each a random walk of 2-8 oriented segments over the L lines of the
    document (either strand of a link; a link, a segment, a self-link or a hairpin may be walked several times;
    junctions are crossed), started on a chain member in 2 of 3 walks: paths which walk through a chain, or through
    several chains, AND go on over links which do not touch it.  The overlap field is `*` (30%) or the list of the
    overlaps of the walked links as read in the direction of the walk (each specified one is replaced by `*` with
    probability 0.1), so every step is supported by an L line of the document.  The P lines are put at the end of
    the document, or (30%) anywhere after the S lines (a P line ahead of its L lines)."""
    d = G.parse(lines, "gfa1")
    if len(d.lines) != len(lines):
        return lines
    adj = {}
    for e in d.dovetails:
        if e["rt"] != "L":
            continue
        adj.setdefault((e["a"], e["oa"]), []).append(((e["b"], e["ob"]), e["ovl"]))
        adj.setdefault((e["b"], G.INV[e["ob"]]), []).append(((e["a"], G.INV[e["oa"]]), _complement_ovl(e["ovl"])))
    if not adj:
        return lines
    paths, cycles, _ = G.chains(d)
    member_starts = [x for x in adj if any(x[0] == s for p in paths + cycles for s, _ in p)]
    used = set(r_["name"] for r_ in d.recs if r_["name"]) | set(d.segs)
    new = []
    for nm in ["p2", "p3", "p4"][:rng.choice([1, 1, 2, 3])]:
        if nm in used:
            continue
        cur = rng.choice(member_starts) if (member_starts and rng.random() < 0.67) else rng.choice(list(adj))
        items, ovls = [cur], []
        for _ in range(rng.randint(1, 7)):
            if cur not in adj:
                break
            cur, ovl = rng.choice(adj[cur])
            items.append(cur)
            ovls.append(ovl)
        if len(items) < 2:
            continue
        if rng.random() < 0.3:
            field = "*"
        else:
            field = ",".join("*" if (o != "*" and rng.random() < 0.1) else o for o in ovls)
        new.append("P\t%s\t%s\t%s" % (nm, ",".join(s + o for s, o in items), field))
    out = list(d.lines)
    if rng.random() < 0.3:
        first = 1 + max([r_["idx"] for r_ in d.recs if r_["rt"] == "S"] or [-1])
        for l in new:
            out.insert(rng.randint(first, len(out)), l)
        return out
    return out + new


def _rename_segment(lines, version, old, new):
    """the document with segment `old` called `new` in its S line and in every line that refers to it (L/C/P in
    GFA1; E/G/F/O/U in GFA2); field positions per record type, nothing else is touched"""
    def ref(x):                    # a reference with an orientation sign
        return new + x[-1] if x[:-1] == old else x
    out = []
    for l in lines:
        f = l.split("\t")
        rt = f[0]
        if rt == "S":
            if f[1] == old:
                f[1] = new
        elif rt in ("L", "C") and version == "gfa1":
            for i in (1, 3):
                if f[i] == old:
                    f[i] = new
        elif rt == "P" and version == "gfa1":
            f[2] = ",".join(ref(x) for x in f[2].split(","))
        elif rt in ("E", "G"):
            f[2], f[3] = ref(f[2]), ref(f[3])
        elif rt == "F":
            if f[1] == old:
                f[1] = new
        elif rt == "O":
            f[2] = " ".join(ref(x) for x in f[2].split(" "))
        elif rt == "U":
            f[2] = " ".join(new if x == old else x for x in f[2].split(" "))
        out.append("\t".join(f))
    return out


def _end_like_name(rng, lines, version):
    """One segment Y of the document is renamed to the written form of a SEGMENT END of another segment X: `XL` or
    `XR` (legal segment names in both versions; think of chr2 / chr2L / chr2R).  "Exactly the maximal chains" is a
    statement about the dovetails, whatever the segments are called, so nothing in the expectation changes but the
    names.  X is the first or last member of a chain and the letter is that of its OUTER end (the end on which the
    chain stops: a dead end or a junction), Y is another member of a chain or of a cycle (the same chain or another
    one, preferably - 3 of 4 - one whose S line comes after the S line of some other member of X's chain, so that
    the chain of X is walked to its end before Y is looked at); 1 of 5: any end of any segment for X, any other
    segment for Y.  Every reference to Y (L/C/P, E/G/F/O/U) is rewritten; the document is returned unchanged when
    it has no chain or the new name is taken."""
    d = G.parse(lines, version)
    if len(d.lines) != len(lines) or d.dup_names:
        return lines
    paths, cycles, _ = G.chains(d)
    members = [s for p in paths + cycles for s, _ in p]
    ids = set(d.segs) | set(r_["name"] for r_ in d.recs if r_["name"])
    if rng.random() < 0.2 or not paths:
        if len(d.seg_order) < 2:
            return lines
        x, end = rng.choice(d.seg_order), rng.choice("LR")
        cand = [s for s in d.seg_order if s != x]
    else:
        p = rng.choice(paths)
        x, end = rng.choice([(p[0][0], G.OTHER_END[p[0][1]]), (p[-1][0], p[-1][1])])
        cand = [s for s in members if s != x]
        if rng.random() < 0.75:
            first = min(d.segs[s]["idx"] for s, _ in p if s != x)
            later = [s for s in cand if d.segs[s]["idx"] > first]
            cand = later or cand
    if not cand or x + end in ids:
        return lines
    return _rename_segment(lines, version, rng.choice(sorted(set(cand))), x + end)


def _doc(case):
    return G.parse(case["lines"], case["version"])


def nontrivial(case):
    p, c, _ = G.chains(_doc(case))
    return bool(p or c)


def tags(case):
    d = _doc(case)
    t = G.features(d)
    paths, cycles, joins = G.chains(d)
    if any(s[-1] in "LR" and s[:-1] in d.segs for s in d.segs):
        t.append("end-like-name")
        if any(s[-1] in "LR" and s[:-1] in d.segs for p in paths + cycles for s, _ in p):
            t.append("end-like-name-in-chain")
    if case["version"] == "gfa1":
        if any(e["cut"] is not None and e["cut"] in (d.segs[e["a"]]["len"], d.segs[e["b"]]["len"]) for e in joins.values()):
            t.append("covered-member")
        members = set(s for p in paths + cycles for s, _ in p)
        for r_ in d.recs:
            if r_["rt"] == "P" and len(r_["refs"]) > 2:
                t.append("walk-path")
                refs = r_["refs"]
                if members.intersection(refs) and any(a not in members and b not in members for a, b in zip(refs, refs[1:])):
                    t.append("path-through-chain-and-beyond")
        t = sorted(set(t), key=t.index)
    return t


def signature(case, failure):
    return failure.split(":")[0]


def shrink(case, failure):
    return G.shrink_lines(case, failure, oracle, signature)


def _edge_cut(e):
    """cut length of a join, None if the text does not settle it"""
    if e["cut"] is None:
        return None
    if e["rt"] == "E" and e["ovl"] == "*":
        (b1, _), (e1, _), (b2, _), (e2, _) = [G._pos(x) for x in e["coords"]]
        if e1 != b1 or e2 != b2:
            return None
    return e["cut"]


_SWAP_ID = {"I": "D", "D": "I"}


def _ikey(ends, e):
    """an E dovetail as ((end, interval length) of one side, the same of the other side, alignment), independent of
    the written direction: the sides in either order (I and D exchanged when the sides are), a CIGAR read from
    either strand (order of the operations reversed); `*` and traces are compared as written"""
    (b1, _), (e1, _), (b2, _), (e2, _) = [G._pos(x) for x in e["coords"]]
    s1, s2 = (tuple(ends[0]), e1 - b1), (tuple(ends[1]), e2 - b2)
    ovl = e["ovl"]
    if re.match(r"^([0-9]+[MIDNSHPX=])+$", ovl):
        ops = tuple(G.cigar_ops(ovl))
        swp = tuple((n, _SWAP_ID.get(k, k)) for n, k in ops)
        a = ("cigar", min(ops, tuple(reversed(ops))))
        b = ("cigar", min(swp, tuple(reversed(swp))))
    else:
        a = b = ("raw", ovl)
    return min((s1, s2, a), (s2, s1, b))


QUERY_PHASE = ("linear-paths-", "linear-path-of-segment-")


def oracle(case):
    """failures of the merge phase get a domain prefix so that one root keeps one family of signatures:
    vlevel3- (validation level 3), mixedseq- (a chain mixes `*` and sequence members), gfa2- (GFA2 document)"""
    F = _oracle(case)
    if not F:
        return F
    d = G.parse(case["lines"], case["version"])
    paths, cycles, _ = G.chains(d)
    mixed = any(len(set(d.segs[s]["seq"] is None for s, _ in p)) == 2 for p in paths + cycles)
    out = []
    for f in F:
        if f.startswith(QUERY_PHASE):
            out.append(f)
        elif case.get("vlevel") == 3 and f.startswith("merge-raises-TypeError"):
            out.append("vlevel3-" + f)
        elif mixed and f.startswith(("merge-raises-foreign", "merged-length", "merged-sequence")):
            out.append("mixedseq-" + f)
        elif case["version"] == "gfa2":
            out.append("gfa2-" + f)
        elif mixed:
            out.append("mixedseq-" + f)
        else:
            out.append(f)
    return out


def _oracle(case):
    gfapy = lib.import_gfapy()
    F = []
    try:
        g = G.build(case, case.get("vlevel", 1))
    except gfapy.Error:
        return F
    if lib.outcome(g.validate)[0] != "ok":
        return F
    text0 = str(g)
    d0 = G.parse(text0, case["version"])
    if not G.closed(d0) or not all(e["valid"] for e in d0.edges) or d0.dup_names:
        return F
    exp_paths, exp_cycles, joins = G.chains(d0)
    # ---------------------------------------------------------------- linear_paths
    r = lib.outcome(lambda: [G.lib_path(p) for p in g.linear_paths()])
    if r[0] != "ok":
        return ["linear-paths-raises: %s %s" % (r[0], r[1])]
    got = r[1]
    if str(g) != text0:
        return ["linear-paths-mutates: text changed by the query"]
    exp_keys = {G.path_key(p): p for p in exp_paths}
    cyc_keys = {G.cycle_key(c): c for c in exp_cycles}
    seen = set()
    todo = []                      # chains as the library reports them (validated)
    for p in got:
        k = G.path_key(p)
        if k in seen:
            F.append("linear-paths-duplicate: %r" % (p,))
            continue
        seen.add(k)
        if k in exp_keys:
            todo.append(p)
        elif len(set(s for s, _ in p)) == len(p) and G.cycle_key(p) in cyc_keys:
            todo.append(p)
            seen.add(("cyc", G.cycle_key(p)))
        else:
            F.append("linear-paths-unexpected: library reports %r; chains of the text: %r, cycles: %r" % (p, exp_paths, exp_cycles))
    for k, p in exp_keys.items():
        if k not in seen:
            F.append("linear-paths-missing: chain %r of the text is not reported (got %r)" % (p, got))
    if F:
        return F
    member_of = {}
    for p in exp_paths:
        for s, _ in p:
            member_of[s] = p
    for s, p in member_of.items():
        for arg, how in ((s, "name"), (g.segment(s), "instance")):
            r = lib.outcome(lambda: G.lib_path(g.linear_path(arg)))
            if r[0] != "ok":
                F.append("linear-path-of-segment-raises: linear_path(%s by %s): %s %s" % (s, how, r[0], r[1]))
            elif G.path_key(r[1]) != G.path_key(p):
                F.append("linear-path-of-segment-wrong: linear_path(%s by %s) = %r, chain is %r" % (s, how, r[1], p))
    if F:
        return F
    # ---------------------------------------------------------------- merge
    r = lib.outcome(g.merge_linear_paths)
    if r[0] != "ok":
        return ["merge-raises-%s%s: on chains %r (vlevel %s)" % ("foreign-" if r[0] == "foreign" else "", r[1], todo, case.get("vlevel", 1))]
    text1 = str(g)
    d1 = G.parse(text1, case["version"])
    d1d = G.parse(text1, case["version"], dollar=True)
    members = set(s for p in todo for s, _ in p)
    new_names = [n for n in d1.seg_order if n not in d0.segs]
    if d1.dup_names:
        F.append("duplicate-segment-name: %r" % d1.dup_names)
    gone = [s for s in members if s in d1.segs]
    if gone:
        F.append("member-not-removed: %r still present after merging %r" % (gone, todo))
    lost = [s for s in d0.segs if s not in members and s not in d1.segs]
    if lost:
        F.append("bystander-segment-removed: %r" % lost)
    # match the new segments with the chains by the documented "_"-joined name
    by_names = {}
    for p in todo:
        by_names[tuple(s for s, _ in p)] = p
        by_names[tuple(s for s, _ in reversed(p))] = G.rev_path(p)
    endmap = {}
    merged_of = {}
    chain_of_new = {}
    for nm in new_names:
        q = by_names.get(tuple(nm.split("_")))
        if q is None:
            F.append("merged-name-unexpected: new segment %r does not combine the names of a chain %r" % (nm, todo))
            continue
        chain_of_new[nm] = q
        for s, _ in q:
            merged_of[s] = nm
        endmap[(q[0][0], G.OTHER_END[q[0][1]])] = (nm, "L")
        endmap[(q[-1][0], q[-1][1])] = (nm, "R")
    if len(chain_of_new) != len(todo):
        F.append("merged-segment-count: %d chains, new segments %r" % (len(todo), new_names))
    if F:
        return F
    internal_joins = set()
    for nm, q in chain_of_new.items():
        seqs, lens, cuts = [], [], []
        for i, (s, e) in enumerate(q):
            seg = d0.segs[s]
            sq = seg["seq"]
            seqs.append(None if sq is None else (sq if e == "R" else rc(sq)))
            lens.append(seg["len"])
            if i:
                j = frozenset(((q[i - 1][0], q[i - 1][1]), (s, G.OTHER_END[e])))
                internal_joins.add(j)
                cuts.append(_edge_cut(joins[j]))
        m = d1.segs[nm]
        cuts_known = all(c is not None for c in cuts)
        if any(x is None for x in seqs):
            if m["seq"] is not None:
                F.append("merged-sequence-not-placeholder: chain %r has a member without sequence, merged sequence is %r" % (q, m["seq"]))
        elif cuts_known:
            want = seqs[0] + "".join(x[c:] for x, c in zip(seqs[1:], cuts))
            if m["seq"] is None:
                F.append("merged-sequence-wrong: chain %r cuts %r: the merged sequence is `*` although every member "
                         "has a sequence (%r); expected %r" % (q, cuts, m["line"], want))
            elif m["seq"] != want:
                F.append("merged-sequence-wrong: chain %r cuts %r: got %r expected %r" % (q, cuts, m["seq"], want))
        if m["seq"] is not None and m["len"] is not None and m["len"] != len(m["seq"]):
            F.append("merged-length-disagrees-with-sequence: %r" % m["line"])
        if cuts_known and all(x is not None for x in lens):
            want_len = sum(lens) - sum(cuts)
            if m["len"] != want_len:
                F.append("merged-length-wrong: chain %r lengths %r cuts %r: got %r expected %d" % (q, lens, cuts, m["len"], want_len))

    bad_pos = [e["line"] for e in d1.edges if not e["valid"]]
    if bad_pos:
        # one root, one signature: the E lines re-attached to the merged segment keep the coordinates they had on
        # the member (checked first because every later text-level comparison would only echo it)
        F.append("merged-edge-positions-invalid: %r (merged %r)" % (bad_pos, [d1.segs[n]["line"] for n in chain_of_new]))
        return F

    # outward dovetails: images of every dovetail that is not an internal join
    def key(ends, ovl):
        return (tuple(sorted(ends)), G.ovl_norm(ovl))
    want = G.multiset(key([endmap.get(x, x) for x in e["ends"]], e["ovl"])
                      for e in d0.dovetails if frozenset(e["ends"]) not in internal_joins)
    have = G.multiset(key(e["ends"], e["ovl"]) for e in d1d.dovetails)
    if want != have:
        miss = [k for k in want if want[k] > have.get(k, 0)]
        extra = [k for k in have if have[k] > want.get(k, 0)]
        F.append("outward-dovetails-wrong: chains %r: missing %r, unexpected %r" % (sorted(chain_of_new.items()), miss, extra))
    # GFA2: the same, with the length of the interval on each side (an outward dovetail is a prefix of the merged
    # segment at its L end and a suffix at its R end, as long as the interval it covered on the chain member)
    if case["version"] == "gfa2":
        want = G.multiset(_ikey([endmap.get(x, x) for x in e["ends"]], e) for e in d0.dovetails
                          if e["rt"] == "E" and frozenset(e["ends"]) not in internal_joins)
        have = G.multiset(_ikey(e["ends"], e) for e in d1d.dovetails if e["rt"] == "E")
        if want != have:
            miss = [k for k in want if want[k] > have.get(k, 0)]
            extra = [k for k in have if have[k] > want.get(k, 0)]
            F.append("outward-dovetail-intervals-wrong: chains %r: ((end, interval length) x 2, alignment) missing %r, "
                     "unexpected %r; lines now on the merged segments: %r"
                     % (sorted(chain_of_new.items()), miss, extra,
                        [e["line"] for e in d1d.dovetails if any(x[0] in chain_of_new for x in e["ends"])]))
    # frame
    T = G.touching(d0, members)
    untouched = G.multiset(r_["line"] for r_ in d0.recs if r_["idx"] not in T)
    after = G.multiset(d1.lines)
    for l, n in untouched.items():
        if after.get(l, 0) < n:
            F.append("untouched-line-changed: %r is not in the result" % l)
    before_all = G.multiset(d0.lines)
    for r_ in d1d.recs:
        l = r_["line"]
        if l in untouched or (r_["rt"] == "S" and r_["name"] in chain_of_new):
            continue
        if "edge" in r_ and r_["edge"]["kind"] == "L" and any(x[0] in chain_of_new for x in r_["edge"]["ends"]):
            continue
        if l in before_all:
            continue
        F.append("unexpected-line: %r" % l)
    if not G.closed(d1):
        F.append("text-not-closed: a line of the result mentions a missing line")
    # components
    want_cc = set(frozenset(merged_of.get(s, s) for s in c) for c in G.components(d0))
    r = lib.outcome(lambda: set(frozenset(str(s.name) for s in c) for c in g.connected_components()))
    if r[0] != "ok":
        F.append("components-raises: %s %s" % (r[0], r[1]))
    elif r[1] != want_cc:
        F.append("components-not-preserved: expected %r got %r" % (sorted(map(sorted, want_cc)), sorted(map(sorted, r[1]))))
    F.extend(G.closure_failures(g))
    if F:
        return F
    # idempotence
    r = lib.outcome(lambda: [G.lib_path(p) for p in g.linear_paths()])
    if r[0] != "ok" or r[1] != []:
        F.append("not-idempotent-paths: linear_paths() after the merge: %r" % (r[1],))
    r = lib.outcome(g.merge_linear_paths)
    if r[0] != "ok":
        F.append("second-merge-raises: %s %s" % (r[0], r[1]))
    elif str(g) != text1:
        F.append("not-idempotent-text: a second merge changed the text")
    return F
