"""C20 — tag values set through the API are written and read back unchanged (oracle + generators).

For a value v, a tag name, a way of assigning (set / attribute), a declared datatype or none, a record
and a validation level, an independent predicate `representable(dt, v)` (DESIGN §6 C20, S) decides which
half of the property applies:

 representable   set succeeds; get_datatype is the declared datatype, or the documented default for a new tag
                 (int->i, float->f, str->Z, dict/list->J, non-empty homogeneous int or float list->B,
                 NumericArray->B, ByteArray->H); validate() passes; field_to_s(tag, tag=True) is
                 `name:dt:text` with text in the datatype's grammar (recogniser of _misc.py); str(line) carries
                 exactly that tag; gfapy.Line(str(line)).get(tag) == v with the same datatype; an integer
                 array is written with the smallest subtype that holds all elements.
 unrepresentable the value is refused by set (gfapy.Error) or reported by validate() (gfapy.Error) at every
                 level, and at level >= 2 field_to_s raises gfapy.Error and str(line) either raises or marks
                 the line `# INVALID`; a malformed tag text is never returned.

NOT CHECKED
  * values of a Python type foreign to the declared datatype (an int for a Z tag, a list for an f tag, a plain
    list of integers for an H tag ...): only the natural pairs of NATURAL are probed.  (On the pinned tree
    `set_datatype("xx","Z"); xx = 5; validate()` dies with a builtin TypeError from re.match -- seen, not judged);
  * an integer given for an f tag when it is not exactly a float (10**30);
  * the spelling chosen for a string given as the written form of a non-string datatype ("12" for an f tag);
  * levels 0/1: what writing an unrepresentable value produces (the property only speaks of level >= 2);
  * the empty string as a Z value, and the empty list as a *new* tag (J `[]` or B?); plain `bytes` for H;
  * NaN/Infinity inside JSON, non-string dict keys, tuples/sets (not JSON lists);
  * sign of zero after the round trip (-0.0 == 0.0 is accepted as "equal");
  * the text of an i/f tag beyond grammar + equal value (e.g. `1e+308` vs `1E308`);
  * predefined tags other than RC/UR/SH on a GFA1 segment; header tags holding several values (FieldArray);
  * `None` (documented as "delete the tag").
`True`/`False` are integers for Python but `xx:i:True` is not an integer tag: bool values are probed and
reported under their own signature suffix `[bool]` so that they can be triaged apart.
"""
import math, json
from harness import lib
from harness.props import _misc as M

ID = "C20"
RULE = ("exhaustive: ~170 values (integers at and +-1 around every B subtype boundary, huge integers, +-0.0, subnormals, "
        "1e308, inf, nan, strings with space/tab/newline/DEL/non-ASCII, one-character strings, nested JSON to depth 6 with "
        "every scalar kind, integer/float/mixed/empty/out-of-range arrays as list and NumericArray, empty/odd/lower-case "
        "hex and ByteArrays) x (no declared datatype + each of the 7 declared) x (set / attribute) x 3 records x levels "
        "0-3; random: random integers, floats from random bit patterns, strings over mixed alphabets, JSON, arrays around "
        "the boundaries. Non-trivial: the value is representable in the datatype (round-trip half) or not (reporting "
        "half) - every case is one or the other, or is skipped as debatable (trivial).")

B = {"c": (-2 ** 7, 2 ** 7 - 1), "C": (0, 2 ** 8 - 1), "s": (-2 ** 15, 2 ** 15 - 1), "S": (0, 2 ** 16 - 1),
     "i": (-2 ** 31, 2 ** 31 - 1), "I": (0, 2 ** 32 - 1)}
BOUNDS = [-129, -128, -127, 126, 127, 128, 254, 255, 256, -2 ** 15 - 1, -2 ** 15, -2 ** 15 + 1, 2 ** 15 - 1, 2 ** 15, 2 ** 15 + 1,
          2 ** 16 - 1, 2 ** 16, 2 ** 16 + 1, -2 ** 31 - 1, -2 ** 31, -2 ** 31 + 1, 2 ** 31 - 1, 2 ** 31, 2 ** 31 + 1, 2 ** 32 - 1, 2 ** 32,
          2 ** 32 + 1, 0, 1, -1]

CTX = [("gfa1", "S\tA\t*"), ("gfa2", "E\t*\tA+\tB-\t0\t1\t0\t1\t*"), ("gfa1", "H")]
TAGNAMES = ["xx", "a1", "Zz", "XY"]
DECLS = [None, "i", "f", "Z", "A", "J", "B", "H"]


def _values():
    V = []
    add = lambda t, v: V.append({"t": t, "v": v})
    for n in BOUNDS + [10 ** 30, -10 ** 30, 2 ** 63, 2 ** 64]:
        add("int", str(n))
    for f in ["0.0", "-0.0", "1.5", "-2.25", "5e-324", "2.2250738585072014e-308", "1e308", "1.7976931348623157e308", "1e16", "1e-7",
              "123456789.125", "inf", "-inf", "nan", "0.1", "3.0"]:
        add("float", f)
    for s in ["a", "abc", "a b", " ", "~", "!", "x:y:z", "a\tb", "a\n", "\n", "a\nb", "a\x7fb", "\x7f", "é", "aé", " ", "\x00", "ab\r",
              "12", "1.5", "[1]", "00FF", "c,1", "*"]:
        add("str", s)
    add("bool", True); add("bool", False)
    js = [{"a": 1}, [1, "a"], {"k": None, "t": True, "f": False, "i": -5, "x": 2.5, "s": "q r", "l": [], "d": {}},
          [[[[[[1]]]]]], {"a": {"b": {"c": {"d": {"e": {"f": "deep"}}}}}}, ["é", "a\tb", "a\nb", "\""], {"é": 1}, [1, 2.5], [1, "1"],
          [None], ["a", "b"], {}, [{"a": [1, {"b": [2.5, None, True, "x"]}]}], [10 ** 30], [1e308, 5e-324], [[]], [{}]]
    for j in js:
        add("json", j)
    for a in [[0], [255], [256], [-1], [-128, 127], [-129], [-128, 128], [0, 65535], [65536], [-32768, 32767], [-32769], [32768, -1],
              [2 ** 32 - 1], [2 ** 32], [-2 ** 31, 2 ** 31 - 1], [-2 ** 31 - 1], [-1, 2 ** 31], [2 ** 31], [1, 2, 3], [10 ** 30], [0, 0, 0]]:
        add("ilist", [str(x) for x in a])
        add("inarr", [str(x) for x in a])
    for a in [["1.5"], ["1.0", "-2.5e3"], ["5e-324", "1e308"], ["inf"], ["nan"], ["1.5", "inf"], ["0.0", "-0.0"]]:
        add("flist", a)
        add("fnarr", a)
    add("mixnarr", ["1", "2.5"])
    add("mixnarr", ["1", "x"])
    add("emptylist", [])
    add("emptynarr", [])
    add("boollist", [True, False])
    for h in ["00", "FF", "00FF10", "0A", "", "A", "ABC", "ab", "0g", "0x10", " 00"]:
        add("hexstr", h)
    for h in ["00", "ff", "00ff10", "", "7f80"]:
        add("bytearr", h)
    for a in [[0], [255, 0, 16], [256], [-1], []]:
        add("bytelist", a)
    return V


VALUES = _values()


def n_exhaustive(tier):
    return len(VALUES) * len(DECLS) * 2


def exhaustive_case(i, tier):
    vi, r = divmod(i, len(DECLS) * 2)
    di, how = divmod(r, 2)
    return {"value": VALUES[vi], "decl": DECLS[di], "how": ["set", "attr"][how], "tag": TAGNAMES[(vi + di) % len(TAGNAMES)],
            "when": ["before", "after"][(vi + how) % 2]}


def budget(tier):
    return 2500 if tier == "quick" else 100000


def rnd_json(rng, depth):
    k = rng.random()
    if depth <= 0 or k < 0.35:
        return rng.pick([None, True, False, 0, -7, 2 ** 40, 1.5, -0.25, 1e300, "", "s", "a b", "é\t", {}, []])
    if k < 0.7:
        return [rnd_json(rng, depth - 1) for _ in range(rng.pick([0, 1, 2, 3]))]
    return {rng.pick(["a", "b", "k k", "é", ""]): rnd_json(rng, depth - 1) for _ in range(rng.pick([1, 2, 3]))}


def gen_case(rng, tier, i):
    import struct
    k = rng.random()
    if k < 0.15:
        e = rng.pick([0, 7, 8, 15, 16, 31, 32, 33, 63, 64, 200])
        n = rng.pick([1, -1]) * (2 ** e + rng.pick([-2, -1, 0, 1, 2]))
        val = {"t": "int", "v": str(n)}
    elif k < 0.3:
        bits = rng.getrandbits(64)
        f = struct.unpack("<d", struct.pack("<Q", bits))[0]
        val = {"t": "float", "v": repr(f)}
    elif k < 0.45:
        alpha = rng.pick(["abc XYZ09~!", "a \t\n", "aé\x7f", "".join(chr(c) for c in range(32, 127))])
        val = {"t": "str", "v": "".join(rng.pick(alpha) for _ in range(rng.pick([1, 2, 3, 8, 40])))}
    elif k < 0.6:
        j = rnd_json(rng, rng.pick([1, 2, 4, 6]))
        if not isinstance(j, (list, dict)):
            j = [j]
        val = {"t": "json", "v": j}
    elif k < 0.85:
        n = rng.pick([1, 2, 3, 6])
        a = [rng.pick(BOUNDS) + rng.pick([0, 0, 1, -1]) for _ in range(n)]
        val = {"t": rng.pick(["ilist", "inarr"]), "v": [str(x) for x in a]}
    elif k < 0.93:
        a = [repr(struct.unpack("<d", struct.pack("<Q", rng.getrandbits(64)))[0]) for _ in range(rng.pick([1, 2, 4]))]
        val = {"t": rng.pick(["flist", "fnarr"]), "v": a}
    else:
        n = rng.pick([0, 1, 2, 5])
        val = {"t": "bytearr", "v": "".join("%02x" % rng.randrange(256) for _ in range(n))}
    return {"value": val, "decl": rng.pick(DECLS + [None, None]), "how": rng.pick(["set", "attr"]), "tag": rng.pick(TAGNAMES),
            "when": rng.pick(["before", "after"])}


# ---------------------------------------------------------------------------------------------------- values
def pyfloat(s):
    return float(s)


def build_value(spec):
    """-> python value (may raise gfapy.Error for values the value classes themselves refuse)"""
    gfapy = lib.import_gfapy()
    t, v = spec["t"], spec["v"]
    if t == "int":
        return int(v)
    if t == "float":
        return pyfloat(v)
    if t in ("str", "hexstr"):
        return v
    if t == "bool":
        return bool(v)
    if t == "json":
        return json.loads(json.dumps(v))
    if t == "ilist":
        return [int(x) for x in v]
    if t == "inarr":
        return gfapy.NumericArray([int(x) for x in v])
    if t == "flist":
        return [pyfloat(x) for x in v]
    if t == "fnarr":
        return gfapy.NumericArray([pyfloat(x) for x in v])
    if t == "mixnarr":
        out = []
        for x in v:
            try:
                out.append(int(x))
            except ValueError:
                try:
                    out.append(float(x))
                except ValueError:
                    out.append(x)
        return gfapy.NumericArray(out)
    if t == "emptylist":
        return []
    if t == "emptynarr":
        return gfapy.NumericArray([])
    if t == "boollist":
        return [bool(x) for x in v]
    if t == "bytearr":
        return gfapy.ByteArray(bytes.fromhex(v))
    if t == "bytelist":
        return list(v)
    raise AssertionError(t)


def int_subtype(vals):
    lo, hi = min(vals), max(vals)
    for st in ("csi" if lo < 0 else "CSI"):
        if B[st][0] <= lo and hi <= B[st][1]:
            return st
    return None


def json_clean(v):
    """JSON list/dict with string keys, finite floats"""
    if isinstance(v, bool) or v is None or isinstance(v, (int, str)):
        return True
    if isinstance(v, float):
        return math.isfinite(v)
    if isinstance(v, list):
        return all(json_clean(x) for x in v)
    if isinstance(v, dict):
        return all(isinstance(k, str) and json_clean(x) for k, x in v.items())
    return False


def default_datatype(spec, v):
    """documented default of a NEW tag; None = debatable (skip)"""
    t = spec["t"]
    if t == "int":
        return "i"
    if t == "float":
        return "f"
    if t in ("str", "hexstr"):
        return "Z"
    if t == "bool":
        return "i"          # what Python's isinstance says; the bool cases have their own signature
    if t in ("ilist", "flist"):
        return "B"
    if t in ("inarr", "fnarr", "mixnarr", "emptynarr"):
        return "B"
    if t == "bytearr":
        return "H"
    if t == "json":
        if isinstance(v, dict):
            return "J"
        if len(v) == 0:
            return None
        if all(isinstance(x, int) and not isinstance(x, bool) for x in v) or all(isinstance(x, float) for x in v):
            return "B"
        if any(isinstance(x, bool) for x in v) and all(isinstance(x, int) for x in v):
            return None      # list of booleans: B for isinstance, J for a reader of the documentation
        return "J"
    if t in ("emptylist", "boollist", "bytelist"):
        return None if t != "bytelist" or not v else "B"
    return None


NATURAL = {
    "i": {"int", "bool", "str", "hexstr"}, "f": {"float", "int", "str", "hexstr"}, "Z": {"str", "hexstr"}, "A": {"str", "hexstr"},
    "J": {"json", "str", "emptylist"},
    "B": {"ilist", "inarr", "flist", "fnarr", "mixnarr", "emptylist", "emptynarr", "boollist", "str", "json"},
    "H": {"bytearr", "hexstr", "str"},
}


def representable(dt, spec, v):
    """True / False / None(debatable)"""
    t = spec["t"]
    if t not in NATURAL[dt]:
        return None
    if t == "bool" or t == "boollist":
        return False if dt in ("i", "f", "B") else (None if dt == "J" and t == "boollist" else False)
    if isinstance(v, str):
        if dt == "Z":
            return None if v == "" else bool(M.RE_Z.match(v))
        if dt == "A":
            return bool(M.RE_A.match(v))
        r = M.tag_value(dt, v)
        return r
    if dt == "i":
        return isinstance(v, int)
    if dt == "f":
        if isinstance(v, int):
            try:
                return True if float(v) == v else None
            except OverflowError:
                return None
        return isinstance(v, float) and math.isfinite(v)
    if dt in ("Z", "A"):
        return False
    gfapy = lib.import_gfapy()
    if dt == "J":
        if isinstance(v, gfapy.ByteArray):
            return False
        if isinstance(v, (list, dict)):
            if isinstance(v, gfapy.NumericArray):
                return None
            return True if json_clean(v) else None
        return False
    if dt == "B":
        if isinstance(v, gfapy.ByteArray) or not isinstance(v, list):
            return False
        if len(v) == 0:
            return False
        if all(isinstance(x, int) and not isinstance(x, bool) for x in v):
            return int_subtype(v) is not None
        if all(isinstance(x, float) for x in v):
            return all(math.isfinite(x) for x in v)
        return False
    if dt == "H":
        if isinstance(v, gfapy.ByteArray):
            return len(v) > 0
        if isinstance(v, list) and not isinstance(v, gfapy.NumericArray):
            if len(v) == 0:
                return False
            return all(isinstance(x, int) and not isinstance(x, bool) and 0 <= x <= 255 for x in v)
        if isinstance(v, gfapy.NumericArray):
            return None
        return False
    return None


def equal_back(dt, v, back):
    """value read from the re-parsed line equals the assigned one"""
    gfapy = lib.import_gfapy()
    if isinstance(v, str) and dt not in ("Z", "A"):
        return None           # a string given for a non-string datatype is its written form: compared as text
    if dt == "H":
        return bytes(back) == bytes(v if not isinstance(v, list) else bytes(v))
    if dt == "B":
        return list(back) == list(v) and all(type(a) is type(b) or (isinstance(a, (int, float)) and a == b) for a, b in zip(back, v))
    try:
        return bool(back == v)
    except Exception:
        return False


def kind(spec):
    return spec["t"]


# ---------------------------------------------------------------------------------------------------- oracle
def one(F, case, ver, base, vlevel):
    gfapy = lib.import_gfapy()
    spec = case["value"]
    tag, decl, how, when = case["tag"], case["decl"], case["how"], case["when"]
    where = "%s vlevel=%d tag=%s decl=%s %s value=%s" % (base.split("\t")[0], vlevel, tag, decl, how, short(spec))
    sfx = "[bool]" if spec["t"] in ("bool", "boollist") else ""

    def fail(sig, msg):
        F.append("%s%s[%s]: %s: %s" % (sig, sfx, lab, where, msg))

    lab = "%s.%s" % (decl or "default", spec["t"])
    try:
        v = build_value(spec)
    except gfapy.Error:
        return                      # refused by the value class itself: rejected, nothing is written
    dt = decl if decl else default_datatype(spec, v)
    if dt is None:
        return
    lab = "%s.%s" % (dt, {"ilist": "ints", "inarr": "ints", "flist": "floats", "fnarr": "floats", "emptylist": "empty",
                           "emptynarr": "empty", "hexstr": "str"}.get(spec["t"], spec["t"]))
    rep = representable(dt, spec, v)
    if rep is None:
        return
    if decl and when == "after":
        # the value is first stored under the default datatype of its class and re-declared afterwards:
        # only judged when it is representable under that default too (e.g. [10**30] is no B array)
        d0 = default_datatype(spec, v)
        if d0 is None or representable(d0, spec, v) is not True:
            return
    line = gfapy.Line(base, vlevel=vlevel, version=ver)
    refused = False
    try:
        if decl and when == "before":
            line.set_datatype(tag, decl)
        if how == "set":
            line.set(tag, v)
        else:
            setattr(line, tag, v)
        if decl and when == "after":
            line.set_datatype(tag, decl)
    except gfapy.Error as e:
        refused = e.__class__.__name__
    except Exception as e:
        fail("foreign-exception", "assignment raised %s@%s" % (e.__class__.__name__, M.innermost_gfapy_frame(e)))
        return
    if rep:
        if refused:
            fail("representable-refused", "assignment raised %s" % refused)
            return
        try:
            got_dt = line.get_datatype(tag)
        except Exception as e:
            fail("foreign-exception" if not isinstance(e, gfapy.Error) else "representable-refused", "get_datatype raised %s" % e.__class__.__name__)
            return
        if got_dt != dt:
            fail("wrong-datatype", "get_datatype gives %r, expected %r" % (got_dt, dt))
            return
        try:
            line.validate()
        except gfapy.Error as e:
            fail("representable-fails-validate", "validate() raised %s" % e.__class__.__name__)
        except Exception as e:
            fail("foreign-exception", "validate() raised %s@%s" % (e.__class__.__name__, M.innermost_gfapy_frame(e)))
        try:
            text = line.field_to_s(tag, tag=True)
            whole = str(line)
        except gfapy.Error as e:
            fail("representable-refused", "writing raised %s" % e.__class__.__name__)
            return
        except Exception as e:
            fail("foreign-exception", "writing raised %s@%s" % (e.__class__.__name__, M.innermost_gfapy_frame(e)))
            return
        pre = "%s:%s:" % (tag, dt)
        if not text.startswith(pre) or M.tag_value(dt, text[len(pre):]) is not True:
            fail("malformed-text-written", "field_to_s gives %r" % text)
            return
        if text not in whole.split("\t"):
            fail("str-differs-from-field_to_s", "str(line) is %r, field_to_s %r" % (whole, text))
            return
        if dt == "B" and not isinstance(v, str) and all(isinstance(x, int) for x in v):
            want = int_subtype(list(v))
            if text[len(pre)] != want:
                fail("subtype-not-smallest", "written %r, smallest subtype is %r" % (text, want))
        try:
            back = gfapy.Line(whole, vlevel=1, version=ver)
            bv = back.get(tag)
            bdt = back.get_datatype(tag)
        except gfapy.Error as e:
            fail("written-line-does-not-parse", "%r: %s" % (whole, e.__class__.__name__))
            return
        except Exception as e:
            fail("foreign-exception", "re-parsing %r raised %s@%s" % (whole, e.__class__.__name__, M.innermost_gfapy_frame(e)))
            return
        if bdt != dt:
            fail("datatype-changed-on-reparse", "%r reads back as %r" % (text, bdt))
        eq = equal_back(dt, v, bv)
        if eq is False:
            fail("value-changed", "wrote %r, read back %r" % (text, bv))
        # the value read from the line itself (no re-parse) must be the same too
        try:
            own = line.get(tag)
            if equal_back(dt, v, own) is False:
                fail("value-changed", "line.get gives %r after assigning %s" % (own, short(spec)))
        except gfapy.Error as e:
            fail("representable-refused", "get raised %s" % e.__class__.__name__)
        except Exception as e:
            fail("foreign-exception", "get raised %s@%s" % (e.__class__.__name__, M.innermost_gfapy_frame(e)))
        return
    # ---------------- unrepresentable
    if refused:
        return
    reported = False
    try:
        line.validate()
    except gfapy.Error:
        reported = True
    except Exception as e:
        fail("foreign-exception", "validate() raised %s@%s" % (e.__class__.__name__, M.innermost_gfapy_frame(e)))
        reported = True
    if not reported:
        fail("unrepresentable-not-reported-by-validate", "validate() passes")
    if vlevel >= 2:
        pre = "%s:" % tag
        try:
            text = line.field_to_s(tag, tag=True)
            p = M.split_tag(text)
            if p is None or p[1] not in "AifZJHB" or M.tag_value(p[1], p[2]) is not True or (decl and p[1] != decl):
                fail("malformed-text-written", "field_to_s returns %r" % text)
            else:
                fail("unrepresentable-written", "field_to_s returns %r without an error" % text)
        except gfapy.Error:
            pass
        except Exception as e:
            fail("foreign-exception", "field_to_s raised %s@%s" % (e.__class__.__name__, M.innermost_gfapy_frame(e)))
        try:
            whole = str(line)
            if "# INVALID" not in whole:
                tg = [f for f in whole.split("\t")[1:] if f.startswith(pre)]
                fail("malformed-text-written", "str(line) returns %r" % (tg or whole))
        except gfapy.Error:
            pass
        except Exception as e:
            fail("foreign-exception", "str(line) raised %s@%s" % (e.__class__.__name__, M.innermost_gfapy_frame(e)))


def short(spec):
    r = "%s:%r" % (spec["t"], spec["v"])
    return r if len(r) < 120 else r[:117] + "..."


def oracle(case):
    F = []
    for ver, base in CTX:
        for vlevel in (0, 1, 2, 3):
            one(F, case, ver, base, vlevel)
    seen = set(); out = []
    for f in F:
        s = signature(case, f)
        if s not in seen:
            seen.add(s); out.append(f)
    return out


def classify(case):
    """'rep' | 'unrep' | 'skip' without touching a line"""
    gfapy = lib.import_gfapy()
    try:
        v = build_value(case["value"])
    except gfapy.Error:
        return "skip"
    dt = case["decl"] or default_datatype(case["value"], v)
    if dt is None:
        return "skip"
    r = representable(dt, case["value"], v)
    return "skip" if r is None else ("rep" if r else "unrep")


def nontrivial(case):
    return classify(case) != "skip"


def tags(case):
    return [classify(case), "decl=%s" % case["decl"], "t=" + case["value"]["t"], case["how"]]


def signature(case, failure):
    return failure.split(": ")[0]
