"""C01 — parse -> write round trip preserves every record, field and tag.

Generator: valid documents of props/_docgen.py.  Every 4th case (case number = 3 mod 4) draws the record types of
its custom records from D.CUSTOM_RT_WIDE instead of X/Y/Q1/zz and gives custom records four shares instead of one
among the kinds of GFA2 body lines: record types of several characters, among them ones made of the predefined
record-type codes (SEG, GU, UO, FS, H#, EGUO, HS, LC, CP, ...), ones extending a code (S1, SEGMENT, Hx, P2),
lower-case twins (s, e, seg) and ones without a letter (1, @, !~) -- every one a legal custom record type, each of
which must reappear like any other record (tags() reports them as custom-rt:of-codes / custom-rt:long).
Every 8th case (case number = 5 mod 8) carries one or two comment lines that contain a character which *other*
conventions read as a line boundary but GFA does not -- vertical tab, form feed, the separators 0x1C-0x1E, and (a third
of these cases) NEL U+0085 / LINE SEPARATOR U+2028 / PARAGRAPH SEPARATOR U+2029: everything `str.splitlines()` splits
at apart from CR and LF -- in the middle of the comment (with a tail that reads as a comment, a custom record, an S
line, or as no record at all), at its end, directly after the `#`.  The lines of a GFA document end at the newline
only; a comment holds any other character (the comment field refuses the newline alone), so such a line is ONE
record through every entry point and must be written back character by character (tags(): comment:line-boundary-char,
comment:non-ascii).  Documents with a non-ASCII comment go through the string and list entry points only (str, str_nl,
list take the places of file_lf / file_crlf in the rotation): what a file holds for such a character depends on the
locale's encoding, which is not this property's business.  A bare CR inside a line is not generated (a text file read
with universal newlines ends a line there).
Every 8th case (case number = 1 mod 8) is a document of the usual kind, one to three lines of which (any record type,
H lines and custom records included; a header tag may be given on two H lines) carry one more tag whose NUMBER lies at
an edge of what number formats hold, spelled as the grammar allows (tags(): number:extreme, and number:f>float32,
number:f-edge, number:i-wide, number:B-f-wide, number:J-wide for what the case has):
  f   beyond the single-precision range (3.5e38, -1e39, 3.4028235e+38, 7.25e+40, 1e300, the largest double, an integer
      of 39 digits, ...): GFA's f is the float of the regular expression, gfapy reads it as a Python float, and
      nothing in the specification bounds it by 3.4028234663852886e+38;
      at the edges of single and double precision (the largest single-precision value itself, 1.1754943508222875e-38,
      1e-39, 1e-46, 5e-324, 1e-320, 16777217.0, 1.0000000000000002, 0.1, 2**53+1, 1e-400 which is 0.0 for everybody);
  i   beyond 32 and 64 bits (2**31, 2**32, 2**63, 2**64, +-10**30);
  B   float arrays with such elements;       J   JSON values with such numbers.
Each of them must come back as the same number, in a line that is not flagged, and the written text must parse again.
One in eight of these cases (number:f-overflow) instead takes f values / B:f elements that match the grammar but
exceed the DOUBLE range (1e400, -1e999, 1.8e308, a 1 with 309 zeros).  Here the demand is weaker, because what a valid
document is can be argued about: gfapy may refuse the document (gfapy.Error, at any level; level 0 reads its fields
late, so there the refusal may come when the value is first looked at or written) -- but what it writes for it must be
as above.  Failures of these cases carry the signature prefix `f-overflow/`: the pinned tree accepted
`S\t1\t*\txx:f:1e400` at levels 0-2 and wrote `S\t1\t*\tinf\t# INVALID; errors found in fields: xx`,
which does not parse again (fixed in /repo bbed702: the value is refused with a ValueError where it is read).
The other cases are the ones generated before.

Oracle (real library only).  A valid document T (props/_docgen.py) is parsed through every entry point
  str      Gfa("\\n".join(lines))            str_nl   the same text with the final newline a file has
  list     Gfa(lines)                        file_lf / file_crlf   Gfa.from_file of a temp file (LF / CRLF)
at every validation level 0..3, with the version given explicitly and left to be detected (the string entry
point for all 8 settings, each other entry point for 2 of them, rotating with the case; "rot": "all" in a case runs
the full product).  The written text
str(g) is re-tokenised by an independent tokeniser (_docgen.tokenise) and compared with the re-tokenised input
as multisets of records: same record type, same positional fields, same set of (tag, datatype, value) with values
compared semantically (i by value, f by float(), J by json.loads, B by element kind+values, H/Z/A verbatim,
CIGARs by operation list, integers/positions by value).  Documented normalisations are built into the comparison:
one key per header tag (the header is written one tag per line; an H line without tags carries nothing), an L line
is identified with its complement and a link present in both forms counts once, order of lines is ignored.
No output line may carry the "# INVALID" marker or the virtual-line commentary.  Fixed point:
str(Gfa(str(Gfa(T)))) == str(Gfa(T)) exactly.  to_file writes str(g).  Single lines: str(gfapy.Line(s)) == s
up to the same semantic comparison.

NOT CHECKED (deliberately; the property does not clearly demand it or the grammar is ambiguous there):
  * the relative order of the written lines ("records grouped by type" is a documented normalisation) and the
    order of tags inside a line (the statement speaks of the *set* of tags);
  * that an H line without any tag reappears (the header is documented as merged and split per tag);
  * links given in both complement forms with *different* tags (which tags survive is first-arrival-wins);
  * several O/U lines sharing one identifier (merged by the library; not among C01's listed normalisations, so
    not generated here; C03 covers them);
  * GFA2 sequences that look like a tag ("S 1 6 AC:G:T": the version sniffing of S lines counts trailing
    tag-like fields), custom records whose positional fields look like tags, custom record types P/C/L;
  * H tags of odd length, J scalars, the spelling chosen on output (only its value); lazy spelling at level 0
    (canonical vs input spelling) is C18's open finding and invisible to the semantic comparison used here;
  * header tags repeated over H lines with *different* datatypes; empty documents; empty lines inside a document.
"""
import os
import tempfile
from harness import lib
from harness.props import _docgen as D

ID = "C01"
RULE = ("grammar-directed valid GFA1/GFA2 documents (all record types incl. custom records, in a quarter of the cases "
        "with record types of several characters incl. ones made of predefined codes like SEG/GU/H#/LC, in an eighth of the "
        "cases with comments that contain VT, FF, 0x1C-0x1E, U+0085, U+2028 or U+2029 -- line boundaries for str.splitlines(), "
        "ordinary characters for GFA --, in an eighth of the cases with 1-3 additional tags whose numbers lie at the edges of "
        "the number formats (f beyond the single-precision range such as 3.5e38 / -1e39 / 1e300 / the largest double, f at the "
        "edges of single and double precision, i beyond 32 and 64 bits, B:f arrays and J values with such numbers; one in "
        "eight of those with f values beyond the double range, 1e400, which may be refused but not written as an invalid line: "
        "signature prefix f-overflow/), all 7 tag datatypes in "
        "canonical and non-canonical spellings, placeholders, self-links, hairpins, parallel edges, both complement "
        "forms, containments, nested groups, shuffled order), <=12 lines (quick) / <=40 (thorough), each through 5 entry "
        "points x 4 validation levels x explicit/automatic version, plus every line alone through gfapy.Line. "
        "Non-trivial: >=3 lines and at least one tag; distinct by case hash.")
CASE_TIMEOUT = 60
ENTRIES = ["str", "str_nl", "list", "file_lf", "file_crlf"]
STR_FOR_FILE = {"file_lf": "list", "file_crlf": "str_nl"}    # for documents with non-ASCII characters


def budget(tier):
    return 1200 if tier == "quick" else 15000


# characters at which str.splitlines() (and nothing in GFA) ends a line; CR and LF aside
BOUNDARY_ASCII = ["\x0b", "\x0c", "\x1c", "\x1d", "\x1e"]
BOUNDARY_WIDE = ["\x85", "\u2028", "\u2029"]
# comment texts; %s is the character.  The tails after it read as a comment, a custom record (GFA2) / an unknown
# record type (GFA1), a segment line, a header line, a line that is no record at all, or are empty
BOUNDARY_COMMENTS = ["# page 1%spage 2", "# see the next page%sZ\tnotes\tkept by the exporter", "# a%s# b", "#%s", "# end%s",
                     "#%stail", "# s%sS\tzz9\t*", "# h%sH\txq:i:1", "#\ttab%s\ttab", "# two%s%swords", "# not a record%sa b c",
                     "# x%sX\tcustom\tab:Z:t", "## %s ##"]


def boundary_comment(rng, wide):
    t = rng.choice(BOUNDARY_COMMENTS)
    pool = BOUNDARY_WIDE if wide and rng.random() < 0.8 else BOUNDARY_ASCII
    return t % tuple(rng.choice(pool) for _ in range(t.count("%s")))


def has_boundary_char(line):
    return any(c in line for c in BOUNDARY_ASCII + BOUNDARY_WIDE)


# numbers at the edges of the number formats, in spellings of the GFA grammar (see the module docstring)
FLT_MAX32 = 3.4028234663852886e+38
F_BEYOND32 = ["3.5e38", "-1e39", "1e300", "3.4028235e+38", "-3.4028236e38", "7.25e+40", "4e38", "1e39", "-4E+38", "+3.5e38",
              "1.7976931348623157e308", "-1.7976931348623157E+308", "340282350000000000000000000000000000000",
              "12345678901234567890123456789012345678901234567890.5", "-1e300", "2.5e+200", "350000000000000000000000000000000000000.0"]
F_EDGE = ["3.4028234663852886e+38", "-3.4028234663852886e+38", "3.4e38", "1.1754943508222875e-38", "1e-39", "-1e-46", "5e-324",
          "2.2250738585072014e-308", "1e-320", "16777217.0", "1.0000000000000002", "0.1", "9007199254740993",
          "123456789012345678901234567890", "-0.000000000000000000000000000000000000000000001", "1e-400", "4.9e-324",
          "0.30000000000000004", "1e22", "1e23", "-1.7976931348623157e-308"]
I_WIDE = ["2147483647", "2147483648", "-2147483649", "4294967296", "9223372036854775807", "9223372036854775808",
          "-9223372036854775809", "18446744073709551616", "+18446744073709551615", "1000000000000000000000000000000",
          "-1000000000000000000000000000000"]
B_F_WIDE = ["f,3.5e38,1e300", "f,-1e39", "f,1.7976931348623157e308,5e-324", "f,3.4028235e+38,1", "f,16777217.0,0.1", "f,1e-46,-4e38",
            "f,1.0000000000000002", "f,1e-400,7.25e+40"]
J_WIDE = ['[1e300, 3.5e38]', '{"big": 18446744073709551616, "tiny": 5e-324}', '[-1e39, 1.0000000000000002]',
          '[123456789012345678901234567890]', '[1.7976931348623157e308]', '{"a": [16777217.0, 0.1, -4e38]}']
F_OVERFLOW = ["1e400", "-1e999", "1.8e308", "-1.8E+308", "1.7976931348623159e308", "1" + "0" * 309, "+1e309"]
B_F_OVERFLOW = ["f,1e400", "f,1.5,-1e999", "f,1.8e308,2"]
# names of the added tags, by datatype (none of them in D.TAGNAMES; a header tag repeated over H lines keeps its datatype)
EXTREME_NAMES = {"f": ["fx", "fy", "fz"], "i": ["ix", "iy"], "B": ["bx", "by"], "J": ["jx", "jy"]}


def gen_case(rng, tier, i):
    if i % 8 == 5:
        return gen_boundary_case(rng, tier, i)
    if i % 8 == 1:
        return gen_extreme_case(rng, tier, i)
    ml = rng.choice([4, 6, 8, 12, 12]) if tier == "quick" else rng.choice([8, 12, 20, 30, 40])
    # every 4th case draws the record types of its custom records from the wide pool (several characters, made
    # of / extending predefined codes, ...) and has more custom records; decided by the case number, so that the
    # other cases are the ones generated before this was added
    wide = i % 4 == 3
    if wide:
        d = D.gen_doc(rng, max_lines=ml, same_id_groups=False, custom_rt=D.CUSTOM_RT_WIDE, custom_weight=3)
    else:
        d = D.gen_doc(rng, max_lines=ml, same_id_groups=False)
    return {"version": d["version"], "lines": d["lines"], "features": d["features"], "rot": rng.randrange(4)}


def gen_boundary_case(rng, tier, i):
    """a document of the usual kind, one or two of whose comment lines contain a character of BOUNDARY_ASCII /
    BOUNDARY_WIDE (ASCII characters only in two cases of three: those documents go through the file entry points too)"""
    ml = rng.choice([4, 6, 8, 12, 12]) if tier == "quick" else rng.choice([8, 12, 20, 30, 40])
    k = rng.choice([1, 1, 2])
    d = D.gen_doc(rng, max_lines=max(3, ml - k), same_id_groups=False)
    wide = rng.random() < 1 / 3.0
    lines = list(d["lines"])
    for _ in range(k):
        c = boundary_comment(rng, wide)
        old = [j for j, l in enumerate(lines) if l.startswith("#") and not has_boundary_char(l)]
        if old and rng.random() < 0.5:
            lines[rng.choice(old)] = c          # takes the place of an ordinary comment
        else:
            lines.insert(rng.randint(0, len(lines)), c)
    feats = sorted(set(d["features"] + ["comment:line-boundary-char"] +
                       (["comment:non-ascii"] if any(ord(ch) > 127 for l in lines for ch in l) else [])))
    return {"version": d["version"], "lines": lines, "features": feats, "rot": rng.randrange(4)}


def _extreme_tag(rng, overflow):
    """(datatype, value, feature)"""
    if overflow:
        if rng.random() < 0.75:
            return "f", rng.choice(F_OVERFLOW), "number:f-overflow"
        return "B", rng.choice(B_F_OVERFLOW), "number:f-overflow"
    k = rng.random()
    if k < 0.45:
        return "f", rng.choice(F_BEYOND32), "number:f>float32"
    if k < 0.65:
        return "f", rng.choice(F_EDGE), "number:f-edge"
    if k < 0.78:
        return "i", rng.choice(I_WIDE), "number:i-wide"
    if k < 0.9:
        return "B", rng.choice(B_F_WIDE), "number:B-f-wide"
    return "J", rng.choice(J_WIDE), "number:J-wide"


def gen_extreme_case(rng, tier, i):
    """a document of the usual kind; one to three of its lines get one more tag with a number at an edge of the number
    formats (one case in eight: beyond the double range)"""
    ml = rng.choice([4, 6, 8, 12, 12]) if tier == "quick" else rng.choice([8, 12, 20, 30, 40])
    d = D.gen_doc(rng, max_lines=ml, same_id_groups=False)
    lines = list(d["lines"])
    version = d["version"]
    overflow = rng.random() < 1 / 8.0
    # a link given in both complement forms keeps identical tags on both lines: such lines are left alone
    canon = {}
    for j, l in enumerate(lines):
        if l.split("\t")[0] == "L" and version == "gfa1":
            canon.setdefault(D.record_keys(l, version)[0][1], []).append(j)
    twice = set(j for js in canon.values() if len(js) > 1 for j in js)
    cand = [j for j, l in enumerate(lines) if not l.startswith("#") and j not in twice]
    if not cand:
        lines.append("H")
        cand = [len(lines) - 1]
    feats = ["number:extreme"]
    for _ in range(rng.choice([1, 1, 2, 3])):
        j = rng.choice(cand)
        t, v, feat = _extreme_tag(rng, overflow)
        have = set(m.group(1) for m in (D.TAG_RE.match(f) for f in lines[j].split("\t")[1:]) if m)
        names = [n for n in EXTREME_NAMES[t] if n not in have]
        if not names:
            continue
        lines[j] += "\t%s:%s:%s" % (rng.choice(names), t, v)
        feats.append(feat)
    return {"version": version, "lines": lines, "features": sorted(set(d["features"] + feats)), "rot": rng.randrange(4)}


def is_overflow_case(case):
    return "number:f-overflow" in case.get("features", [])


def nontrivial(case):
    return len(case["lines"]) >= 3 and any(D.TAG_RE.match(f) for l in case["lines"] if not l.startswith("#")
                                           for f in l.split("\t")[1:])


def tags(case):
    n = len(case["lines"])
    t = [case["version"], "n<=4" if n <= 4 else ("n<=8" if n <= 8 else ("n<=12" if n <= 12 else "n>12"))]
    t += case.get("features", [])
    for l in case["lines"]:
        rt = l.split("\t")[0]
        t.append("rt:" + (rt if rt in "HSLCPEFGOU" and len(rt) == 1 else ("#" if rt.startswith("#") else "custom")))
        if not rt.startswith("#") and len(rt) > 1:
            t.append("custom-rt:of-codes" if all(c in "HSLCPEFGOU#" for c in rt) else "custom-rt:long")
        for f in l.split("\t")[1:]:
            m = D.TAG_RE.match(f) if not l.startswith("#") else None
            if m:
                t.append("dt:" + m.group(2))
    return sorted(set(t))


def signature(case, failure):
    return failure.split(":")[0]


MARKERS = ["# INVALID; errors found", "co:Z:GFAPY_virtual_line", "?record_type?", "co:Z:line_created_by_gfapy"]


def _build(gfapy, entry, lines, vlevel, ver):
    if entry == "str":
        return gfapy.Gfa("\n".join(lines), vlevel=vlevel, version=ver)
    if entry == "str_nl":
        return gfapy.Gfa("\n".join(lines) + "\n", vlevel=vlevel, version=ver)
    if entry == "list":
        return gfapy.Gfa(list(lines), vlevel=vlevel, version=ver)
    eol = "\n" if entry == "file_lf" else "\r\n"
    fd, path = tempfile.mkstemp(prefix="c01_", suffix=".gfa", dir="/tmp")
    try:
        with os.fdopen(fd, "w", newline="") as f:
            f.write("".join(l + eol for l in lines))
        return gfapy.Gfa.from_file(path, vlevel=vlevel, version=ver)
    finally:
        try:
            os.unlink(path)
        except OSError:
            pass


def _first(e):
    return (str(e).split("\n")[0] or e.__class__.__name__)[:120]


def _slug(e):
    """stable discriminator for foreign exceptions (their messages carry no data)"""
    import re
    return re.sub(r"[^A-Za-z]+", "-", str(e).split("\n")[0])[:48].strip("-")


def compare_text(out_lines, cin, version, prefix=""):
    """failures from comparing written lines with the key multiset of the input"""
    F = []
    for l in out_lines:
        for m in MARKERS:
            if m in l:
                F.append("%s%s: %r" % (prefix, "invalid-marker" if "INVALID" in m else "virtual-marker", l))
    if F:
        return F
    try:
        cout = D.doc_keys(out_lines, version)
    except D.Unparsable as e:
        return ["%soutput-unparsable: %s" % (prefix, e)]
    for sig, detail in D.describe_diff(cin, cout):
        F.append("%s%s: %s" % (prefix, sig, detail))
    return F


def oracle(case):
    gfapy = lib.import_gfapy()
    lines, version = case["lines"], case["version"]
    seen = {}

    def add(f, cfg):
        sig = f.split(":")[0]
        if sig not in seen:
            seen[sig] = "%s  [%s]" % (f, cfg)

    try:
        cin = D.doc_keys(lines, version)
    except D.Unparsable as e:  # generator bug, never a library failure
        return ["GENERATOR-BUG: %s" % e]
    # a non-ASCII character (only comments have them) is in a file whatever the locale's encoding makes of it: such
    # documents go through the string and list entry points only
    ascii_only = all(ord(ch) < 128 for l in lines for ch in l)
    # an f value beyond the double range: the document may be refused (gfapy.Error), see the module docstring
    overflow = is_overflow_case(case)
    combo = 0
    for ver in (version, None):
        for vlevel in (1, 0, 2, 3):
            outs = {}
            str_failed = False
            # the string entry point always; the other four rotate over the 8 (version, level) settings, so that
            # every case sees each of them twice (case["rot"] shifts the assignment; "all" runs the full product)
            if case.get("rot") == "all":
                entries = ENTRIES
            else:
                entries = ["str", ENTRIES[1 + (combo + case.get("rot", 0)) % 4]]
            if not ascii_only:
                entries = [e for e in (STR_FOR_FILE.get(e, e) for e in entries)]
                entries = [e for j, e in enumerate(entries) if e not in entries[:j]]
            combo += 1
            for entry in entries:
                cfg = "entry=%s vlevel=%d version=%s" % (entry, vlevel, ver)
                try:
                    g = _build(gfapy, entry, lines, vlevel, ver)
                except Exception as e:  # noqa
                    if overflow and isinstance(e, gfapy.Error):
                        continue
                    if entry == "str":
                        str_failed = True
                    if entry == "str_nl" and str_failed:
                        continue  # same failure as without the final newline
                    sfx = "-trailing-newline" if entry == "str_nl" else ""
                    if isinstance(e, gfapy.Error):
                        add("rejected%s[%s]: %s" % (sfx, e.__class__.__name__, _first(e)), cfg)
                    else:
                        add("rejected%s[%s/%s]: foreign exception %s" % (sfx, e.__class__.__name__, _slug(e), _first(e)),
                            cfg)
                    continue
                try:
                    out = str(g)
                except Exception as e:  # noqa
                    if overflow and isinstance(e, gfapy.Error):
                        continue       # refused when the value is first looked at (level 0 reads its fields late)
                    add("write-raises[%s]: %s" % (e.__class__.__name__, _first(e)), cfg)
                    continue
                outs[entry] = out
                out_lines = out.split("\n") if out != "" else []
                for f in compare_text(out_lines, cin, version):
                    add(f, cfg)
                if entry in ("str", "file_crlf"):
                    # fixed point of writing
                    try:
                        out2 = str(gfapy.Gfa(out, vlevel=vlevel, version=ver)) if out != "" else ""
                        if out2 != out:
                            a, b = out.split("\n"), out2.split("\n")
                            d = [(x, y) for x, y in zip(a, b) if x != y][:1] or [(len(a), len(b))]
                            reorder = len(a) == len(b) and all(sorted(x.split("\t")) == sorted(y.split("\t"))
                                                               for x, y in zip(a, b))
                            add("not-fixed-point%s: second write differs, first difference %r" % (
                                "-tag-order" if reorder else "", d[0]), cfg)
                    except Exception as e:  # noqa
                        add("reparse-raises[%s]: %s" % (e.__class__.__name__, _first(e)), cfg)
                if entry == "list" and vlevel == 1:
                    fd, path = tempfile.mkstemp(prefix="c01_", suffix=".out", dir="/tmp")
                    os.close(fd)
                    try:
                        g.to_file(path)
                        with open(path, newline="") as f:
                            content = f.read()
                        want = "".join(l + "\n" for l in out_lines)
                        if content != want:
                            add("to-file-differs: file %r vs str %r" % (content[:80], want[:80]), cfg)
                    except Exception as e:  # noqa
                        add("to-file-raises[%s]: %s" % (e.__class__.__name__, _first(e)), cfg)
                    finally:
                        try:
                            os.unlink(path)
                        except OSError:
                            pass
            if len(set(outs.values())) > 1:
                ks = sorted(outs)
                a = [k for k in ks if outs[k] != outs[ks[0]]][0]
                try:
                    same = D.doc_keys(outs[a].split("\n"), version) == D.doc_keys(outs[ks[0]].split("\n"), version)
                except D.Unparsable:
                    same = False
                if not same:
                    add("entry-points-differ: %s vs %s" % (ks[0], a), "vlevel=%d version=%s" % (vlevel, ver))
    # single lines
    for s in lines:
        try:
            kin = D.doc_keys([s], version, merge_links=False)
        except D.Unparsable as e:
            return ["GENERATOR-BUG: %s" % e]
        for ver in (version, None):
            for vlevel in (0, 1, 2, 3):
                cfg = "Line(%r, vlevel=%d, version=%s)" % (s, vlevel, ver)
                try:
                    ln = gfapy.Line(s, vlevel=vlevel, version=ver)
                    out = str(ln)
                except Exception as e:  # noqa
                    if overflow and isinstance(e, gfapy.Error):
                        continue
                    add("line-rejected[%s]: %s" % (e.__class__.__name__, _first(e)), cfg)
                    continue
                for f in compare_text([out], kin, version, prefix="line-"):
                    add(f, cfg)
    if overflow:
        return ["f-overflow/" + f for f in seen.values()]
    return list(seen.values())


def shrink(case, failure):
    sig = failure.split(":")[0]
    cur = dict(case)

    def still(c):
        try:
            return any(f.split(":")[0] == sig for f in oracle(c))
        except Exception:  # noqa
            return False

    changed = True
    while changed:
        changed = False
        for i in range(len(cur["lines"]) - 1, -1, -1):
            cand = cur["lines"][:i] + cur["lines"][i + 1:]
            if not cand or not D.refs_closed(cand, cur["version"]):
                continue
            c = dict(cur, lines=cand)
            if still(c):
                cur = c
                changed = True
        for i, l in enumerate(cur["lines"]):
            if l.startswith("#"):
                continue
            f = l.split("\t")
            k = D.split_tags(f)
            for j in range(len(f) - 1, k - 1, -1):
                cand = list(cur["lines"])
                g = cand[i].split("\t")
                if j >= len(g):
                    continue
                del g[j]
                cand[i] = "\t".join(g)
                c = dict(cur, lines=cand)
                if D.refs_closed(cand, cur["version"]) and still(c):
                    cur = c
                    changed = True
    return cur
