"""C02 — the reference graph stays closed and symmetric under every mutation history.

Oracle on the real library only: after every step of a random history (add_line in any order incl. forward
references, rm by name / by instance, disconnect, rename, tag edits) the object graph is walked through
public attributes:

  * ownership      every non-header line of g.lines has .gfa is g and is_connected()
  * listed once    no line object occurs twice in g.lines (a line registered under two keys is found under
                   something that is not its current identifier)
  * closure        every value of a reference field (from_segment, to_segment, sid1, sid2, sid, items,
                   segment_names, path.links) is a Line that is one of g.lines (by identity), reports g as
                   owner, and - when it carries an identifier (S/P/E/G/O/U: the name; L/C: the ID tag, when it
                   holds a string) - is what g.line(identifier) returns;
                   the same for every element of every back-reference collection;
                   a line that reaches *another* line carrying its own identifier (a group or path that was accepted
                   although it lists itself: the placeholder made for the item carries the name of the group) is
                   reported under the same clause: a lookup can return only one of the two
  * symmetry       for every pair (X, T): number of references from X to T == number of occurrences of X
                   in T's back-reference collections (all collections of T together)
  * no zombies     follows from closure (a disconnected line has .gfa None and is not in g.lines)
  * reparse        when g holds no virtual line, gfapy.Gfa(str(g)) does not raise

Generated besides the plain add/rm/rename histories (all through _hist.py profile options):
  * identifier drops ("dropid"): the ID tag of a connected L/C line is removed in each of its three spellings
    (line.delete("ID"), line.set("ID", None), line.set("name", None) = `line.name = None`), the name of an
    E/G/O/U line is set to '*' (also through ordinary renames, rename_star); the history goes on afterwards, so
    the now anonymous line is later removed directly or by the cascade of one of its segments
  * twins ("copy"/"rm_copy"): a second line with exactly the text of a stored line without identifier (E/G/O/U
    '*', F, C without ID), and removal by instance of one of several lines with the same text (the back-reference
    collections must lose that very object, not an equal one)
  * one history in six (gen_case index i % 6 == 5; the other five are generated exactly as before) also draws from:
    - late links with a borrowed identifier ("dup-link-over-placeholder"): a GFA1 link arrives for a step of a stored
      path that so far only a placeholder link covers (a path over an uncovered step is added first when there is
      none) and its ID tag is the identifier of another line (a segment, a path, a containment, another link); the
      link replaces the placeholder, so this is an addition that takes another road to the registry than the addition
      of an ordinary duplicate.  Refused or not, afterwards every line must still be listed and found under its
      identifier
    - identifiers given to connected L/C lines ("giveid": line.set("ID", n), fresh or in use)
  * one history in six (gen_case index i % 6 == 2: the base history is generated exactly as before, then one or two calls
    are inserted at random positions, _hist_extra.inject_listed_identifiers) also holds
    - lines that list their own, fresh, identifier ("fail:self-mention:<RT>"): GFA1 "P x A+,x+,B- *", GFA2 "O x A+ x+",
      "U x A x", "E x A+ x- ...", "G x x+ A- ..." (x first, in the middle or last).  The placeholder created for the
      reference would carry the identifier of the line itself; refused or not, the graph must stay closed with every
      line found under its identifier
    - (GFA1) paths of three or four segment names the third or fourth of which is the identifier of a stored path or
      ID-tagged link / containment ("fail:mention-nonsegment:late"; _hist's own mention-nonsegment paths have two names,
      i.e. no step before the offending one): the path is refused, and none of the links of its earlier steps may keep it
      in `paths`
    - one in four of these calls as a line *object* ("addset" steps, see _hist_extra): gfapy.Line(text) without the
      offending reference, then the reference field (sid1 / sid2 / items / segment_names) assigned in its string form,
      then g.add_line(line); 15% of them with an ordinary value (a legal line, accepted)

Failures found after a step that *raised* are reported under the prefix "after-failed-step-" (the property
speaks of sequences of additions/removals/..., a rejected call is C08's subject) and end the history, so a
failure without that prefix is never the echo of an earlier rejected call.

Signatures (one report per history: the most basic broken clause, see PRIORITY):
    <clause>-after-<op>                 clause in {walk-raises, owner-wrong, listed-twice, reference-not-a-line, reaches-disconnected,
                                        reaches-line-not-in-gfa, not-found-under-identifier, reference-field-raises,
                                        reference-not-mirrored-to-<RT>, backreference-without-reference-to-<RT>,
                                        reparse-fails}; op in {add-<RT>, addset-<RT>, rm, rmline-<RT>, disconnect, rename, settag,
                                        deltag, setfield (only `name` := None)}
    after-failed-step-<clause>-after-<op>   the same, found right after a call that raised
    foreign-exception                   a call raised something that is not a gfapy.Error (graph still closed)
On the pinned tree: reaches-disconnected-after-rm/rmline/disconnect = DESIGN 7 #1; reference-not-mirrored-to-G = #2;
*-after-rename = #3; after-failed-step-walk-raises-after-add-O/U and reaches-line-not-in-gfa-after-add-O/U = #4;
reaches-line-not-in-gfa-after-add-L/C/S = #20 (two lines registered under one ID tag); foreign-exception = #7 #10 #11.

NOT CHECKED (deliberately, the property text does not demand it or is silent):
  * header lines: g.lines lists per-tag copies of the header (g.headers) whose .gfa is None; they are views,
    not stored lines -> excluded from the ownership clause.
  * *which* collection a back-reference is filed under (dovetails_L vs _R ...): that is C11.
  * an L/C line whose ID tag does not hold a string (possible at vlevel 0 only) is checked for membership in
    g.lines only, not for g.line(ID).
  * the order of elements inside collections.
  * a line whose identifier is also the name of a placeholder (virtual line), or the reverse, is not reported
    as "not found under its identifier" (identifier clashes with merely mentioned names are not pinned down) -
    unless one of the two lines refers to the other (then both are lines of the Gfa reached by the walk, and only one
    of them can be what a lookup of the identifier returns).
  * orphan virtual lines (placeholders nobody references any more) are not reported.
  * reparse is skipped while virtual lines exist, at vlevel 0, when the version is still unknown, when the Gfa
    is empty, and when a group was left with no item (its last item was a removed gap: the property does not
    say what becomes of such a set).
  * an O line listing a U line (not allowed by the specification, accepted by add_line): U lines have no
    `paths` collection, the missing mirror is not reported.
"""
from harness import lib
from harness.props import _hist as H
from harness.props import _hist_extra as X

ID = "C02"
RULE = ("exhaustive: every history of length <= 4 (quick) / <= 5 (thorough) over a 7-step alphabet per version (2 segments, 2 links, a path, rm, rename / segment, edge, gap, O, U, rm segment, rm edge); random: histories (4-25 steps quick, up to 60 thorough) over segments A-D, edges e1-e3, gaps g1-g2, groups "
        "p/o/u1-2: every GFA1/GFA2 record type, forward references (25%), self-links, hairpins, parallel links, "
        "several dependants per collection, nested and multi-line groups, rm by name/instance, disconnect, rename, "
        "tag edits, identifiers dropped from connected lines (ID tag of L/C deleted in three spellings, E/G/O/U renamed to "
        "'*'), repeated lines without identifier and removal of one of them by instance, 12% calls meant to fail; "
        "one history in six also with GFA1 links that arrive for a path step covered by a placeholder link only and "
        "carry the identifier of another line, and with identifiers given to connected L/C lines by set('ID', n) "
        "(20% calls meant to fail there); "
        "one history in six with one or two inserted lines that list their own fresh identifier (P / O / U / E / G, the "
        "identifier first, in the middle or last) or (GFA1) paths whose third or fourth segment name is the identifier of "
        "a path / link / containment, one in four of them added as a line object whose reference field was assigned in "
        "string form after construction; "
        "12% of histories start with the version unknown. Non-trivial: at least "
        "one removal/disconnect/rename in a history with at least two additions. Distinct by case hash.")

PROF = H.profile(p_fail=0.12, copy=0.06, rm_copy=0.3, rename_star=0.1, ops={"dropid": 5})
# one history in six: PROF plus late links that wear the identifier of another line, and set("ID", n) on L/C lines
PROF_ID = H.profile(p_fail=0.2, copy=0.06, rm_copy=0.3, rename_star=0.1, ops={"dropid": 5, "giveid": 4},
                    fails={"dup-link-over-placeholder": 14, "giveid-existing": 2})
CASE_TIMEOUT = 60

COLLS = dict(lib.BACKREF_COLLS)
COLLS["\n"] = ["paths", "sets"]
COLLS["G"] = ["sets", "paths"]
NAMED_RT = ("S", "P", "E", "G", "O", "U", "\n", "L", "C")  # L/C: the identifier is the ID tag (placeholder when absent)


def n_exhaustive(tier):
    return H.ex_count(4 if tier == "quick" else 5)


def exhaustive_case(i, tier):
    return H.ex_case(i, 4 if tier == "quick" else 5)


def budget(tier):
    return 2000 if tier == "quick" else 80000


def gen_case(rng, tier, i):
    case = H.gen_case(rng, tier, PROF_ID if i % 6 == 5 else PROF, p_unknown=0.12, vlevels=(1, 1, 1, 1, 1, 1, 0, 2, 3))
    if i % 6 == 2:
        # the base history is what it always was; calls that list their own identifier / name a line of another type in a
        # later path step are inserted into it
        case = X.inject_listed_identifiers(rng, case, p_object=0.25, p_second=0.3, control=0.15)
    return case


def nontrivial(case):
    ops = [s[0] for s in case["hist"]]
    return sum(1 for o in ops if o == "add") >= 2 and any(o in ("rm", "rmline", "disconnect", "rename") for o in ops)


def tags(case):
    return H.case_tags(case)


def signature(case, failure):
    return failure.split(":")[0]


def _rt(x):
    try:
        r = x.record_type
        return "?" if r == "\n" else str(r)
    except Exception:
        return "?"


def _unwrap(gfapy, x):
    return x.line if isinstance(x, gfapy.OrientedLine) else x


def forward_refs(gfapy, l):
    """[(field, value)] reference field values of a line, through public attributes"""
    rt = l.record_type
    out = []
    if rt in ("L", "C"):
        out = [("from_segment", l.from_segment), ("to_segment", l.to_segment)]
    elif rt in ("E", "G"):
        out = [("sid1", _unwrap(gfapy, l.sid1)), ("sid2", _unwrap(gfapy, l.sid2))]
    elif rt == "F":
        out = [("sid", l.sid)]
    elif rt in ("O", "U"):
        out = [("items", _unwrap(gfapy, x)) for x in l.items]
    elif rt == "P":
        out = [("segment_names", _unwrap(gfapy, x)) for x in l.segment_names]
        out += [("links", _unwrap(gfapy, x)) for x in l.links]
    return out


def walk(g):
    """-> list of failure strings (without step information)"""
    gfapy = lib.import_gfapy()
    F = []
    lines = g.lines
    members = {id(l): l for l in lines}
    fwd, back = {}, {}
    keep = []  # keep reached objects alive so id() stays unique

    def check_member(x, how, src):
        """x reached from src; must be a line of g found under its identifier"""
        if not isinstance(x, gfapy.Line):
            F.append("reference-not-a-line: %s.%s of %r holds %r" % (_rt(src), how, str(src), x))
            return False
        keep.append(x)
        ok = True
        if id(x) not in members:
            F.append("reaches-line-not-in-gfa: %s.%s of %r reaches %r" % (_rt(src), how, str(src), str(x)))
            ok = False
        if x.gfa is not g or not x.is_connected():
            F.append("reaches-disconnected: %s.%s of %r reaches %r (connected=%s)" %
                     (_rt(src), how, str(src), str(x), x.is_connected()))
            ok = False
        if ok and x.record_type in NAMED_RT:
            n = x.name
            if isinstance(n, str) and not gfapy.is_placeholder(n):
                y = g.line(n)
                if y is not x and not x.virtual and not (y is not None and y.virtual):
                    F.append("not-found-under-identifier: %r reached from %r but line(%r) is %r" %
                             (str(x), str(src), n, str(g.line(n))))
                elif x is not src and src.record_type in NAMED_RT and src.name == n:
                    # two lines of the Gfa, one referring to the other, carry the same identifier (a line that lists
                    # itself was accepted and the placeholder of the item wears its name): whatever a lookup answers,
                    # one of them is not found under its identifier
                    F.append("not-found-under-identifier: %r and %r, reached from it, both carry the identifier %r; "
                             "line(%r) is %r" % (str(src), str(x), n, n, None if y is None else str(y)))
        return ok

    once = set()
    for l in lines:
        rt = l.record_type
        if rt == "H":
            continue
        if id(l) in once:
            # registered under two keys: at most one of them is its current identifier
            F.append("listed-twice: %s %r is listed more than once by the Gfa" % (_rt(l), str(l)))
            continue
        once.add(id(l))
        if l.gfa is not g or not l.is_connected():
            F.append("owner-wrong: %s %r is listed but gfa is %s" % (_rt(l), str(l), "another" if l.gfa is not None else "None"))
        try:
            refs = forward_refs(gfapy, l)
        except gfapy.Error as e:
            F.append("reference-field-raises: %s %r %s" % (_rt(l), str(l), e.__class__.__name__))
            refs = []
        for how, t in refs:
            if check_member(t, how, l):
                fwd[(id(l), id(t))] = fwd.get((id(l), id(t)), 0) + 1
            elif isinstance(t, gfapy.Line):
                fwd[(id(l), id(t))] = fwd.get((id(l), id(t)), 0) + 1
        for coll in COLLS.get(rt, []):
            try:
                elems = getattr(l, coll)
            except AttributeError:
                continue  # collection does not exist for this record type: symmetry will tell
            for y in elems:
                y = _unwrap(gfapy, y)
                check_member(y, coll, l)
                if isinstance(y, gfapy.Line):
                    back[(id(y), id(l))] = back.get((id(y), id(l)), 0) + 1
    objs = dict(members)
    for x in keep:
        objs.setdefault(id(x), x)
    for key in set(fwd) | set(back):
        a, b = fwd.get(key, 0), back.get(key, 0)
        if a != b:
            x, t = objs.get(key[0]), objs.get(key[1])
            if _rt(x) == "O" and _rt(t) == "U":
                continue
            kind = "reference-not-mirrored" if a > b else "backreference-without-reference"
            F.append("%s-to-%s: %s %r refers %d times to %r which lists it %d times" %
                     (kind, _rt(t), _rt(x), str(x), a, str(t), b))
    return F


def oracle(case):
    gfapy = lib.import_gfapy()
    g = H.new_gfa(case)
    for k, step in enumerate(case["hist"]):
        r = X.apply_step(g, step)
        if r[0] == "skip":
            continue
        failed = r[0] != "ok"
        pre = "after-failed-step-" if failed else ""
        try:
            F = walk(g)
            if not F and not failed and case.get("vlevel", 1) >= 1 and g.version is not None and not H.has_virtual(g) \
                    and not any(l.record_type in ("O", "U") and len(l.items) == 0 for l in g.lines):
                txt = str(g)
                rr = lib.outcome(gfapy.Gfa, txt) if txt else ("ok", None)
                if rr[0] != "ok":
                    F.append("reparse-fails: %s on written text %r" % (rr[1], txt))
        except Exception as e:  # the walk itself only reads public attributes
            F = ["walk-raises: %s %r" % (e.__class__.__name__, str(e)[:200])]
        if F:
            f = _first(F)
            head, _, rest = f.partition(":")
            return ["%s%s-after-%s:%s [step %d %r -> %s]" % (pre, head, X.step_kind(step), rest, k, step,
                                                            r[0] if r[0] == "ok" else r[1])]
        if r[0] == "foreign":
            # state is still closed; the exception itself is C07's subject but is reported as the API asks
            return ["foreign-exception: %s raises %s [step %d %r]" % (X.step_kind(step), r[1], k, step)]
    return []


PRIORITY = ["walk-raises", "owner-wrong", "listed-twice", "reference-not-a-line", "reaches-disconnected", "reaches-line-not-in-gfa",
            "not-found-under-identifier", "reference-field-raises", "reference-not-mirrored",
            "backreference-without-reference", "reparse-fails"]


def _first(F):
    """one failure per history: the most basic broken clause"""
    def rank(f):
        for i, p in enumerate(PRIORITY):
            if f.startswith(p):
                return i
        return len(PRIORITY)
    return sorted(F, key=rank)[0]


def shrink(case, failure):
    return H.shrink_history(case, failure, oracle, signature)
