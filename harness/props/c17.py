"""C17 — GFA2 groups resolve to the paths and sets the specification defines.

Oracle: real library only.  The case is a list of GFA2 lines in ARRIVAL order (segments, edges of every kind,
O and U lines, several lines per group identifier, any order relative to the lines they mention).  Everything
expected is derived from that text by the small resolver below (tab splitting only):
  * same-identifier merge: items of a group = concatenation of the items of its lines in arrival order, tags =
    union; a line whose tag contradicts an earlier line of the group must be refused with a gfapy.Error and must
    not contribute items or tags (DESIGN 7 #24); a repeated tag with the same value is accepted;
  * captured_path of an O group: the alternating walk of oriented segments and oriented edges implied by the
    items.  `e+` joins sid1 -> sid2, `e-` joins inv(sid2) -> inv(sid1) (this is the reading of gfapy's own test
    test_api_references_groups).  A listed segment after a listed edge must be the edge's far end; between two
    listed segments the edge is supplied when exactly one edge joins them in that direction; a listed edge
    supplies its end segments; a nested path contributes its own walk, reversed and inverted under `-`.
    The expected walk is demanded only when two independent readings of nesting agree (inlining the nested
    path's ITEMS and inlining its WALK); captured_segments / captured_edges must be the projections;
  * errors: a gfapy.Error from captured_path is demanded when the items are not contiguous under ANY reading
    (consecutive elements do not even share a segment name / no edge between two listed segments whatever the
    orientation; next to a nested reference: whichever of its two readings is taken on that side, independently
    of the reading taken on its other side), or when two different edges both join two listed segments in the
    required direction.  Edges are counted as LINES of the document, not by what they say: two E lines without
    identifier (`*`) and with exactly the same ends, positions, alignment and tags are two edges of the graph (both
    are kept, counted in gfa.edges and written back), so a step over their adjacency which leaves the edge out has
    two fitting edges and the group must be refused (ambiguous-accepted; the message names the repeated E line);
  * reversing twice is the identity (the library compared with itself, so groups whose expected walk is doubtful
    are covered too): a second document is built in which every reference `q+` / `q-` to a path inside an O group
    is written `q~-` / `q~+`, q~ being a new group `O q~ q-` (named q + "r").  Under every reading of "nested paths inlined and
    reversed when referenced with -" the two documents describe the same paths: each O group must give the same
    walk in both, or an error in both, and each U group the same induced segments
    (double-reversal-changes-outcome / -path / -induced-set);
  * induced sets of a U group: segments mentioned directly, through listed edges (both ends), through paths
    (captured segments) and nested sets; induced edges = every E line both of whose segments are in that set;
    induced_set = both; compared as sets.

  * the answers are those of the graph AS IT IS when they are asked for (cases with "probes", 15%): a second Gfa
    receives the same lines in the same order, and between arrivals (after the lines no. case["probes"]) every group
    which is already there is asked one of captured_path / captured_segments / captured_edges (O) or induced_set /
    induced_segments_set / induced_edges_set (U); what it answers on the incomplete document is not judged (only
    foreign exceptions are reported).  Once all lines have arrived every group must answer all three questions
    exactly as in the Gfa which was asked only at the end (the one judged by the checks above): the same walk and
    projections, the same induced sets, an error where that one raises an error (stale-captured-path,
    stale-captured-path-outcome, stale-induced-set, stale-induced-set-outcome, line-refused-after-question).  A walk
    depends on the graph and on the nested groups, not only on the spelling of the items of the group: the lines
    which arrive after a question are mostly further lines of paths that other paths nest, edges parallel to an
    edge which a path leaves out (the step becomes ambiguous), and segments / edges / whole groups whose absence
    made a path impossible to compute.

Generator: see RULE.  The shapes the walk construction distinguishes are drawn explicitly, not left to chance: the
four combinations of end items of a path (end segment stated / left to its edge), the item that follows or precedes
a nested reference (the junction segment stated again, the edge leaving it, the next segment with the edge left
out), and in 30% of the cases a chain of paths each nesting the previous one (bare `p-`/`p+` references to
references, up to depth 5) so that every combination of signs over two and three levels occurs.  12% of the cases
(20% of those asked between arrivals) contain indistinguishable parallel edges: one edge loses its name and is
repeated once or twice as an E line with the same text (in a fifth of these cases with one differing tag, as a
control); one O group walks over that adjacency with both segments stated (forwards or backwards, continued at
random on both sides), and every random walk / continuation next to a nested reference prefers these edges when it
passes one of their segments; the repeated lines count as edges that repeat an adjacency, so that in the cases asked
between arrivals they mostly arrive after the first question.

NOT CHECKED (doubtful, the property text does not settle it):
  * the direction of the walk of a path that consists of a single reversed edge item (`O o e1-`, DESIGN 7 #25),
    and of every group that nests such a path;
  * item lists that are contiguous by segment names but not in the direction of the edges (`O p B+ A+` with only
    e = A+ -> B+; `O p e+ A+`): gfapy accepts them and walks the edge against its direction; neither the walk it
    returns nor the absence of an error is judged;
  * an edge that fits a step in both readings (e = A+ A-: e+ and e- are the same step);
  * groups whose nested path is itself doubtful; U groups that (transitively) mention a path that is not a
    definite walk; g.validate() (it does not look at contiguity at all);
  * parallel unnamed edges which become identical only through a later edit (a tag deleted): only arrivals change
    the graph here;
  * what a group answers while the document is incomplete (questions between arrivals); removal of lines,
    disconnecting and re-adding a group between two questions (only arrivals change the graph here);
  * order and multiplicity inside the returned induced lists; O/U lines without identifier (`*`), groups that
    mention gaps or fragments, paths that mention sets, cyclic nesting.
"""
from harness import lib
from harness.props import _graphgen as G

ID = "C17"
RULE = ("GFA2 graphs of 2-5 segments and 1-8 edges (dovetails, containments, internals, parallel edges, the same "
        "adjacency written from the other strand, self-edges, a few unnamed edges; in 12% of the cases an unnamed edge "
        "repeated 1-2 times as an E line with identical text, which a path crosses with the edge left out: ambiguous) "
        "with 1-6 O/U groups: O items are "
        "random walks with random elision of segments/edges (half of them with the kind of both end items, segment "
        "or edge, drawn uniformly), read forwards or backwards, 25% perturbed (flipped sign, foreign item, shuffled), "
        "nested through p+/p- with walk extension on either side whose first item is the restated junction segment, "
        "the edge leaving it or the next segment; 30% of the cases are chains (each path nests the previous one with "
        "probability 0.8, nesting depth up to 5); every case with a nested reference is also resolved with all "
        "references reversed twice through alias groups; U "
        "items mix segments, edges, paths and sets; 35% of the groups are split over 2-3 lines (tags: disjoint, "
        "repeated-equal, contradictory); lines arrive in random order in 60% of the cases. 15% of the cases are asked "
        "BETWEEN arrivals (case['probes']): an early part (most segments and edges, the first line of most groups), the "
        "questions, then the late lines (75% of the further lines of groups - paths nested by others are split with "
        "probability 0.8 or get a further line continuing their walk with probability 0.5 -, half of the edges that "
        "repeat an adjacency (35% of the edges there), 12% of the other edges and of the first lines of groups, 5% of "
        "the segments), with further questions at random places; at the end every group must answer as in a Gfa that "
        "was asked only once. Non-trivial: at least one "
        "group whose expectation is definite (walk, error or induced set).")
CASE_TIMEOUT = 60
INV = G.INV
SEGLEN = {"A": 10, "B": 8, "C": 6, "D": 10, "E": 8}


def budget(tier):
    return 2000 if tier == "quick" else 80000


# ================================================================================================ resolver (text)
def inv(x):
    return (x[0], INV[x[1]])


class Ctx(object):
    pass


def read(lines):
    """arrival-ordered text -> context; also simulates the same-identifier merge"""
    c = Ctx()
    c.segs = {}
    c.edges = []
    c.kind = {}
    c.O, c.U = {}, {}
    c.tags = {}
    c.refused = []          # indices of group lines that must be refused
    c.group_lines = {}
    for idx, l in enumerate(lines):
        f = l.split("\t")
        if f[0] == "S":
            c.segs[f[1]] = int(f[2])
            c.kind[f[1]] = ("S", f[1])
        elif f[0] == "E":
            e = {"idx": len(c.edges), "id": None if f[1] == "*" else f[1], "text": l,
                 "s1": (f[2][:-1], f[2][-1]), "s2": (f[3][:-1], f[3][-1])}
            c.edges.append(e)
            if e["id"]:
                c.kind[e["id"]] = ("E", e["idx"])
        elif f[0] in "OU":
            gid = f[1]
            items = [(x[:-1], x[-1]) for x in f[2].split(" ")] if f[0] == "O" else f[2].split(" ")
            tg = {}
            for t in f[3:]:
                n, ty, v = t.split(":", 2)
                tg[n] = (ty, v)
            store = c.O if f[0] == "O" else c.U
            c.kind[gid] = (f[0], gid)
            c.group_lines.setdefault(gid, []).append(idx)
            if gid in store:
                old = c.tags[gid]
                if any(n in old and old[n] != v for n, v in tg.items()):
                    c.refused.append(idx)
                    continue
                store[gid] = store[gid] + items
                old.update(tg)
            else:
                store[gid] = items
                c.tags[gid] = tg
    return c


def ends(e, o):
    return (e["s1"], e["s2"]) if o == "+" else (inv(e["s2"]), inv(e["s1"]))


def candidates(c, s, t):
    """edge readings that join oriented segment s to oriented segment t in that direction"""
    out = []
    for e in c.edges:
        for o in "+-":
            if ends(e, o) == (s, t):
                out.append((e["idx"], o))
    return out


def names_of_tok(c, t):
    if t[0] == "S":
        return {t[1]}
    e = c.edges[t[1]]
    return {e["s1"][0], e["s2"][0]}


def weakly_contiguous(c, toks):
    for a, b in zip(toks, toks[1:]):
        if a[0] == "S" and b[0] == "S":
            if not any({e["s1"][0], e["s2"][0]} == {a[1], b[1]} for e in c.edges):
                return False
        elif not (names_of_tok(c, a) & names_of_tok(c, b)):
            return False
    return True


def resolve_tokens(c, toks):
    """toks: [('S', name, o) | ('E', idx, o)] all listed.  -> ('walk', W) | ('ambig',) | ('nc',) | ('doubt', why)"""
    if not weakly_contiguous(c, toks):
        return ("nc",)
    path = []
    supplied = False
    ambig = False
    for t in toks:
        if t[0] == "S":
            s = (t[1], t[2])
            if not path:
                path = [("S",) + s]
            elif supplied:
                if path[-1][1:] != s:
                    return ("doubt", "segment after edge is not the edge's far end")
            else:
                cand = candidates(c, path[-1][1:], s)
                if len(set(i for i, _ in cand)) != len(cand):
                    return ("doubt", "an edge fits in both readings")
                if not cand:
                    return ("doubt", "no edge in that direction")
                if len(cand) > 1:
                    ambig = True
                path += [("E",) + cand[0], ("S",) + s]
            supplied = False
        else:
            fr, to = ends(c.edges[t[1]], t[2])
            if not path:
                path = [("S",) + fr, t, ("S",) + to]
            elif path[-1][1:] == fr:
                path += [t, ("S",) + to]
            else:
                return ("doubt", "edge does not leave the current segment in its direction")
            supplied = True
    return ("ambig",) if ambig else ("walk", path)


def lenient_walks(c, toks, cap=6):
    """all walks under the direction-blind reading the library implements: e+ joins {sid1, sid2}, e- joins
    {inv sid1, inv sid2}, in either order.  -> list of distinct walks (at most cap)"""
    parts = [([], False)]
    for t in toks:
        new = []
        for path, supplied in parts:
            if t[0] == "S":
                s = (t[1], t[2])
                if not path:
                    new.append(([("S",) + s], False))
                elif supplied:
                    if path[-1][1:] == s:
                        new.append((path, False))
                else:
                    tail = path[-1][1:]
                    for e in c.edges:
                        for o in "+-":
                            x, y = (e["s1"], e["s2"]) if o == "+" else (inv(e["s1"]), inv(e["s2"]))
                            if (x, y) == (tail, s) or (y, x) == (tail, s):
                                new.append((path + [("E", e["idx"], o), ("S",) + s], False))
            else:
                e = c.edges[t[1]]
                x, y = (e["s1"], e["s2"]) if t[2] == "+" else (inv(e["s1"]), inv(e["s2"]))
                if not path:
                    new.append(([("S",) + x, t, ("S",) + y], True))
                    if x != y:
                        new.append(([("S",) + y, t, ("S",) + x], True))
                else:
                    tail = path[-1][1:]
                    if tail == x:
                        new.append((path + [t, ("S",) + y], True))
                    if tail == y and x != y:
                        new.append((path + [t, ("S",) + x], True))
        parts = new[:cap * 4]
        if not parts:
            break
    out = []
    for path, _ in parts:
        if path not in out:
            out.append(path)
    return out[:cap]


def flip(toks):
    return [(t[0], t[1], INV[t[2]]) for t in reversed(toks)]


def resolve_group(c, gid, memo, stack=()):
    """-> (status, walk): status in walk | ambig | nc | doubt"""
    if gid in memo:
        return memo[gid]
    if gid in stack or len(stack) > 8:
        return ("doubt", None)
    items = c.O[gid]
    it_toks, wk_toks = [], []
    ends_of = []         # per item: (tokens it may begin with, tokens it may end with) under the two readings
    status = None
    for ref, o in items:
        k = c.kind.get(ref)
        if k is None or k[0] == "U":
            status = ("doubt", None)
            break
        if k[0] == "S":
            t = [("S", ref, o)]
            it_toks += t; wk_toks += t
            ends_of.append((t, t))
        elif k[0] == "E":
            t = [("E", k[1], o)]
            it_toks += t; wk_toks += t
            ends_of.append((t, t))
        else:
            sub = resolve_group(c, ref, memo, stack + (gid,))
            if sub[0] in ("nc", "ambig"):
                status = ("nc", None)      # the nested path cannot be computed: neither can this one
                break
            if sub[0] != "walk":
                status = ("doubt", None)
                break
            sub_items = items_tokens(c, ref, stack + (gid,))
            if sub_items is None:
                status = ("doubt", None)
                break
            si = sub_items if o == "+" else flip(sub_items)
            sw = sub[1] if o == "+" else flip(sub[1])
            it_toks += si
            wk_toks += sw
            ends_of.append(([si[0], sw[0]], [si[-1], sw[-1]]))
    if status is None:
        if len(items) == 1 and c.kind.get(items[0][0], ("?",))[0] == "E" and items[0][1] == "-":
            status = ("doubt", None)      # DESIGN 7 #25 (also excluded by the direction-blind reading below)
        else:
            a, b = resolve_tokens(c, it_toks), resolve_tokens(c, wk_toks)
            if a[0] == "walk" and b[0] == "walk" and a[1] == b[1]:
                if lenient_walks(c, it_toks) == [a[1]] and lenient_walks(c, wk_toks) == [a[1]]:
                    status = ("walk", a[1])
                else:
                    status = ("doubt", None)
            elif a[0] == b[0] == "ambig":
                status = ("ambig", None)
            elif a[0] == b[0] == "nc":
                # the library may read the two ends of one nested reference differently (its walk on one side, a
                # restated segment after its last edge item on the other): an error is demanded only when two
                # adjacent items do not touch whichever way each of them is read
                broken = any(all(not weakly_contiguous(c, [x, y]) for x in p[1] for y in q[0])
                             for p, q in zip(ends_of, ends_of[1:]))
                status = ("nc", None) if broken else ("doubt", None)
            else:
                status = ("doubt", None)
    memo[gid] = status
    return status


def items_tokens(c, gid, stack=()):
    if gid in stack or len(stack) > 8:
        return None
    out = []
    for ref, o in c.O[gid]:
        k = c.kind.get(ref)
        if k is None or k[0] == "U":
            return None
        if k[0] == "S":
            out.append(("S", ref, o))
        elif k[0] == "E":
            out.append(("E", k[1], o))
        else:
            sub = items_tokens(c, ref, stack + (gid,))
            if sub is None:
                return None
            out += sub if o == "+" else flip(sub)
    return out


def induced(c, uid, memo_o, stack=()):
    """-> set of segment names, or None when not definite"""
    if uid in stack or len(stack) > 8:
        return None
    segs = set()
    for ref in c.U[uid]:
        k = c.kind.get(ref)
        if k is None:
            return None
        if k[0] == "S":
            segs.add(ref)
        elif k[0] == "E":
            e = c.edges[k[1]]
            segs |= {e["s1"][0], e["s2"][0]}
        elif k[0] == "O":
            r = resolve_group(c, ref, memo_o)
            if r[0] != "walk":
                return None
            segs |= set(t[1] for t in r[1] if t[0] == "S")
        else:
            sub = induced(c, ref, memo_o, stack + (uid,))
            if sub is None:
                return None
            segs |= sub
    return segs


# ================================================================================================ generator
def edge_text(eid, a, o1, b, o2, kind, rng):
    la, lb = SEGLEN[a], SEGLEN[b]

    def p(x, n):
        return "%d$" % x if x == n else str(x)
    if kind == "dove":
        k = 2
        iva = (la - k, la) if o1 == "+" else (0, k)
        ivb = (0, k) if o2 == "+" else (lb - k, lb)
        aln = rng.choice(["2M", "*"])
    elif kind == "cont":
        if la > lb:
            iva, ivb = (1, 1 + lb), (0, lb)
        elif lb > la:
            iva, ivb = (0, la), (1, 1 + la)
        else:
            iva, ivb = (0, la), (0, lb)
        aln = "*"
    else:
        iva, ivb = (3, 5), (2, 4)
        aln = "*"
    return "E\t%s\t%s%s\t%s%s\t%s\t%s\t%s\t%s\t%s" % (eid, a, o1, b, o2, p(iva[0], la), p(iva[1], la), p(ivb[0], lb),
                                                    p(ivb[1], lb), aln)


def out_steps(c, s):
    out = []
    for e in c.edges:
        for o in "+-":
            fr, to = ends(e, o)
            if fr == s:
                out.append((e["idx"], o, to))
    return out


def random_walk(rng, c, start, nmax, prefer=()):
    """prefer: indices of edges which are taken with probability 0.6 whenever one of them leaves the current segment"""
    w = [("S",) + start]
    cur = start
    for _ in range(nmax):
        st = out_steps(c, cur)
        if not st:
            break
        pf = [x for x in st if x[0] in prefer]
        i, o, to = rng.choice(pf) if pf and rng.random() < 0.6 else rng.choice(st)
        w += [("E", i, o), ("S",) + to]
        cur = to
    return w


def elide(rng, c, walk, keep_first=None, keep_last=None, first="?", last="?"):
    """walk tokens -> item strings with random elision (unnamed edges cannot be listed).
    first / last = 'S': the end segment is listed; 'E': the end segment is left to its edge, which is listed (when
    it has a name); '?': left to chance"""
    n = len(walk)
    keep, drop = set(), set()
    if keep_first or first == "S":
        keep.add(0)
    if keep_last or last == "S":
        keep.add(n - 1)
    if first == "E" and n >= 3 and c.edges[walk[1][1]]["id"]:
        drop.add(0); keep.add(1)
    if last == "E" and n >= 3 and c.edges[walk[n - 2][1]]["id"]:
        drop.add(n - 1); keep.add(n - 2)
    items = []
    for j, t in enumerate(walk):
        if t[0] == "E":
            eid = c.edges[t[1]]["id"]
            if eid and (j in keep or rng.random() < 0.5):
                items.append(eid + t[2])
        elif j not in drop and (j in keep or rng.random() < 0.6):
            items.append(t[1] + t[2])
    return items


def gen_case(rng, tier, i):
    # questions between arrivals (see the module docstring): 15% of the cases
    probing = rng.random() < 0.15
    nseg = rng.randint(2, 5)
    segs = list("ABCDE")[:nseg]
    lines_s = ["S\t%s\t%d\t*" % (s, SEGLEN[s]) for s in segs]
    lines_e = []
    ne = rng.randint(1, 8)
    specs = []
    repeated = set()     # indices (in lines_e) of the edges which repeat the adjacency of an earlier edge
    for j in range(ne):
        if specs and rng.random() < (0.35 if probing else 0.2):
            repeated.add(j)
            a, o1, b, o2, kind = rng.choice(specs)
            if rng.random() < 0.5:
                a, o1, b, o2 = b, INV[o2], a, INV[o1]       # the same adjacency written from the other strand
            elif rng.random() < 0.3:
                a, o1, b, o2 = b, o2, a, o1                 # the opposite direction
        else:
            a, b = rng.choice(segs), rng.choice(segs)
            if a == b and rng.random() < 0.85:
                b = rng.choice([x for x in segs if x != a])
            o1, o2 = rng.choice("+-"), rng.choice("+-")
            kind = rng.choice(["dove"] * 6 + ["cont", "int"])
        specs.append((a, o1, b, o2, kind))
        eid = "e%d" % (j + 1) if rng.random() < 0.88 else "*"
        lines_e.append(edge_text(eid, a, o1, b, o2, kind, rng))
    # indistinguishable parallel edges (12% of the cases, 20% of those asked between arrivals): one edge loses its name
    # and is followed by 1-2 further E lines with exactly the same text (`*` identifier, same ends, positions, alignment
    # and tags).  They are different lines of the graph: a step over this adjacency which leaves the edge out has more
    # than one fitting edge.  In 20% of these cases the copy differs in one tag (still two edges).
    twin = set()
    if rng.random() < (0.2 if probing else 0.12):
        j = rng.randrange(len(lines_e))
        f = lines_e[j].split("\t")
        f[1] = "*"
        lines_e[j] = "\t".join(f)
        twin.add(j)
        differ = rng.random() < 0.2
        for _ in range(2 if rng.random() < 0.15 else 1):
            repeated.add(len(lines_e))
            twin.add(len(lines_e))
            lines_e.append(lines_e[j] + ("\txx:i:%d" % len(lines_e) if differ else ""))
    twin_todo = bool(twin)
    c = read(lines_s + lines_e)
    glines = []          # (gid, 'O'|'U', [item strings])
    memo = {}
    onames, unames = [], []
    # tower: the O groups form a chain, each one tends to nest the previous one (references to references, bare or
    # extended), so that deep nesting with every combination of signs is common
    tower = rng.random() < (0.5 if probing else 0.3)
    ng = rng.randint(3, 6) if tower else rng.randint(1, 6)
    for j in range(ng):
        if rng.random() < (0.85 if tower else 0.65):
            gid = "p%d" % (len(onames) + 1)
            definite = [p for p in onames if resolve_group(c, p, memo)[0] == "walk"]
            if definite and rng.random() < (0.8 if tower else 0.45):
                sub = definite[-1] if tower and rng.random() < 0.8 else rng.choice(definite)
                o = rng.choice("+-")
                w = resolve_group(c, sub, memo)[1]
                w = w if o == "+" else flip(w)
                items = [sub + o]
                # continuation on either side of the reference.  The segment at the junction belongs to the nested walk:
                # it may be stated again ('S'), or the continuation starts with its edge ('E') or with the next segment
                if rng.random() < 0.6:
                    ext = random_walk(rng, c, w[-1][1:], rng.randint(0, 2), twin)
                    how = rng.choice("SEN?")
                    if how == "S":
                        items += elide(rng, c, ext, first="S")
                    elif how == "E" and len(ext) >= 3 and c.edges[ext[1][1]]["id"]:
                        items += elide(rng, c, ext, first="E")
                    elif how == "N" and len(ext) >= 3:
                        items += elide(rng, c, ext[2:], first="S")
                    else:
                        items += elide(rng, c, ext[1:])
                if rng.random() < (0.25 if tower else 0.4):
                    back = flip(random_walk(rng, c, inv(w[0][1:]), rng.randint(0, 2), twin))
                    how = rng.choice("SEN?")
                    if how == "S":
                        items = elide(rng, c, back, last="S") + items
                    elif how == "N" and len(back) >= 3:
                        items = elide(rng, c, back[:-2], last="S") + items
                    elif how == "E" and len(back) >= 3 and c.edges[back[-2][1]]["id"]:
                        items = elide(rng, c, back, last="E") + items
                    else:
                        items = elide(rng, c, back[:-1]) + items
                if rng.random() < 0.1:
                    items.append(rng.choice(segs) + rng.choice("+-"))
            else:
                if twin_todo and rng.random() < 0.7:
                    # a walk which crosses the indistinguishable parallel edges, both segments of that step stated (the
                    # edges have no name: the step can only be written with the edge left out), continued at random
                    # on both sides and read forwards or backwards
                    twin_todo = False
                    fr, to = ends(c.edges[min(twin)], rng.choice("+-"))
                    back = flip(random_walk(rng, c, inv(fr), rng.choice([0, 0, 1, 2]), twin))
                    fwd = random_walk(rng, c, to, rng.choice([0, 0, 1, 2]), twin)
                    w = back + [("E", min(twin), "+")] + fwd
                    items = elide(rng, c, back[:-1]) + [fr[0] + fr[1], to[0] + to[1]] + elide(rng, c, fwd[1:])
                    if rng.random() < 0.4:
                        items = [x[:-1] + INV[x[-1]] for x in reversed(items)]
                else:
                    start = (rng.choice(segs), rng.choice("+-"))
                    live = [(s_, o_) for s_ in segs for o_ in "+-" if out_steps(c, (s_, o_))]
                    if live and rng.random() < 0.6:
                        start = rng.choice(live)
                    w = random_walk(rng, c, start, rng.choice([0, 1, 2, 2, 3, 3, 4]), twin)
                    if rng.random() < 0.3:
                        w = flip(w)
                    # the four shapes of the ends (segment stated / segment left to its edge) are equally frequent in
                    # half of the groups, left to the elision in the others
                    if rng.random() < 0.5:
                        items = elide(rng, c, w, first=rng.choice("SE"), last=rng.choice("SE"))
                    else:
                        items = elide(rng, c, w)
                if not items:
                    items = [w[0][1] + w[0][2]]
                r = rng.random()
                if r < 0.1:
                    k = rng.randrange(len(items))
                    items[k] = items[k][:-1] + INV[items[k][-1]]
                elif r < 0.18:
                    pool = segs + [e["id"] for e in c.edges if e["id"]]
                    items[rng.randrange(len(items))] = rng.choice(pool) + rng.choice("+-")
                elif r < 0.25:
                    rng.shuffle(items)
            glines.append([gid, "O", items])
            c.O[gid] = [(x[:-1], x[-1]) for x in items]
            c.kind[gid] = ("O", gid)
            onames.append(gid)
        else:
            gid = "u%d" % (len(unames) + 1)
            pool = segs + [e["id"] for e in c.edges if e["id"]] + onames + unames
            items = rng.sample(pool, rng.randint(1, min(4, len(pool))))
            glines.append([gid, "U", items])
            c.U[gid] = items
            c.kind[gid] = ("U", gid)
            unames.append(gid)
    out_g = []
    first_chunk = set()  # indices (in out_g) of the first line of each group
    nested_somewhere = set(r for _, rt_, its in glines if rt_ == "O" for r in (x[:-1] for x in its) if r in onames)
    for gid, rt, items in glines:
        chunks = [items]
        first_chunk.add(len(out_g))
        grown = []
        if probing and gid in nested_somewhere and rng.random() < 0.5:
            # a path which other paths nest gets a further line which continues its walk (it will mostly arrive after
            # the outer paths have been asked for their walk)
            r = resolve_group(c, gid, memo)
            if r[0] == "walk":
                ext = random_walk(rng, c, r[1][-1][1:], rng.randint(1, 2))
                grown = elide(rng, c, ext[1:]) if rng.random() < 0.7 else elide(rng, c, ext, first="S")
        if grown:
            chunks = [items, grown]
        elif len(items) >= 2 and rng.random() < (0.35 if not probing else 0.8 if gid in nested_somewhere else 0.5):
            k = rng.randint(1, len(items) - 1)
            chunks = [items[:k], items[k:]]
            if len(chunks[1]) >= 2 and rng.random() < 0.3:
                k2 = rng.randint(1, len(chunks[1]) - 1)
                chunks = [chunks[0], chunks[1][:k2], chunks[1][k2:]]
        tagmode = rng.choice(["none", "none", "disjoint", "same", "conflict"]) if len(chunks) > 1 else rng.choice(["none", "one"])
        for j, ch in enumerate(chunks):
            tg = []
            if tagmode in ("disjoint", "one"):
                tg = ["t%s:i:%d" % ("abc"[j], j)]
            elif tagmode == "same":
                tg = ["xx:i:1"] + (["t%s:Z:v" % "abc"[j]] if rng.random() < 0.5 else [])
            elif tagmode == "conflict":
                tg = ["xx:i:%d" % (1 if j == 0 else rng.choice([1, 2]))] + (["t%s:Z:v" % "abc"[j]] if rng.random() < 0.5 else [])
            out_g.append("\t".join([rt, gid, " ".join(ch)] + tg))
    if probing:
        return arrange_probing(rng, lines_s, lines_e, out_g, repeated, first_chunk)
    lines = lines_s + lines_e + out_g
    if rng.random() < 0.6:
        rng.shuffle(lines)
    elif rng.random() < 0.5:
        rng.shuffle(out_g)
        lines = lines_s + lines_e + out_g
    return {"version": "gfa2", "lines": lines, "vlevel": rng.choice([0, 1, 1, 1, 2, 3])}


def arrange_probing(rng, lines_s, lines_e, out_g, repeated, first_chunk):
    """Arrival order for the cases in which the groups are asked for their paths / sets BETWEEN arrivals: an early
    part (most segments and edges, the first line of most groups), a question, then the late lines: mostly the further
    lines of groups which are already there (so a path nested in another one grows after the outer one was asked),
    edges which repeat the adjacency of an earlier edge (so a step which was unique becomes ambiguous), a few other
    edges, segments and whole groups (so a path which could not be computed becomes computable).  Further questions at
    random places.  case["probes"] = indices i: the question is asked after line i has arrived."""
    early, late = [], []
    for j, l in enumerate(lines_s):
        (late if rng.random() < 0.05 else early).append(l)
    for j, l in enumerate(lines_e):
        (late if rng.random() < (0.5 if j in repeated else 0.12) else early).append(l)
    for j, l in enumerate(out_g):
        (late if rng.random() < (0.12 if j in first_chunk else 0.75) else early).append(l)
    if rng.random() < 0.3:
        rng.shuffle(early)
    if rng.random() < 0.35:
        rng.shuffle(late)
    if not early:
        early, late = late[:1], late[1:]
    lines = early + late
    probes = {len(early) - 1}
    if len(late) >= 2 and rng.random() < 0.5:
        probes.add(rng.randrange(len(early), len(lines) - 1))
    if len(early) >= 2 and rng.random() < 0.3:
        probes.add(rng.randrange(len(early) - 1))
    return {"version": "gfa2", "lines": lines, "vlevel": rng.choice([0, 1, 1, 1, 2, 3]), "probes": sorted(probes)}


# ================================================================================================ module API
def _expect(case):
    c = read(case["lines"])
    memo = {}
    exp_o = {gid: resolve_group(c, gid, memo) for gid in c.O}
    exp_u = {uid: induced(c, uid, memo) for uid in c.U}
    return c, exp_o, exp_u


def nontrivial(case):
    c, eo, eu = _expect(case)
    return any(v[0] != "doubt" for v in eo.values()) or any(v is not None for v in eu.values())


def tags(case):
    c, eo, eu = _expect(case)
    t = set()
    for gid, v in eo.items():
        t.add("O-" + v[0])
        if any(c.kind.get(r, ("?",))[0] == "O" for r, _ in c.O[gid]):
            t.add("nested-path")
            t.add("nest-depth%d" % min(nest_depth(c, gid), 4))
            if rev_of_rev(c, gid):
                t.add("reversed-ref-to-reversed-ref")
        if v[0] == "walk":
            t.add("walklen%d" % min(len(v[1]) // 2, 5))
    for uid, v in eu.items():
        t.add("U-definite" if v is not None else "U-skip")
        for r in c.U[uid]:
            t.add("U-item-" + c.kind.get(r, ("?",))[0])
    texts = [e["text"] for e in c.edges if e["id"] is None]
    if len(set(texts)) < len(texts):
        t.add("identical-unnamed-parallel-edges")
        dup = set(e["idx"] for e in c.edges if e["id"] is None and texts.count(e["text"]) > 1)
        for gid, v in eo.items():
            toks = items_tokens(c, gid)
            if v[0] == "ambig" and toks and any(
                    a[0] == b[0] == "S" and dup & set(i for i, _ in candidates(c, a[1:], b[1:])) for a, b in zip(toks, toks[1:])):
                t.add("step-over-identical-unnamed-edges")
    if any(len(v) > 1 for v in c.group_lines.values()):
        t.add("multiline")
    if c.refused:
        t.add("tag-conflict")
    if case.get("probes"):
        t.add("asked-between-arrivals")
        for p0 in case["probes"]:
            there = set(gid for gid, idxs in c.group_lines.items() if idxs[0] <= p0)
            for idx, l in enumerate(case["lines"]):
                if idx <= p0:
                    continue
                f_ = l.split("\t")
                if f_[0] == "O" and f_[1] in there and any(f_[1] in [r for r, _ in c.O[o]] for o in there if o in c.O):
                    t.add("nested-path-grows-after-question")
                if f_[0] == "E":
                    t.add("edge-arrives-after-question")
    f = [l[0] for l in case["lines"]]
    if f != sorted(f, key=lambda x: "SEOU".index(x)):
        t.add("shuffled-arrival")
    return sorted(t)


def nest_depth(c, gid, stack=()):
    if gid in stack or len(stack) > 8:
        return 0
    return 1 + max([nest_depth(c, r, stack + (gid,)) for r, _ in c.O.get(gid, []) if c.kind.get(r, ("?",))[0] == "O"] or [-1]) \
        if gid in c.O else 0


def rev_of_rev(c, gid):
    """a `-` reference to a path whose first or last item is again a `-` reference to a path"""
    for r, o in c.O[gid]:
        if o == "-" and c.kind.get(r, ("?",))[0] == "O" and c.O.get(r):
            for r2, o2 in (c.O[r][0], c.O[r][-1]):
                if o2 == "-" and c.kind.get(r2, ("?",))[0] == "O":
                    return True
    return False


def signature(case, failure):
    return failure.split(":")[0]


def shrink(case, failure):
    if not case.get("probes"):
        return G.shrink_lines(case, failure, oracle, signature)
    # greedy line removal; the questions stay attached to the moment (after the same preceding line)
    sig = signature(case, failure)
    cur = dict(case)
    runs = 0
    progress = True
    while progress and runs < 150:
        progress = False
        for i in range(len(cur["lines"]) - 1, -1, -1):
            if len(cur["lines"]) < 2 or runs >= 150:
                break
            cand = dict(cur, lines=cur["lines"][:i] + cur["lines"][i + 1:],
                        probes=sorted(set(q for q in (p - 1 if p >= i else p for p in cur["probes"]) if q >= 0)))
            runs += 1
            try:
                ok = any(signature(cand, f) == sig for f in (oracle(cand) or []))
            except Exception:  # noqa
                ok = False
            if ok:
                cur = cand
                progress = True
    return cur


def lib_walk(c, p):
    gfapy = lib.import_gfapy()
    out = []
    by_text = {e["text"]: e["idx"] for e in c.edges}
    for x in p:
        ln = x.line
        if ln.record_type == "S":
            out.append(("S", str(ln.name), str(x.orient)))
        elif ln.record_type == "E":
            nm = ln.name
            if gfapy.is_placeholder(nm):
                out.append(("E", by_text.get(str(ln), str(ln)), str(x.orient)))
            else:
                out.append(("E", c.kind.get(str(nm), ("E", str(nm)))[1], str(x.orient)))
        else:
            out.append((ln.record_type, str(ln), str(x.orient)))
    return out


def show(c, w):
    return " ".join((t[1] if t[0] == "S" else (c.edges[t[1]]["id"] or "<%s>" % c.edges[t[1]]["text"].replace("\t", " "))
                     if isinstance(t[1], int) else str(t[1])) + t[2] for t in w)


def oracle(case):
    gfapy = lib.import_gfapy()
    F = []
    c, exp_o, exp_u = _expect(case)
    g = gfapy.Gfa(version="gfa2", vlevel=case.get("vlevel", 1))
    for idx, l in enumerate(case["lines"]):
        r = lib.outcome(g.add_line, l)
        if idx in c.refused:
            if r[0] == "ok":
                F.append("contradictory-tag-accepted: %r joins a group that defines the tag differently" % l)
            elif r[0] == "foreign":
                F.append("foreign-exception: %s adding %r" % (r[1], l))
        elif r[0] != "ok":
            F.append("%s: %s adding %r (arrival order %r)" % ("foreign-exception" if r[0] == "foreign" else "line-refused",
                                                                r[1], l, case["lines"][:idx]))
            return F
    # ------------------------------------------------------------------ same-identifier merge
    for gid in list(c.O) + list(c.U):
        ln = g.line(gid)
        if ln is None or ln.virtual:
            F.append("group-missing: %s" % gid)
            continue
        if gid in c.O:
            got = [(str(x.name), str(x.orient)) for x in ln.items]
            want = list(c.O[gid])
        else:
            got = [str(x.name) if isinstance(x, gfapy.Line) else str(x) for x in ln.items]
            want = list(c.U[gid])
        if got != want:
            sig = "refused-line-merged" if any(i in c.refused for i in c.group_lines[gid]) else "group-items-wrong"
            F.append("%s: %s has items %r, the lines in arrival order give %r" % (sig, gid, got, want))
        gt = {}
        for n in ln.tagnames:
            gt[n] = (ln.get_datatype(n), str(ln.get(n)))
        if gt != c.tags[gid]:
            sig = "refused-line-merged" if any(i in c.refused for i in c.group_lines[gid]) else "group-tags-wrong"
            F.append("%s: %s has tags %r, expected the union %r" % (sig, gid, gt, c.tags[gid]))
    if F:
        return F
    # ------------------------------------------------------------------ captured paths
    for gid, exp in exp_o.items():
        if exp[0] == "doubt":
            continue
        ln = g.line(gid)
        r = lib.outcome(lambda: lib_walk(c, ln.captured_path))
        first_rev = ""
        if any(c.kind.get(r_, ("?",))[0] == "O" and o_ == "-" for r_, o_ in c.O[gid]):
            first_rev = "-nested-reversed"
        if exp[0] == "walk" and any(t[0] == "E" and c.edges[t[1]]["s1"][0] == c.edges[t[1]]["s2"][0] for t in exp[1]):
            first_rev += "-self-edge"
        desc = "O %s %s" % (gid, " ".join(a + b for a, b in c.O[gid]))
        if r[0] == "foreign":
            F.append("foreign-exception: %s from captured_path of %s" % (r[1], desc))
        elif exp[0] == "walk":
            if r[0] == "gerr":
                F.append("captured-path-error-on-valid%s: %s raises %s; the items imply the unique walk %s" % (
                    first_rev, desc, r[1], show(c, exp[1])))
            elif r[1] != exp[1]:
                F.append("captured-path-wrong%s: %s gives %s; the items imply %s" % (first_rev, desc, show(c, r[1]), show(c, exp[1])))
            else:
                r2 = lib.outcome(lambda: (lib_walk(c, ln.captured_segments), lib_walk(c, ln.captured_edges)))
                if r2[0] != "ok" or r2[1] != ([t for t in exp[1] if t[0] == "S"], [t for t in exp[1] if t[0] == "E"]):
                    F.append("captured-projections-wrong: %s: %r" % (desc, r2[1]))
        elif r[0] == "ok":
            note = ""
            if exp[0] == "ambig":
                # the step for which several edges fit, when these are E lines without name and with the same text
                used = set(t[1] for t in r[1] if t[0] == "E" and isinstance(t[1], int))
                same = [e for e in c.edges if e["id"] is None and e["idx"] in used and
                        len([x for x in c.edges if x["text"] == e["text"]]) > 1]
                if same:
                    note = "; the graph holds %d separate E lines %r, each of them fits that step" % (
                        len([x for x in c.edges if x["text"] == same[0]["text"]]), same[0]["text"])
            F.append("%s: %s gives %s%s" % ("noncontiguous-accepted" if exp[0] == "nc" else "ambiguous-accepted", desc,
                                            show(c, r[1]), note))
    # ------------------------------------------------------------------ reversing twice is the identity
    # every reference `q+` / `q-` to a path is replaced by `q~-` / `q~+`, where q~ is a new group `O q~ q-`: whatever
    # the reading of nesting, the reversed reference to the reversed path is the path itself, so every group must keep
    # its outcome (the same walk, or an error as before).  The library is compared with itself here: this also covers
    # the groups whose expectation above is doubtful.
    alias = {}
    var_lines = []
    for l in case["lines"]:
        f = l.split("\t")
        if f[0] == "O":
            its = []
            for x in f[2].split(" "):
                if c.kind.get(x[:-1], ("?",))[0] == "O":
                    alias.setdefault(x[:-1], x[:-1] + "r")
                    its.append(alias[x[:-1]] + INV[x[-1]])
                else:
                    its.append(x)
            f[2] = " ".join(its)
        var_lines.append("\t".join(f))
    if alias and not any(a in c.kind for a in alias.values()):
        var_lines += ["O\t%s\t%s-" % (a, q) for q, a in sorted(alias.items())]
        g2 = gfapy.Gfa(version="gfa2", vlevel=case.get("vlevel", 1))
        bad = [r for r in (lib.outcome(g2.add_line, l) for l in var_lines) if r[0] == "foreign"]
        if bad:
            F.append("foreign-exception: %s adding the lines of %r" % (bad[0][1], var_lines))
        else:
            for gid in c.O:
                l1, l2 = g.line(gid), g2.line(gid)
                r1 = lib.outcome(lambda: lib_walk(c, l1.captured_path))
                r2 = lib.outcome(lambda: lib_walk(c, l2.captured_path))
                desc = "O %s %s" % (gid, " ".join(a + b for a, b in c.O[gid]))
                if "foreign" in (r1[0], r2[0]):
                    if r2[0] == "foreign" and r1[0] != "foreign":
                        F.append("foreign-exception: %s from captured_path of %s with nested references reversed twice "
                                 "(%r)" % (r2[1], desc, var_lines))
                elif r1[0] != r2[0]:
                    F.append("double-reversal-changes-outcome: %s: %s; with every nested reference q+/q- written q~-/q~+ "
                             "(O q~ q-): %s  [%r]" % (desc, show(c, r1[1]) if r1[0] == "ok" else "raises " + r1[1],
                                                      show(c, r2[1]) if r2[0] == "ok" else "raises " + r2[1], var_lines))
                elif r1[0] == "ok" and r1[1] != r2[1]:
                    F.append("double-reversal-changes-path: %s gives %s; with every nested reference q+/q- written "
                             "q~-/q~+ (O q~ q-) it gives %s  [%r]" % (desc, show(c, r1[1]), show(c, r2[1]), var_lines))
            for uid in c.U:
                l1, l2 = g.line(uid), g2.line(uid)
                r1 = lib.outcome(lambda: sorted(str(x.name) for x in l1.induced_segments_set))
                r2 = lib.outcome(lambda: sorted(str(x.name) for x in l2.induced_segments_set))
                if "foreign" not in (r1[0], r2[0]) and r1 != r2 and not (r1[0] == r2[0] == "gerr"):
                    F.append("double-reversal-changes-induced-set: U %s %s: %r; with the nested path references reversed "
                             "twice: %r  [%r]" % (uid, " ".join(c.U[uid]), r1[1], r2[1], var_lines))
    # ------------------------------------------------------------------ induced sets
    for uid, segs in exp_u.items():
        if segs is None:
            continue
        ln = g.line(uid)
        want_e = set(e["id"] or e["text"] for e in c.edges if e["s1"][0] in segs and e["s2"][0] in segs)

        def eset(ls):
            return set(str(x) if gfapy.is_placeholder(x.name) else str(x.name) for x in ls)
        r = lib.outcome(lambda: (set(str(x.name) for x in ln.induced_segments_set), eset(ln.induced_edges_set),
                                 [(x.record_type, x) for x in ln.induced_set]))
        desc = "U %s %s" % (uid, " ".join(c.U[uid]))
        if r[0] != "ok":
            F.append("%s: %s from the induced sets of %s" % ("foreign-exception" if r[0] == "foreign" else "induced-set-raises", r[1], desc))
            continue
        gs, ge, gall = r[1]
        if gs != segs:
            F.append("induced-segments-wrong: %s gives %r expected %r" % (desc, sorted(gs), sorted(segs)))
        if ge != want_e:
            F.append("induced-edges-wrong: %s gives %r expected %r" % (
                desc, sorted(ge), sorted(want_e)))
        alls = set(str(x.name) for rt, x in gall if rt == "S")
        alle = eset([x for rt, x in gall if rt == "E"])
        if (alls, alle) != (gs, ge) or any(rt not in "SE" for rt, x in gall):
            F.append("induced-set-not-union: %s" % desc)
    if case.get("probes"):
        F += oracle_probed(gfapy, case, c, exp_o, exp_u, g)
    return F


# ================================================================================================ questions between arrivals
QUESTIONS = {"O": ("captured_path", "captured_segments", "captured_edges"),
             "U": ("induced_set", "induced_segments_set", "induced_edges_set")}


def _answer(gfapy, c, ln, name):
    """one answer of a group line, as an outcome; walks as token lists, sets as sorted lists of (record type, name)
    without repetitions"""
    if name.startswith("captured"):
        return lib.outcome(lambda: lib_walk(c, getattr(ln, name)))
    return lib.outcome(lambda: sorted(set((x.record_type, str(x) if gfapy.is_placeholder(x.name) else str(x.name))
                                          for x in getattr(ln, name))))


def _part(name, whole):
    """the answer to the question `name` which follows from the answer `whole` to captured_path / induced_set"""
    if name in ("captured_path", "induced_set"):
        return whole
    rt = "S" if "segments" in name else "E"
    return [t for t in whole if t[0] == rt]


def oracle_probed(gfapy, case, c, exp_o, exp_u, g):
    """The paths and sets are those of the graph AS IT IS when the question is asked.  A second Gfa receives the same
    lines in the same order, and after the lines case["probes"] every group which is there is asked for its captured
    path / segments / edges or its induced sets (the answers on the incomplete document are not judged, except that
    they must not be foreign exceptions).  When all lines have arrived every group must answer exactly as in the Gfa
    `g` which was asked only at the end (and which the checks above have judged): the same walk, the same
    projections, the same induced sets, an error where that one gives an error."""
    F = []
    lines = case["lines"]
    probes = set(p for p in case["probes"] if 0 <= p < len(lines))
    gp = gfapy.Gfa(version="gfa2", vlevel=case.get("vlevel", 1))
    first_line = {gid: idxs[0] for gid, idxs in c.group_lines.items()}
    asked = {}
    for idx, l in enumerate(lines):
        r = lib.outcome(gp.add_line, l)
        if r[0] == "foreign" or (r[0] != "ok" and idx not in c.refused):
            F.append("%s: %s adding %r after questions were asked at %r (arrival order %r)" % (
                "foreign-exception" if r[0] == "foreign" else "line-refused-after-question", r[1], l,
                sorted(p for p in probes if p < idx), lines[:idx]))
            return F
        if idx in probes:
            for gid in sorted(c.group_lines):
                if first_line[gid] > idx:
                    continue
                ln = gp.line(gid)
                if ln is None or ln.virtual or ln.record_type not in "OU":
                    continue
                asked.setdefault(gid, []).append(idx)
                # one question per group and moment (the three questions of a kind of group take turns)
                name = QUESTIONS[ln.record_type][(idx + len(asked[gid])) % 3]
                a = _answer(gfapy, c, ln, name)
                if a[0] == "foreign":
                    F.append("foreign-exception: %s from %s of %s when only %r have arrived" % (a[1], name, gid, lines[:idx + 1]))
    if F:
        return F

    def shw(a):
        if a[0] != "ok":
            return "raises " + a[1]
        return show(c, a[1]) if a[1] and isinstance(a[1][0], tuple) and len(a[1][0]) == 3 else repr(a[1])

    for gid in sorted(c.group_lines):
        l1, l2 = g.line(gid), gp.line(gid)
        if l1 is None or l2 is None or l1.virtual or l2.virtual:
            if (l1 is None or l1.virtual) != (l2 is None or l2.virtual):
                F.append("stale-group-missing: %s after questions at %r" % (gid, sorted(probes)))
            continue
        if l1.record_type != l2.record_type or l1.record_type not in "OU":
            continue
        # the Gfa which was asked only at the end: one computation, the projections follow from it
        whole = _answer(gfapy, c, l1, QUESTIONS[l1.record_type][0])
        for name in QUESTIONS[l1.record_type]:
            x = whole if whole[0] != "ok" else ("ok", _part(name, whole[1]))
            y = _answer(gfapy, c, l2, name)
            if "foreign" in (x[0], y[0]):
                if y[0] == "foreign" and x[0] != "foreign":
                    F.append("foreign-exception: %s from %s of %s after questions at %r" % (y[1], name, gid, sorted(probes)))
                break
            if x[0] == y[0] and (x[0] != "ok" or x[1] == y[1]):
                continue
            rt = "O" if gid in c.O else "U"
            its = " ".join(a + b for a, b in c.O[gid]) if gid in c.O else " ".join(c.U[gid])
            exp = ""
            if gid in c.O and exp_o[gid][0] != "doubt":
                exp = "; the items imply " + {"walk": "the walk " + show(c, exp_o[gid][1] or []), "nc": "an error (not contiguous)",
                                              "ambig": "an error (ambiguous)"}[exp_o[gid][0]]
            elif gid in c.U and exp_u[gid] is not None:
                exp = "; the induced segments are %r" % sorted(exp_u[gid])
            when = asked.get(gid, [])
            later = [l for i, l in enumerate(lines) if when and i > when[0]]
            F.append("stale-%s%s: %s %s %s: %s is %s in a Gfa whose groups were asked for their paths / sets while the lines "
                     "were arriving (this group after line(s) no. %r, i.e. before %r arrived); in a Gfa which received the "
                     "same lines and was asked only at the end it is %s%s" % (
                         "captured-path" if rt == "O" else "induced-set", "" if x[0] == y[0] else "-outcome", rt, gid, its,
                         name, shw(y), when, later, shw(x), exp))
            break
    return F
