"""C04 — wrapper: generator and oracle of c04_oracle (independent grammar recogniser vs the real library)."""
from harness.props.c04_oracle import *  # noqa
from harness.props import c04_oracle as _o
ID = "C04"
RULE = getattr(_o, "RULE", "")
