"""Shared helper of the C01 / C03 / C13 / C18 oracles.

Two independent things live here (neither imports gfapy):

1. a grammar-directed generator of VALID GFA1 and GFA2 documents (`gen_doc`): all record types
   (H,#,S,L,C,P / H,#,S,E,F,G,O,U,custom), all seven tag datatypes with canonical and non-canonical-but-valid
   spellings, placeholders, self-links, hairpins, parallel edges, containments, nested groups, forward
   references (the lines are shuffled), paths whose links exist, a small name pool.  A document is a dict
   {"version": "gfa1"|"gfa2", "lines": [...], "features": [...]}.
   Custom records take their record type from CUSTOM_RT (X, Y, Q1, zz) unless the caller passes another pool
   (`custom_rt=`; CUSTOM_RT_WIDE adds record types of several characters: made of predefined codes such as
   SEG / GU / H# / LC, extending one such as S1 / SEGMENT, lower-case twins, no letter at all) and may be given
   a larger share of the body lines (`custom_weight=`).
   Validity rules enforced (GFA1 / GFA2 specifications, and only clear-cut ones):
     every referenced identifier is defined; identifiers are unique in their namespace (S+P+link IDs in GFA1,
     S+E+G+O+U in GFA2); LN = |sequence| and slen = |sequence| when the sequence is given; begin <= end <= length,
     `$` exactly on positions equal to the segment length; CIGARs fit in the segments they align and (GFA2) span
     the intervals; a path step always has a link (in either complement form) with the same overlap or `*`;
     the number of path overlaps is segments-1 or a single `*`; O groups are walks over dovetail edges;
     groups never refer to themselves or cyclically; tag names unique per line; predefined tags have their
     datatype; between two segment ends there is either one link with `*` overlap or several links with
     pairwise different specified overlaps (an exact duplicate only as the *complement form*, same tags).
2. an independent tokeniser / canonicaliser of GFA text (`record_key`, `doc_keys`, `canon_delayed`) used to
   compare input and output text semantically: integers by value, floats by float(), J by json.loads, B by
   element values, CIGARs by operation list, a link identified with its complement, one key per header tag.
"""
import json
import re
from collections import Counter

# ------------------------------------------------------------------------------------------ pools
SEG1 = ["A", "B", "C", "10", "s.1", "x_y"]
SEG2 = ["A", "B", "C", "10", "s.1", "x_y"]
TAGLIKE_NAMES = ["sc:1:7", "ch:X:100", "ab:Z:x", "x1:i:5"]
PATHS = ["p1", "p2", "pth"]
LINKIDS = ["l1", "l2", "l3", "l4", "l5", "l6", "l7", "l8"]
EIDS = ["e1", "e2", "e3", "e4", "e5", "e6", "e7", "e8"]
GIDS = ["g1", "g2", "g3"]
OIDS = ["o1", "o2", "o3"]
UIDS = ["u1", "u2", "u3"]
EXTERNALS = ["read1", "read2", "r.3"]
CUSTOM_RT = ["X", "Y", "Q1", "zz"]


def _custom_rt_wide():
    """Record types of custom records beyond the one- and two-character classics: a record type is any string of
    printable non-space characters that is not itself a predefined code (gfapy: [!-~]+ minus H S E F G O U, and
    P C L which it refuses inside GFA2; a leading `#` would make the line a comment).  In particular it may be
    *made of* predefined codes (SEG, GU, UO, FS, H#, LC, ...), may extend one (S1, SEGMENT, Hx, P2), may be a
    lower-case twin (s, seg) or no letter at all (1, @, !~)."""
    out = list(CUSTOM_RT)
    for order, sizes in (("H#FSEGUO", (2, 3, 4, 8)), ("HSFEGOU", (2, 3)), ("LCP", (2, 3)), ("SLCP", (4,))):
        for n in sizes:
            for i in range(len(order) - n + 1):
                rt = order[i:i + n]
                if not rt.startswith("#") and rt not in out:
                    out.append(rt)
    out += ["SEGMENT", "GUIDE", "seg", "s", "e", "S1", "E_1", "Hx", "xS", "UOx", "P2", "LL", "L.C", "SS", "1", "@",
            "!~", "H:Z"]
    return out


CUSTOM_RT_WIDE = _custom_rt_wide()
TAGNAMES = ["xx", "yy", "ab", "z9", "aB"]
DATATYPES = "AifZJHB"

VALS = {
    "A": (["a", "Z", "5", "~", "!"], ["*", ":", "+", "-", "#"]),
    "i": (["0", "1", "5", "-3", "42", "255", "1000000", "1099511627776", "-8589934592"],
          ["+5", "007", "-0", "+0", "-007", "000", "+1099511627776"]),
    "f": (["1.5", "-0.25", "0.0", "3.0", "1e-07", "100.0", "-2.5e+30"],
          ["1.0e3", "3", "+2.50", ".5", "-.5e1", "1E2", "0", "1e+2", "00.5", "-0.0", "12.50E-1"]),
    "Z": (["abc", "hello world", "a:b:c", "1", "x;y,z"],
          ["*", " x ", "co:Z:nested", "+", "H", "{\"a\":1}", "  "]),
    "J": (['{"a": 1}', '[1, 2]', '[]', '{}', '{"k": [1, {"b": null}]}', '["x y", true]'],
          ['{"a":1}', '[1,2 ,3]', '{ "k" : [1,{"b":null}] }', '[1.0e1]', '["\\u00e9"]', '[true,false]', '[ ]',
           '{"a":{"b":[]},"c":-0.5}', '[1 ,  "a:b"]']),
    "H": (["00", "1A2B", "FF", "0123456789ABCDEF", "DEADBEEF"], ["0000", "0A"]),
    "B": (["C,1,2", "c,-1,2", "S,300", "f,1.5,2.0", "I,70000", "i,-70000,3", "s,-300", "C,0", "I,4294967295",
           "i,-2147483648,2147483647", "c,-128,127", "s,-1,128", "s,-129,5", "s,-32768,32767", "i,-1,32768", "i,-32769,0",
           "C,255", "S,256", "S,65535", "I,65536", "i,-2147483648,5", "s,-128,128", "c,-128", "s,-32768", "i,-2147483648"],
          ["c,1,2", "i,1,2", "S,+5", "I,1", "f,1,2", "f,1.0e1,-.5", "C,007", "s,+3,-0", "s,1", "i,-1", "f,3",
           "S,255", "c,+127"]),
}


def gen_value(rng, t, odd=0.4):
    canon, weird = VALS[t]
    return rng.choice(weird) if rng.random() < odd else rng.choice(canon)


def gen_custom_tags(rng, n, exclude=(), odd=0.4, types=DATATYPES):
    names = [x for x in TAGNAMES if x not in exclude]
    rng.shuffle(names)
    out = []
    for nm in names[:n]:
        t = rng.choice(types)
        out.append("%s:%s:%s" % (nm, t, gen_value(rng, t, odd)))
    return out


def gen_tags(rng, predefined=(), pmax=3, odd=0.4):
    """0..pmax tags: a mix of custom tags and predefined tags [(name, datatype)] with their own datatype."""
    r = rng.random()
    n = 0 if r < 0.35 else (1 if r < 0.65 else (2 if r < 0.85 else pmax))
    out = []
    pre = list(predefined)
    rng.shuffle(pre)
    for _ in range(n):
        if pre and rng.random() < 0.3:
            nm, t = pre.pop()
            if t == "i":
                v = rng.choice(["0", "1", "17", "255", "+4", "010"]) if rng.random() < odd else str(rng.choice([0, 1, 17, 300]))
            elif t == "H":
                v = gen_value(rng, "H", odd)
            else:
                v = rng.choice(["http://x.org/a.fa", "file.fa", "a b"])
            out.append("%s:%s:%s" % (nm, t, v))
        else:
            used = [x.split(":")[0] for x in out]
            out += gen_custom_tags(rng, 1, exclude=used, odd=odd)
    return out


def inv(o):
    return "-" if o == "+" else "+"


# ------------------------------------------------------------------------------------------ CIGAR (text level)
CIG_RE = re.compile(r"([0-9]+)([MIDNSHPX=])")
FLIP = {"I": "D", "D": "I"}


def cig_ops(c):
    return tuple((int(n), k) for n, k in CIG_RE.findall(c))


def cig_compl(c):
    if c == "*":
        return "*"
    return "".join("%d%s" % (n, FLIP.get(k, k)) for n, k in reversed(cig_ops(c)))


def cig_lens(c):
    r = q = 0
    for n, k in cig_ops(c):
        if k in "M=XDN":
            r += n
        if k in "M=XIS":
            q += n
    return r, q


def gen_cigar(rng, maxref, maxqry, v1=True):
    """A CIGAR whose reference/query lengths fit in maxref/maxqry (None = unknown length), or '*'."""
    mr = 12 if maxref is None else maxref
    mq = 12 if maxqry is None else maxqry
    if mr < 1 or mq < 1 or rng.random() < 0.3:
        return "*"
    k = rng.randint(1, min(mr, mq, 6))
    r = rng.random()
    if r < 0.5 or k < 2:
        c = "%dM" % k
        if v1 and rng.random() < 0.15:
            c = "%d%s" % (k, rng.choice("=X"))
    else:
        a = rng.randint(1, k - 1)
        b = k - a
        if r < 0.75 and mq - k >= 1:
            c = "%dM%dI%dM" % (a, rng.randint(1, min(2, mq - k)), b)
        elif mr - k >= 1:
            c = "%dM%dD%dM" % (a, rng.randint(1, min(2, mr - k)), b)
        else:
            c = "%dM%dM" % (a, b)
    if rng.random() < 0.08:
        c = (rng.choice(["1H", "2P"]) if v1 else "2P") + c
    return c


# ------------------------------------------------------------------------------------------ GFA1
def _seq1(rng, n):
    s = "".join(rng.choice("ACGTacgtNn") for _ in range(n))
    if rng.random() < 0.1:
        i = rng.randrange(n)
        s = s[:i] + rng.choice("=.") + s[i + 1:]
    return s


def link_forms(l):
    """The two (ends, overlap) spellings of one link."""
    a = (l["f"], l["fo"], l["t"], l["to"], cig_ops(l["c"]) if l["c"] != "*" else "*")
    b = (l["t"], inv(l["to"]), l["f"], inv(l["fo"]), cig_ops(cig_compl(l["c"])) if l["c"] != "*" else "*")
    return {a, b}


def ends_key(f, fo, t, to):
    return min((f, fo, t, to), (t, inv(to), f, inv(fo)))


def _link_allowed(links, new):
    k = ends_key(new["f"], new["fo"], new["t"], new["to"])
    for e in links:
        if ends_key(e["f"], e["fo"], e["t"], e["to"]) != k:
            continue
        if e["c"] == "*" or new["c"] == "*":
            return False
        if link_forms(e) & link_forms(new):
            return False
    return True


def _find_links(links, x, ox, y, oy):
    """links usable for the step x(ox) -> y(oy): [(link, overlap in the direction of the step)]"""
    out = []
    for l in links:
        if (l["f"], l["fo"], l["t"], l["to"]) == (x, ox, y, oy):
            out.append((l, l["c"]))
        elif (l["t"], inv(l["to"]), l["f"], inv(l["fo"])) == (x, ox, y, oy):
            out.append((l, cig_compl(l["c"])))
    return out


def link_text(l, compl=False):
    if compl:
        f = [l["t"], inv(l["to"]), l["f"], inv(l["fo"]), cig_compl(l["c"])]
    else:
        f = [l["f"], l["fo"], l["t"], l["to"], l["c"]]
    return "\t".join(["L"] + f + l["tags"])


def gen_gfa1(rng, max_lines, o):
    feats = []
    odd = o.get("odd", 0.4)
    lines_h, lines_c = [], []
    nseg = rng.randint(1, min(4 if max_lines <= 12 else 6, max(1, max_lines // 3)))
    if o.get("neutral") or rng.random() < 0.03:
        nseg = 0
        feats.append("no-segments")
    names = list(SEG1)
    rng.shuffle(names)
    names = names[:nseg]
    if o.get("taglike") and names and rng.random() < o["taglike"]:
        # a legal segment name that looks like a tag
        names[0] = rng.choice(TAGLIKE_NAMES)
        feats.append("taglike-name")
    length = {}
    seg_lines = []
    for n in names:
        tags = gen_tags(rng, [("RC", "i"), ("FC", "i"), ("KC", "i"), ("SH", "H"), ("UR", "Z")], odd=odd)
        if rng.random() < 0.45:
            seq = "*"
            feats.append("S*")
            if rng.random() < 0.5:
                length[n] = rng.randint(1, 20)
                tags.insert(rng.randint(0, len(tags)), "LN:i:%d" % length[n])
            else:
                length[n] = None
        else:
            length[n] = rng.randint(1, 12)
            seq = _seq1(rng, length[n])
            if rng.random() < 0.45:
                ln = "%d" % length[n]
                if rng.random() < odd * 0.5:
                    ln = rng.choice(["+", "0", "00"]) + ln
                    feats.append("LN-noncanon")
                tags.insert(rng.randint(0, len(tags)), "LN:i:" + ln)
                feats.append("LN")
        seg_lines.append("\t".join(["S", n, seq] + tags))
    budget = max_lines - len(seg_lines)
    # header / comments first so that they take part of the budget
    nh = 0 if rng.random() < 0.35 else rng.randint(1, 3)
    nc = 0 if rng.random() < 0.5 else rng.randint(1, 2)
    nh = min(nh, max(0, budget - 1))
    lines_h = gen_headers(rng, nh, "1.0", o, feats)
    lines_c = gen_comments(rng, min(nc, max(0, budget - len(lines_h))))
    budget -= len(lines_h) + len(lines_c)
    links, conts, paths = [], [], []
    link_ids = list(LINKIDS)
    used_names = set(names)

    def new_link(x, ox, y, oy, for_path=False):
        l = {"f": x, "fo": ox, "t": y, "to": oy, "c": gen_cigar(rng, length[x], length[y]),
             "tags": gen_tags(rng, [("MQ", "i"), ("NM", "i"), ("RC", "i"), ("FC", "i"), ("KC", "i")], odd=odd)}
        if rng.random() < 0.2 and link_ids:
            l["tags"].append("ID:Z:" + link_ids.pop(0))
            feats.append("link-ID")
        if not _link_allowed(links, l):
            return None
        links.append(l)
        if x == y:
            feats.append("self-link" if ox == oy else "hairpin")
        return l

    plan = [rng.choice("LLLLCCPP") for _ in range(max(0, budget))] if names else []
    extra_lines = []
    for what in plan:
        used = len(links) + len(conts) + len(paths) + len(extra_lines)
        if used >= budget:
            break
        if what == "L":
            x = rng.choice(names)
            y = x if rng.random() < 0.25 else rng.choice(names)
            if links and rng.random() < 0.2:
                # try a parallel link between the same ends
                e = rng.choice(links)
                if new_link(e["f"], e["fo"], e["t"], e["to"]):
                    feats.append("parallel-links")
                continue
            new_link(x, rng.choice("+-"), y, rng.choice("+-"))
        elif what == "C":
            x = rng.choice(names)
            y = x if rng.random() < 0.15 else rng.choice(names)
            lx, ly = length[x], length[y]
            if lx is not None and ly is not None and ly > lx:
                x, y, lx, ly = y, x, ly, lx
            if lx is not None and ly is not None:
                pos = rng.randint(0, lx - ly)
                ov = rng.choice(["*", "%dM" % ly])
            else:
                pos = rng.choice([0, 0, 1, 3])
                ov = rng.choice(["*", "*", "%dM" % (ly if ly is not None else rng.randint(1, 4))])
                if lx is not None and ov != "*" and pos + cig_lens(ov)[0] > lx:
                    ov, pos = "*", 0
            poss = str(pos) if rng.random() > odd * 0.3 else "0" + str(pos)
            tags = gen_tags(rng, [("MQ", "i"), ("NM", "i")], odd=odd)
            if rng.random() < 0.15 and link_ids:
                tags.append("ID:Z:" + link_ids.pop(0))
            key = (x, y, pos)
            if key in [c[0] for c in conts]:
                continue
            conts.append((key, "\t".join(["C", x, rng.choice("+-"), y, rng.choice("+-"), poss, ov] + tags)))
            feats.append("containment")
        else:
            pn = [p for p in PATHS if p not in used_names]
            if not pn:
                continue
            steps = rng.choice([0, 1, 1, 2, 2, 3])
            cur = (rng.choice(names), rng.choice("+-"))
            walk = [cur]
            ovs = []
            ambiguous = False
            ok = True
            for _ in range(steps):
                nxt = (rng.choice(names), rng.choice("+-"))
                # prefer following an existing link
                outgoing = []
                for l in links:
                    if (l["f"], l["fo"]) == cur:
                        outgoing.append((l["t"], l["to"]))
                    if (l["t"], inv(l["to"])) == cur:
                        outgoing.append((l["f"], inv(l["fo"])))
                if outgoing and rng.random() < 0.7:
                    nxt = rng.choice(outgoing)
                found = _find_links(links, cur[0], cur[1], nxt[0], nxt[1])
                if not found:
                    if len(links) + len(conts) + len(paths) + len(extra_lines) + 1 >= budget:
                        ok = False
                        break
                    if rng.random() < 0.5:
                        l = new_link(cur[0], cur[1], nxt[0], nxt[1], True)
                    else:
                        l = new_link(nxt[0], inv(nxt[1]), cur[0], inv(cur[1]), True)
                        if l:
                            feats.append("path-over-complement")
                    if not l:
                        ok = False
                        break
                    found = _find_links(links, cur[0], cur[1], nxt[0], nxt[1])
                if len({id(f[0]) for f in found}) > 1:
                    ambiguous = True
                fl, ov = rng.choice(found)
                if ov == "*" and len(found) == 1 and (fl.get("stated") or rng.random() < 0.35):
                    # the path states an overlap for a link whose own overlap is `*` (the same one whenever the link is
                    # used again, read in the direction of the step)
                    if not fl.get("stated"):
                        fl["stated"] = rng.choice(["3M", "2M1D", "4=", "1M1I1M", "12M"])
                    direct = (fl["f"], fl["fo"], fl["t"], fl["to"]) == (cur[0], cur[1], nxt[0], nxt[1])
                    # a hairpin / self link matches in both directions: keep the direct reading
                    ov = fl["stated"] if direct else cig_compl(fl["stated"])
                    feats.append("path-specifies-star-link")
                ovs.append(ov)
                walk.append(nxt)
                cur = nxt
            if not ok and len(walk) == 1 and rng.random() < 0.5:
                continue
            if len(walk) == 1:
                ovtxt = "*"
                feats.append("path-1seg")
            elif rng.random() < 0.4 and not (ambiguous and not o.get("ambiguous_paths", True)):
                ovtxt = "*"
                if ambiguous:
                    feats.append("ambiguous-path-step")
            else:
                ovtxt = ",".join(ovs)
            name = pn[0]
            used_names.add(name)
            paths.append("\t".join(["P", name, ",".join(a + b for a, b in walk), ovtxt] + gen_custom_tags(
                rng, rng.choice([0, 0, 1]), odd=odd)))
            feats.append("path")
    link_lines = []
    room = budget - (len(links) + len(conts) + len(paths))
    for l in links:
        link_lines.append(link_text(l))
        if o.get("both_forms", True) and rng.random() < 0.15 and room > 0:
            room -= 1
            link_lines.append(link_text(l, compl=True))
            feats.append("both-forms")
    body = seg_lines + link_lines + [c[1] for c in conts] + paths
    return _finish(rng, "gfa1", lines_h, lines_c, body, feats, o)


# ------------------------------------------------------------------------------------------ headers / comments
def gen_headers(rng, nh, vn, o, feats):
    out = []
    if nh <= 0:
        return out
    have_vn = rng.random() < 0.6 and not o.get("no_vn")
    rep = None
    used = set()
    ts_used = False
    for i in range(nh):
        tags = []
        if have_vn and i == 0:
            tags.append("VN:Z:" + vn)
            feats.append("VN")
        if rep and rng.random() < 0.6:
            nm, t = rep
            tags.append("%s:%s:%s" % (nm, t, gen_value(rng, t, o.get("odd", 0.4))))
            feats.append("H-repeated-tag")
        else:
            new = gen_custom_tags(rng, rng.choice([0, 1, 1, 2]), exclude=used, odd=o.get("odd", 0.4))
            tags += new
            for x in new:
                used.add(x.split(":")[0])
            if new and rep is None and rng.random() < 0.6:
                rep = tuple(new[0].split(":")[:2])
        if vn == "2.0" and not ts_used and rng.random() < 0.2:
            tags.append("TS:i:%d" % rng.choice([16, 100]))
            ts_used = True
        if not tags:
            if rng.random() < 0.3:
                feats.append("H-empty")
            else:
                tags = gen_custom_tags(rng, 1, exclude=used) or []
                for x in tags:
                    used.add(x.split(":")[0])
        if len(tags) > 1:
            feats.append("H-multitag")
            rng.shuffle(tags)
        out.append("\t".join(["H"] + tags))
    return out


COMMENTS = ["# a comment", "#no spacer", "#  two spaces", "#", "# ", "#\ttab spacer", "# with\ttab inside",
            "# xx:i:1", "#S\tA\t*", "# trailing space ", "##", "# H\tVN:Z:9.9"]


def gen_comments(rng, n):
    return [rng.choice(COMMENTS) for _ in range(n)]


def _finish(rng, version, lines_h, lines_c, body, feats, o):
    lines = lines_h + body
    if o.get("shuffle", True) and rng.random() < 0.75:
        rng.shuffle(lines)
        feats.append("shuffled")
    for c in lines_c:
        lines.insert(rng.randint(0, len(lines)), c)
    if not lines:
        lines = ["# empty"]
    return {"version": version, "lines": lines, "features": sorted(set(feats))}


# ------------------------------------------------------------------------------------------ GFA2
def _seq2(rng, n):
    s = "".join(rng.choice("ACGTacgtN") for _ in range(n))
    if rng.random() < 0.1 and n > 1:
        i = rng.randrange(1, n)
        s = s[:i] + rng.choice("-*.=") + s[i + 1:]
    return s


def _pos(x, n):
    return "%d$" % x if x == n else "%d" % x


def _iv(rng, n, kind):
    if kind == "empty0":
        return (0, 0)
    if kind == "emptyN":
        return (n, n)
    if kind == "whole" or n < 2:
        return (0, n)
    if kind == "pfx":
        return (0, rng.randint(1, n - 1))
    if kind == "sfx":
        return (rng.randint(1, n - 1), n)
    a = rng.randint(1, n - 1)
    b = rng.randint(a, n - 1)
    return (a, b)


def _aln2(rng, l1, l2, tags, allow_trace=True):
    r = rng.random()
    if r < 0.4 or (l1 == 0 and l2 == 0):
        return "*"
    if r < 0.8 or not allow_trace or l1 == 0:
        m = min(l1, l2)
        c = ("%dM" % m if m else "") + ("%dD" % (l1 - m) if l1 > m else "") + ("%dI" % (l2 - m) if l2 > m else "")
        if m >= 2 and rng.random() < 0.3:
            a = rng.randint(1, m - 1)
            c = "%dM%dP%dM" % (a, 1, m - a) + c[len("%dM" % m):]
        return c
    # trace: TS on the line, ceil(l1/TS) elements summing to l2
    if any(t.startswith("TS:") for t in tags):
        return "*"
    if l1 >= 2 and l2 >= 1 and rng.random() < 0.5:
        ts = (l1 + 1) // 2
        a = rng.randint(0, l2)
        tags.append("TS:i:%d" % ts)
        return "%d,%d" % (a, l2 - a)
    if rng.random() < 0.15:
        # a one-element trace (<trace> <- <int>(,<int>)* in the GFA2 specification)
        tags.append("TS:i:%d" % (l1 + rng.choice([0, 5])))
        return "%d" % l2
    return "*"


def gen_gfa2(rng, max_lines, o):
    feats = []
    odd = o.get("odd", 0.4)
    nseg = rng.randint(1, min(4 if max_lines <= 12 else 6, max(1, max_lines // 3)))
    if o.get("neutral") or rng.random() < 0.03:
        nseg = 0
        feats.append("no-segments")
    names = list(SEG2)
    rng.shuffle(names)
    names = names[:nseg]
    if o.get("taglike") and names and rng.random() < o["taglike"]:
        names[0] = rng.choice(TAGLIKE_NAMES)
        feats.append("taglike-name")
    slen = {}
    seg_lines = []
    for n in names:
        tags = gen_tags(rng, [("RC", "i"), ("FC", "i"), ("KC", "i"), ("SH", "H"), ("UR", "Z")], odd=odd)
        slen[n] = rng.choice([1, 2, 3, 4, 6, 8, 10, 12])
        if rng.random() < 0.5:
            seq = "*"
            feats.append("S*")
        else:
            seq = _seq2(rng, slen[n])
        ls = str(slen[n])
        if rng.random() < odd * 0.3:
            ls = "0" + ls
            feats.append("slen-noncanon")
        seg_lines.append("\t".join(["S", n, ls, seq] + tags))
    budget = max_lines - len(seg_lines)
    nh = 0 if rng.random() < 0.35 else rng.randint(1, 3)
    nc = 0 if rng.random() < 0.5 else rng.randint(1, 2)
    nh = min(nh, max(0, budget - 1))
    lines_h = gen_headers(rng, nh, "2.0", o, feats)
    lines_c = gen_comments(rng, min(nc, max(0, budget - len(lines_h))))
    budget -= len(lines_h) + len(lines_c)
    eids, gids, oids, uids = list(EIDS), list(GIDS), list(OIDS), list(UIDS)
    body = []
    arcs = []          # (x, ox, y, oy, eid or None, '+')
    named = list(names)  # identifiers usable as U items
    ogroups = []       # (id, first, last)  oriented ends of the walk
    ugroups = []
    kinds = "EEEEGFFOOUUX" + "X" * o.get("custom_weight", 0)
    plan = [rng.choice(kinds) for _ in range(max(0, budget))] if names else \
        [rng.choice("X") for _ in range(max(0, budget)) if rng.random() < 0.5]
    for what in plan:
        if len(body) >= budget:
            break
        if what == "E":
            x = rng.choice(names)
            y = x if rng.random() < 0.2 else rng.choice(names)
            o1, o2 = rng.choice("+-"), rng.choice("+-")
            dov = rng.random() < 0.55
            if dov:
                k1 = "sfx" if o1 == "+" else "pfx"
                k2 = "pfx" if o2 == "+" else "sfx"
            else:
                k1 = rng.choice(["whole", "pfx", "sfx", "int", "empty0", "emptyN", "int"])
                k2 = rng.choice(["whole", "pfx", "sfx", "int", "empty0", "emptyN", "whole"])
            b1, e1 = _iv(rng, slen[x], k1)
            b2, e2 = _iv(rng, slen[y], k2)
            eid = eids.pop(0) if (eids and rng.random() < 0.6) else "*"
            tags = gen_tags(rng, [], odd=odd)
            aln = _aln2(rng, e1 - b1, e2 - b2, tags)
            if aln.count(","):
                feats.append("trace")
            body.append("\t".join(["E", eid, x + o1, y + o2, _pos(b1, slen[x]), _pos(e1, slen[x]),
                                   _pos(b2, slen[y]), _pos(e2, slen[y]), aln] + tags))
            if eid != "*":
                named.append(eid)
            else:
                feats.append("E*")
            is_dov = (b1, e1) != (0, slen[x]) and (b2, e2) != (0, slen[y]) and \
                ((e1 == slen[x]) if o1 == "+" else (b1 == 0)) and ((b2 == 0) if o2 == "+" else (e2 == slen[y]))
            if is_dov:
                arcs.append((x, o1, y, o2, eid if eid != "*" else None))
                feats.append("dovetail")
            if x == y:
                feats.append("self-edge" if o1 == o2 else "hairpin")
            if any(l.startswith("E\t") and l.split("\t")[2:4] == [x + o1, y + o2] for l in body[:-1]):
                feats.append("parallel-edges")
            if (b1, e1) == (0, slen[x]) or (b2, e2) == (0, slen[y]):
                feats.append("containment")
        elif what == "G":
            x, y = rng.choice(names), rng.choice(names)
            gid = gids.pop(0) if (gids and rng.random() < 0.6) else "*"
            disp = rng.choice(["0", "10", "250", "-5", "007"] if rng.random() < odd else ["0", "10", "250"])
            var = rng.choice(["*", "*", "3", "0", "25"])
            body.append("\t".join(["G", gid, x + rng.choice("+-"), y + rng.choice("+-"), disp, var] +
                                  gen_tags(rng, [], odd=odd)))
            if gid != "*":
                named.append(gid)
            feats.append("gap")
        elif what == "F":
            x = rng.choice(names)
            b, e = _iv(rng, slen[x], rng.choice(["whole", "pfx", "sfx", "int"]))
            fb = rng.choice([0, 0, 3, 10])
            fl = rng.choice([e - b, e - b, e - b + 1, max(0, e - b - 1)])
            fe = "%d" % (fb + fl) + ("$" if rng.random() < 0.3 else "")
            tags = gen_tags(rng, [], odd=odd)
            aln = _aln2(rng, e - b, fl, tags)
            body.append("\t".join(["F", x, rng.choice(EXTERNALS) + rng.choice("+-"), _pos(b, slen[x]), _pos(e, slen[x]),
                                   str(fb), fe, aln] + tags))
            feats.append("fragment")
        elif what == "O":
            if not oids:
                continue
            r = rng.random()
            if ogroups and r < 0.2:
                sub = rng.choice(ogroups)
                items = [sub + rng.choice("+-")]
                feats.append("nested-O")
            elif arcs and r < 0.8:
                allarcs = []
                for (x, o1, y, o2, eid) in arcs:
                    allarcs.append(((x, o1), (y, o2), eid, "+"))
                    allarcs.append(((y, inv(o2)), (x, inv(o1)), eid, "-"))
                a = rng.choice(allarcs)
                items = [a[0][0] + a[0][1]]
                cur = a
                for step in range(3):
                    if cur[2] and rng.random() < 0.6:
                        items.append(cur[2] + cur[3])
                        feats.append("O-explicit-edge")
                    items.append(cur[1][0] + cur[1][1])
                    nxt = [z for z in allarcs if z[0] == cur[1]]
                    if not nxt or rng.random() < 0.5:
                        break
                    cur = rng.choice(nxt)
                feats.append("O-walk")
            else:
                items = [rng.choice(names) + rng.choice("+-")]
            oid = oids.pop(0) if rng.random() < 0.8 else "*"
            tags = gen_custom_tags(rng, rng.choice([0, 0, 1]), odd=odd)
            if oid != "*" and o.get("same_id_groups") and len(items) >= 2 and rng.random() < 0.5 and \
                    len(body) + 2 <= budget:
                cut = rng.randint(1, len(items) - 1)
                body.append("\t".join(["O", oid, " ".join(items[:cut])] + tags))
                body.append("\t".join(["O", oid, " ".join(items[cut:])]))
                feats.append("O-multiline")
            else:
                body.append("\t".join(["O", oid, " ".join(items)] + tags))
            if oid != "*":
                named.append(oid)
                ogroups.append(oid)
            feats.append("O")
        elif what == "U":
            if not uids or not named:
                continue
            pool = list(named)
            rng.shuffle(pool)
            items = pool[:rng.randint(1, min(4, len(pool)))]
            if any(i in ugroups or i in ogroups for i in items):
                feats.append("nested-U")
            uid = uids.pop(0) if rng.random() < 0.8 else "*"
            tags = gen_custom_tags(rng, rng.choice([0, 0, 1]), odd=odd)
            if uid != "*" and o.get("same_id_groups") and len(items) >= 2 and rng.random() < 0.5 and \
                    len(body) + 2 <= budget:
                cut = rng.randint(1, len(items) - 1)
                body.append("\t".join(["U", uid, " ".join(items[:cut])] + tags))
                body.append("\t".join(["U", uid, " ".join(items[cut:])]))
                feats.append("U-multiline")
            else:
                body.append("\t".join(["U", uid, " ".join(items)] + tags))
            if uid != "*":
                named.append(uid)
                ugroups.append(uid)
            feats.append("U")
        else:
            if o.get("no_custom"):
                continue
            nf = rng.choice([0, 1, 2, 3])
            fields = [rng.choice(["foo", "bar baz", "12", "*", "A+", "x,y", "a:b", "+"]) for _ in range(nf)]
            rt = rng.choice(o.get("custom_rt") or CUSTOM_RT)
            body.append("\t".join([rt] + fields + gen_tags(rng, [], odd=odd)))
            feats.append("custom")
    body = seg_lines + body
    return _finish(rng, "gfa2", lines_h, lines_c, body, feats, o)


def gen_doc(rng, version=None, max_lines=12, **o):
    """A valid document.  Options: same_id_groups (multi-line O/U), both_forms, ambiguous_paths, no_custom,
    no_vn, neutral (no segments: only H/#/custom), odd (probability of a non-canonical spelling), shuffle,
    custom_rt (GFA2: the pool of record types of the custom records, default CUSTOM_RT; CUSTOM_RT_WIDE has
    record types of several characters, among them ones made of predefined codes), custom_weight (GFA2: how many
    extra shares custom records get among the kinds of body lines, default 0)."""
    if version is None:
        version = rng.choice(["gfa1", "gfa2"])
    d = gen_gfa1(rng, max_lines, o) if version == "gfa1" else gen_gfa2(rng, max_lines, o)
    if len(d["lines"]) > max_lines:
        d["lines"] = _trim(d, max_lines)
    return d


def _trim(d, max_lines):
    """Drop trailing non-essential lines while the document stays closed."""
    lines = list(d["lines"])
    i = len(lines) - 1
    while len(lines) > max_lines and i >= 0:
        cand = lines[:i] + lines[i + 1:]
        if refs_closed(cand, d["version"]):
            lines = cand
        i -= 1
    return lines


# ------------------------------------------------------------------------------------------ tokeniser
NPOS = {"gfa1": {"S": 2, "L": 5, "C": 6, "P": 3, "H": 0},
        "gfa2": {"S": 3, "E": 8, "F": 7, "G": 5, "O": 2, "U": 2, "H": 0}}
TAG_RE = re.compile(r"^([A-Za-z][A-Za-z0-9]):([AifZJHB]):(.+)$", re.S)
INT_RE = re.compile(r"^[-+]?[0-9]+\Z")
FLOAT_RE = re.compile(r"^[-+]?[0-9]*\.?[0-9]+([eE][-+]?[0-9]+)?\Z")


class Unparsable(Exception):
    pass


def value_key(t, v):
    """Semantic key of a tag value spelled v with datatype t (raises Unparsable when v is not in the grammar)."""
    if t in "AZ":
        if not re.match(r"^[ -~]+\Z", v) or (t == "A" and len(v) != 1):
            raise Unparsable("%s:%r" % (t, v))
        return v
    if t == "i":
        if not INT_RE.match(v):
            raise Unparsable("i:%r" % v)
        return int(v)
    if t == "f":
        if not FLOAT_RE.match(v):
            raise Unparsable("f:%r" % v)
        return float(v)
    if t == "H":
        if not re.match(r"^([0-9A-F][0-9A-F])+\Z", v):
            raise Unparsable("H:%r" % v)
        return v
    if t == "J":
        try:
            return json.dumps(json.loads(v), sort_keys=True)
        except ValueError:
            raise Unparsable("J:%r" % v)
    if t == "B":
        m = re.match(r"^([cCsSiIf])((,[^,]+)+)\Z", v)
        if not m:
            raise Unparsable("B:%r" % v)
        elems = m.group(2)[1:].split(",")
        if m.group(1) == "f":
            for e in elems:
                if not FLOAT_RE.match(e):
                    raise Unparsable("B:%r" % v)
            return ("f",) + tuple(float(e) for e in elems)
        for e in elems:
            if not INT_RE.match(e):
                raise Unparsable("B:%r" % v)
        return ("int",) + tuple(int(e) for e in elems)
    raise Unparsable("datatype %r" % t)


def split_tags(fields):
    """trailing fields that are tags -> index of the first tag"""
    i = len(fields)
    while i > 1 and TAG_RE.match(fields[i - 1]):
        i -= 1
    return i


def aln_key(s):
    if s == "*":
        return "*"
    if re.match(r"^([0-9]+[MIDNSHPX=])+\Z", s):
        return ("cigar",) + cig_ops(s)
    if re.match(r"^[0-9]+(,[0-9]+)*\Z", s):
        return ("trace",) + tuple(int(x) for x in s.split(","))
    raise Unparsable("alignment %r" % s)


def pos_key(s):
    m = re.match(r"^([0-9]+)(\$?)\Z", s)
    if not m:
        raise Unparsable("position %r" % s)
    return (int(m.group(1)), m.group(2))


def int_key(s):
    if not re.match(r"^[-+]?[0-9]+\Z", s):
        raise Unparsable("integer %r" % s)
    return int(s)


def tokenise(line, version):
    """-> (record type, [positional field keys], {tagname: (datatype, value key)}, raw positional strings)"""
    if line.startswith("#"):
        return ("#", [line], {}, [line])
    f = line.split("\t")
    rt = f[0]
    table = NPOS[version]
    if rt in table:
        n = table[rt]
        if len(f) - 1 < n:
            raise Unparsable("too few fields: %r" % line)
        pos, tagf = f[1:1 + n], f[1 + n:]
    else:
        if version == "gfa1":
            raise Unparsable("record type %r in GFA1" % rt)
        i = split_tags(f)
        pos, tagf = f[1:i], f[i:]
        n = None
    tags = {}
    for t in tagf:
        m = TAG_RE.match(t)
        if not m:
            raise Unparsable("tag %r" % t)
        if m.group(1) in tags:
            raise Unparsable("duplicate tag %r" % m.group(1))
        tags[m.group(1)] = (m.group(2), value_key(m.group(2), m.group(3)))
    keys = list(pos)
    if version == "gfa1":
        if rt in "LC":
            keys[4 if rt == "L" else 5] = aln_key(pos[4 if rt == "L" else 5])
            if rt == "C":
                keys[4] = int_key(pos[4])
        elif rt == "P":
            keys[1] = tuple(pos[1].split(","))
            keys[2] = tuple(aln_key(x) for x in pos[2].split(","))
    else:
        if rt == "S":
            keys[1] = int_key(pos[1])
        elif rt == "E":
            for j in (3, 4, 5, 6):
                keys[j] = pos_key(pos[j])
            keys[7] = aln_key(pos[7])
        elif rt == "F":
            for j in (2, 3, 4, 5):
                keys[j] = pos_key(pos[j])
            keys[6] = aln_key(pos[6])
        elif rt == "G":
            keys[3] = int_key(pos[3])
            keys[4] = "*" if pos[4] == "*" else int_key(pos[4])
        elif rt == "O":
            keys[1] = tuple(pos[1].split(" "))
        elif rt == "U":
            keys[1] = tuple(sorted(pos[1].split(" ")))
    return (rt, keys, tags, pos)


def _link_canon(keys):
    f, fo, t, to, ov = keys
    if ov == "*":
        cov = "*"
    else:
        cov = ("cigar",) + tuple((n, FLIP.get(k, k)) for n, k in reversed(ov[1:]))
    a = (f, fo, t, to, ov)
    b = (t, inv(to), f, inv(fo), cov)
    return min(a, b, key=repr)


def record_keys(line, version):
    """Canonical keys of one line: a list (a header line yields one key per tag, a tagless H none)."""
    rt, keys, tags, _ = tokenise(line, version)
    if rt == "H":
        return [("H", (), frozenset([(n, t, v)])) for n, (t, v) in tags.items()]
    if rt == "L":
        keys = list(_link_canon(keys))
    return [(rt, tuple(keys), frozenset((n, t, v) for n, (t, v) in tags.items()))]


def doc_keys(lines, version, merge_links=True):
    """Multiset of record keys of a document; a link present in both complement forms counts once."""
    c = Counter()
    seen_links = set()
    for l in lines:
        for k in record_keys(l, version):
            if k[0] == "L" and merge_links:
                if k[1] in seen_links:
                    continue
                seen_links.add(k[1])
            c[k] += 1
    return c


def describe_diff(cin, cout):
    """[(signature, detail)] explaining the difference between two key multisets"""
    missing = list((cin - cout).elements())
    extra = list((cout - cin).elements())
    out = []
    for m in missing:
        hit = None
        for e in extra:
            if e[0] == m[0] and e[1] == m[1]:
                hit = ("tags-differ", e)
                break
        if hit is None:
            for e in extra:
                if e[0] == m[0] and e[2] == m[2] and (not m[1] or not e[1] or m[1][0] == e[1][0]):
                    hit = ("positional-differ", e)
                    break
        if hit:
            extra.remove(hit[1])
            out.append((hit[0], "input %s written as %s" % (show_key(m), show_key(hit[1]))))
        else:
            out.append(("record-lost", "input %s has no counterpart in the output" % show_key(m)))
    for e in extra:
        out.append(("record-added", "output %s has no counterpart in the input" % show_key(e)))
    return out


def show_key(k):
    return "%s %r tags=%r" % (k[0], list(k[1]), sorted(k[2], key=repr))


# ------------------------------------------------------------------------------------------ lazy-spelling canon
DELAYED_TAG_TYPES = "BJH"


def canon_delayed(line):
    """The line with every tag of a delayed-parsing datatype (B, J, H) replaced by its semantic key; used to
    decide whether two written texts differ only in the spelling of such tags."""
    if line.startswith("#"):
        return line
    f = line.split("\t")
    i = split_tags(f)
    out = f[:i]
    for t in f[i:]:
        m = TAG_RE.match(t)
        if m and m.group(2) in DELAYED_TAG_TYPES:
            try:
                out.append("%s:%s:%r" % (m.group(1), m.group(2), value_key(m.group(2), m.group(3))))
                continue
            except Unparsable:
                pass
        out.append(t)
    return "\t".join(out)


# ------------------------------------------------------------------------------------------ closure check
def defined_and_referenced(lines, version):
    """(defined ids, referenced segment ids, referenced any-ids, path steps) from the text alone"""
    defined, segs, ref_seg, ref_any = [], set(), set(), set()
    for l in lines:
        if l.startswith("#"):
            continue
        f = l.split("\t")
        rt = f[0]
        if version == "gfa1":
            if rt == "S":
                defined.append(f[1]); segs.add(f[1])
            elif rt in "LC" and len(f) > 3:
                ref_seg.update([f[1], f[3]])
                for t in f[6:]:
                    if t.startswith("ID:Z:"):
                        defined.append(t[5:])
            elif rt == "P":
                defined.append(f[1])
                ref_seg.update(x[:-1] for x in f[2].split(","))
        else:
            if rt == "S":
                defined.append(f[1]); segs.add(f[1])
            elif rt in ("E", "G"):  # not `in "EG"`: a custom record may be called EG
                if f[1] != "*":
                    defined.append(f[1])
                ref_seg.update([f[2][:-1], f[3][:-1]])
            elif rt == "F":
                ref_seg.add(f[1])
            elif rt == "O":
                if f[1] != "*":
                    defined.append(f[1])
                ref_any.update(x[:-1] for x in f[2].split(" "))
            elif rt == "U":
                if f[1] != "*":
                    defined.append(f[1])
                ref_any.update(f[2].split(" "))
    return defined, segs, ref_seg, ref_any


def refs_closed(lines, version):
    defined, segs, ref_seg, ref_any = defined_and_referenced(lines, version)
    if not ref_seg <= segs or not ref_any <= set(defined):
        return False
    if version == "gfa1":
        links = [l.split("\t") for l in lines if l.startswith("L\t")]
        for l in lines:
            if l.startswith("P\t"):
                f = l.split("\t")
                steps = f[2].split(",")
                ovs = f[3].split(",")
                for i, (a, b) in enumerate(zip(steps, steps[1:])):
                    want = "*" if f[3] == "*" else ovs[i]
                    if not [1 for _, ov in _step_links(links, a, b)
                            if want == "*" or ov == "*" or cig_ops(ov) == cig_ops(want)]:
                        return False
    return True


def _step_links(links, a, b):
    """links (as field lists) usable for the step a -> b, with their overlap read in the direction of the step;
    a link whose two forms both fit (hairpin-like ends) is listed once per form"""
    x, ox, y, oy = a[:-1], a[-1], b[:-1], b[-1]
    out = []
    for f in links:
        if (f[1], f[2], f[3], f[4]) == (x, ox, y, oy):
            out.append((f, f[5]))
        if (f[3], inv(f[4]), f[1], inv(f[2])) == (x, ox, y, oy):
            out.append((f, cig_compl(f[5])))
    return out


def ambiguous_path_steps(lines):
    """GFA1: True when some path step can be satisfied by two different links (counted modulo complement)."""
    links = [l.split("\t") for l in lines if l.startswith("L\t")]
    for l in lines:
        if not l.startswith("P\t"):
            continue
        f = l.split("\t")
        steps = f[2].split(",")
        ovs = f[3].split(",")
        for i, (a, b) in enumerate(zip(steps, steps[1:])):
            want = "*" if f[3] == "*" else (ovs[i] if i < len(ovs) else "*")
            cands = set()
            for lf, ov in _step_links(links, a, b):
                if want == "*" or ov == "*" or cig_ops(ov) == cig_ops(want):
                    cands.add(repr(_link_canon([lf[1], lf[2], lf[3], lf[4], aln_key(lf[5])])))
            if len(cands) > 1:
                return True
    return False


def both_forms_with_different_tags(lines):
    """GFA1: True when a link occurs twice (same or complement form) with different tag sets."""
    seen = {}
    for l in lines:
        if l.startswith("L\t"):
            try:
                k = record_keys(l, "gfa1")[0]
            except Unparsable:
                continue
            if k[1] in seen and seen[k[1]] != k[2]:
                return True
            seen.setdefault(k[1], k[2])
    return False
